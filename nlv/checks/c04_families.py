"""Well-formed program families of C04 that the random generator's discipline never produces (added after two seeded
changes - struct ordering in the transpiler, local count of the VM's __init__ - got past the sweep).

Every program here is well formed by construction; both backends must build and run it.  The families are fixed
(seed-independent PRNG): their key set on the unchanged tree is closed and listed in findings/C04/known.json.

  declorder   k structs / enums / unions forming a dependency DAG (chains, diamonds, nodes with two or three fields of the
              same type, array-of-struct fields, union variants holding structs, random DAGs), each printed with its type
              declarations in leaf-first, top-down and random order, used by a function and by main.
  globalinit  a module-level `let` (immutable and `mut`) initialised by each construct the language has, read from main and
              from another function.
"""
import itertools

from ..sweep import fixed_rng

CORPUS = "C04-families-v1"


# ======================================================================================================================
# declaration-order family
# ======================================================================================================================
# A shape is a list of type nodes, leaf-last:  (name, kind, fields)  with
#   kind 'struct': fields = [(fname, ftype)]   ftype: 'int' | 'string' | 'bool' | type name | ('array', type name or 'int')
#   kind 'enum'  : fields = [variant names]
#   kind 'union' : fields = [(variant, [(fname, ftype)])]

def _st(name, *fields):
    return (name, "struct", list(fields))


SHAPES = {
    "chain3": [_st("A", ("b", "B"), ("n", "int")), _st("B", ("c", "C"), ("n", "int")), _st("C", ("x", "int"), ("y", "int"))],
    "chain4": [_st("A", ("b", "B")), _st("B", ("c", "C"), ("s", "string")), _st("C", ("d", "D"), ("n", "int")), _st("D", ("x", "int"))],
    "diamond": [_st("A", ("b", "B"), ("c", "C")), _st("B", ("d", "D"), ("n", "int")), _st("C", ("d", "D")), _st("D", ("x", "int"))],
    "twin_under_outer": [_st("Outer", ("seg", "Segment"), ("id", "int")), _st("Segment", ("a", "Point"), ("b", "Point")),
                         _st("Point", ("x", "int"), ("y", "int"))],
    "triple_under_outer": [_st("O", ("s", "S"), ("t", "bool")), _st("S", ("a", "P"), ("b", "P"), ("c", "P")), _st("P", ("x", "int"))],
    "twin_diamond": [_st("A", ("b", "B"), ("b2", "B"), ("c", "C")), _st("B", ("d", "D")), _st("C", ("d", "D"), ("d2", "D")),
                     _st("D", ("x", "int"))],
    "twin_two_levels": [_st("T", ("m", "M"), ("m2", "M")), _st("M", ("l", "L"), ("l2", "L")), _st("L", ("x", "int"), ("s", "string"))],
    "twin_mixed_leaves": [_st("R", ("p", "P"), ("q", "Q")), _st("P", ("u", "U1"), ("v", "U1"), ("w", "V1")), _st("Q", ("v", "V1"), ("v2", "V1")),
                          _st("U1", ("x", "int")), _st("V1", ("y", "int"))],
    "wide_fan": [_st("H", ("a", "La"), ("b", "Lb"), ("c", "Lc"), ("a2", "La")), _st("La", ("x", "int")), _st("Lb", ("x", "int")), _st("Lc", ("x", "int"))],
    "enum_fields": [_st("A", ("e", "E"), ("b", "B")), _st("B", ("e", "E"), ("e2", "E"), ("n", "int")), ("E", "enum", ["K0", "K1", "K2"])],
    "union_holds_structs": [("U", "union", [("V0", [("p", "P")]), ("V1", [("q", "Q"), ("n", "int")])]),
                            _st("Q", ("p", "P"), ("p2", "P")), _st("P", ("x", "int"))],
    "struct_holds_union": [_st("W", ("u", "U"), ("n", "int")), ("U", "union", [("V0", [("p", "P")]), ("V1", [("n", "int")])]), _st("P", ("x", "int"))],
    "array_of_struct_field": [_st("A", ("items", ("array", "B")), ("b", "B")), _st("B", ("c", "C"), ("c2", "C")), _st("C", ("x", "int"))],
    "array_int_fields": [_st("A", ("b", "B"), ("b2", "B")), _st("B", ("v", ("array", "int")), ("c", "C")), _st("C", ("x", "int"))],
}


def random_shape(rng, n):
    """random struct DAG with n nodes T0..T(n-1); Ti may embed Tj (j > i) one to three times"""
    nodes = []
    for i in range(n):
        fields = []
        for j in range(i + 1, n):
            if rng.random() < (0.75 if j == i + 1 else 0.35):
                for m in range(rng.choice([1, 1, 2, 2, 3])):
                    fields.append(("f%d_%d" % (j, m), "T%d" % j))
        if not fields or rng.random() < 0.5:
            fields.append(("x", rng.choice(["int", "int", "string", "bool"])))
        rng.shuffle(fields)
        nodes.append(_st("T%d" % i, *fields))
    return nodes


class DeclProgram:
    """program text for a shape with its type declarations in a given order"""

    def __init__(self, shape):
        self.shape = shape
        self.kinds = dict((n, k) for n, k, _ in shape)
        self.fields = dict((n, f) for n, _, f in shape)
        self.counter = 0

    def decl(self, node):
        name, kind, fs = node
        if kind == "struct":
            return "struct %s {\n%s\n}" % (name, ",\n".join("    %s: %s" % (f, self.tstr(t)) for f, t in fs))
        if kind == "enum":
            return "enum %s { %s }" % (name, ", ".join("%s = %d" % (v, i * 2) for i, v in enumerate(fs)))
        return "union %s {\n%s\n}" % (name, ",\n".join("    %s { %s }" % (v, ", ".join("%s: %s" % (f, self.tstr(t)) for f, t in vf)) for v, vf in fs))

    def tstr(self, t):
        return "array<%s>" % t[1] if isinstance(t, tuple) else t

    def value(self, t, variant=0):
        """(expression text, int checksum contribution is computed by reads())"""
        self.counter += 1
        c = self.counter
        if t == "int":
            return str(c)
        if t == "bool":
            return "true" if c % 2 else "false"
        if t == "string":
            return '"s%d"' % c
        if isinstance(t, tuple):
            if t[1] == "int":
                return "[%d, %d]" % (c, c + 1)
            return "[%s, %s]" % (self.value(t[1]), self.value(t[1]))
        k = self.kinds[t]
        if k == "enum":
            vs = self.fields[t]
            return "%s.%s" % (t, vs[c % len(vs)])
        if k == "union":
            v, vf = self.fields[t][variant % len(self.fields[t])]
            return "%s.%s { %s }" % (t, v, ", ".join("%s: %s" % (f, self.value(ft)) for f, ft in vf))
        return "%s { %s }" % (t, ", ".join("%s: %s" % (f, self.value(ft)) for f, ft in self.fields[t]))

    def reads(self, expr, t, out, depth=0):
        """println statements that read every scalar reachable from expr of type t through struct fields"""
        if t == "int":
            out.append("(println %s)" % expr)
        elif t == "string":
            out.append("(println %s)" % expr)
        elif t == "bool":
            out.append("(println %s)" % expr)
        elif isinstance(t, tuple):
            out.append("(println (array_length %s))" % expr)
        elif self.kinds[t] == "enum":
            out.append("(println (== %s %s.%s))" % (expr, t, self.fields[t][0]))
        elif self.kinds[t] == "struct":
            for f, ft in self.fields[t]:
                self.reads("%s.%s" % (expr, f), ft, out, depth + 1)
        # a union is read by the match in use_union()

    def text(self, order):
        """order: permutation of indices into shape"""
        self.counter = 0
        top = self.shape[0][0]
        out = [self.decl(self.shape[i]) for i in order]
        body = []
        if self.kinds[top] == "union":
            arms = []
            for v, vf in self.fields[top]:
                rd = []
                for f, ft in vf:
                    self.reads("m.%s" % f, ft, rd)
                arms.append("        %s(m) => {\n%s\n        }" % (v, "\n".join("            " + r for r in rd)))
            out.append("fn show(v: %s) -> int {\n    match v {\n%s\n    }\n    return 0\n}\nshadow show { assert true }" % (top, ",\n".join(arms)))
            for i in range(len(self.fields[top])):
                body.append("let v%d: %s = %s" % (i, top, self.value(top, i)))
                body.append("(println (show v%d))" % i)
        else:
            rd = []
            self.reads("v", top, rd)
            out.append("fn show(v: %s) -> int {\n%s\n    return 0\n}\nshadow show { assert true }" % (top, "\n".join("    " + r for r in rd)))
            body.append("let v: %s = %s" % (top, self.value(top)))
            body.append("(println (show v))")
            # a second-level value built on its own and read directly in main
            if len(self.shape) > 1 and self.shape[1][1] == "struct":
                t1 = self.shape[1][0]
                body.append("let w: %s = %s" % (t1, self.value(t1)))
                rd2 = []
                self.reads("w", t1, rd2)
                body += rd2[:4]
        out.append("fn main() -> int {\n%s\n    return 0\n}\nshadow main { assert true }" % "\n".join("    " + b for b in body))
        return "\n\n".join(out) + "\n"


def _orders(n, rng, n_random, exhaustive):
    topo = tuple(range(n - 1, -1, -1))        # leaf first
    anti = tuple(range(n))                   # users first
    res = [("leaf-first", topo), ("top-down", anti)]
    if exhaustive and n <= 4:
        perms = [p for p in itertools.permutations(range(n)) if p not in (topo, anti)]
        res += [("perm%s" % "".join(map(str, p)), p) for p in perms]
        return res
    seen = {topo, anti}
    tries = 0
    while len(res) < 2 + n_random and tries < 50:
        tries += 1
        p = list(range(n))
        rng.shuffle(p)
        p = tuple(p)
        if p not in seen:
            seen.add(p)
            res.append(("perm%s" % "".join(map(str, p)), p))
    return res


def declorder_cells(thorough):
    """[(cell name, shape name, order class, {file: text})]"""
    cells = []
    shapes = list(SHAPES.items())
    nrand = 60 if thorough else 14
    for i in range(nrand):
        r = fixed_rng(CORPUS, "shape", i)
        shapes.append(("random%02d" % i, random_shape(r, r.choice([3, 3, 4, 4, 5, 6]))))
    for sname, shape in shapes:
        r = fixed_rng(CORPUS, "orders", sname)
        for oname, order in _orders(len(shape), r, 6 if thorough else 3, thorough):
            oclass = oname if oname in ("leaf-first", "top-down") else "other-order"
            cells.append(("declorder/%s/%s" % (sname, oname), sname, oclass, {"main.nano": DeclProgram(shape).text(order)}))
    return cells


# ======================================================================================================================
# global-initialiser family
# ======================================================================================================================
# (construct name, type, initialiser, read expression of a printable scalar, extra declarations, value for `set` when mut)

PRELUDE = """struct P { x: int, y: int }
struct Q { p: P, name: string }
enum E { K0 = 0, K1 = 3 }
union U {
    V0 { a: int },
    V1 { s: string }
}
fn dbl(x: int) -> int { return (* x 2) }
shadow dbl { assert true }
fn add(a: int, b: int) -> int { return (+ a b) }
shadow add { assert true }
fn is_even(x: int) -> bool { return (== (% x 2) 0) }
shadow is_even { assert true }
fn mkp(a: int) -> P { return P { x: a, y: (+ a 1) } }
shadow mkp { assert true }
fn mkarr(n: int) -> array<int> { return [n, (+ n 1)] }
shadow mkarr { assert true }
fn greet(s: string) -> string { return (+ "hi " s) }
shadow greet { assert true }
"""

GLOBAL_INITS = [
    ("int_literal", "int", "42", "g", "7"),
    ("int_negative", "int", "-5", "g", "7"),
    ("int_arith", "int", "(+ 2 (* 3 4))", "g", "7"),
    ("int_arith_nested", "int", "(- (* 4 (- 9 2)) (/ 9 2))", "g", "7"),
    ("int_mod", "int", "(% 17 5)", "g", "7"),
    ("int_neg_expr", "int", "(- 5)", "g", "7"),
    ("int_from_global", "int", "(+ base 1)", "g", "7"),
    ("int_abs", "int", "(abs -4)", "g", "7"),
    ("int_max", "int", "(max base 9)", "g", "7"),
    ("int_min", "int", "(min 3 9)", "g", "7"),
    ("int_str_length", "int", '(str_length "abc")', "g", "7"),
    ("int_char_at", "int", '(char_at "abc" 1)', "g", "7"),
    ("int_string_to_int", "int", '(string_to_int "123")', "g", "7"),
    ("int_cond", "int", "(cond ((< base 3) 10) ((< base 10) 20) (else 30))", "g", "7"),
    ("int_user_call", "int", "(dbl 4)", "g", "7"),
    ("int_user_call_nested", "int", "(add (dbl 2) (dbl base))", "g", "7"),
    ("int_reduce", "int", "(reduce [1, 2, 3] 0 add)", "g", "7"),
    ("int_array_length_literal", "int", "(array_length [1, 2, 3])", "g", "7"),
    ("int_at_literal", "int", "(at [5, 6, 7] 1)", "g", "7"),
    ("int_enum_as_int", "int", "E.K1", "g", "7"),
    ("bool_literal", "bool", "true", "g", "false"),
    ("bool_cmp", "bool", "(< base 9)", "g", "false"),
    ("bool_logic", "bool", "(and (< base 9) (not false))", "g", "false"),
    ("bool_str_equals", "bool", '(== "a" "a")', "g", "false"),
    ("bool_str_contains", "bool", '(str_contains "abc" "bc")', "g", "false"),
    ("bool_is_digit", "bool", "(is_digit 53)", "g", "false"),
    ("float_literal", "float", "1.5", "(< g 9.0)", "2.5"),
    ("float_arith", "float", "(* 1.5 (+ 2.0 0.25))", "(< g 9.0)", "2.5"),
    ("float_sqrt", "float", "(sqrt 16.0)", "(< g 9.0)", "2.5"),
    ("string_literal", "string", '"hello"', "g", '"x"'),
    ("string_empty", "string", '""', "g", '"x"'),
    ("string_plus", "string", '(+ "ab" "cd")', "g", '"x"'),
    ("string_concat", "string", '(str_concat "ab" "cd")', "g", '"x"'),
    ("string_substring", "string", '(str_substring "abcdef" 1 3)', "g", '"x"'),
    ("string_int_to_string", "string", "(int_to_string 42)", "g", '"x"'),
    ("string_from_char", "string", "(string_from_char 65)", "g", '"x"'),
    ("string_cond", "string", '(cond ((< base 3) "lo") (else "hi"))', "g", '"x"'),
    ("string_user_call", "string", '(greet "bob")', "g", '"x"'),
    ("string_from_global", "string", '(+ sbase "!")', "g", '"x"'),
    ("array_int_literal", "array<int>", "[1, 2, 3]", "(at g 1)", "[9, 8, 7, 6]"),
    ("array_int_empty", "array<int>", "[]", "(array_length g)", "[9]"),
    ("array_string_literal", "array<string>", '["a", "bc"]', "(at g 1)", '["z", "y"]'),
    ("array_bool_literal", "array<bool>", "[true, false]", "(at g 0)", "[false]"),
    ("array_literal_of_exprs", "array<int>", "[(+ 1 2), (* base 2)]", "(at g 1)", "[9, 8, 7, 6]"),
    ("array_new", "array<int>", "(array_new 4 7)", "(at g 3)", "[9, 8, 7, 6]"),
    ("array_new_global_size", "array<int>", "(array_new base 7)", "(array_length g)", "[9]"),
    ("array_new_string", "array<string>", '(array_new 2 "s")', "(at g 1)", '["z", "y"]'),
    ("array_push", "array<int>", "(array_push [1, 2] 3)", "(array_length g)", "[9]"),
    ("array_slice", "array<int>", "(array_slice [1, 2, 3, 4] 1 3)", "(array_length g)", "[9]"),
    ("array_plus_array", "array<int>", "(+ [1, 2] [3, 4])", "(at g 0)", "[9]"),
    ("array_plus_scalar", "array<int>", "(+ [1, 2] 10)", "(at g 0)", "[9]"),
    ("array_map", "array<int>", "(map [1, 2, 3] dbl)", "(at g 2)", "[9, 8, 7, 6]"),
    ("array_filter", "array<int>", "(filter [1, 2, 3, 4] is_even)", "(array_length g)", "[9]"),
    ("array_user_call", "array<int>", "(mkarr 5)", "(at g 1)", "[9, 8, 7, 6]"),
    ("array_nested", "array<array<int>>", "[[1, 2], [3]]", "(array_length (at g 0))", "[[9]]"),
    ("struct_literal", "P", "P { x: 3, y: 4 }", "g.y", "P { x: 0, y: 0 }"),
    ("struct_literal_exprs", "P", "P { x: (+ base 1), y: (* 2 3) }", "g.x", "P { x: 0, y: 0 }"),
    ("struct_nested_literal", "Q", 'Q { p: P { x: 1, y: 2 }, name: "n" }', "g.p.y", 'Q { p: P { x: 0, y: 0 }, name: "" }'),
    ("struct_user_call", "P", "(mkp 5)", "g.y", "P { x: 0, y: 0 }"),
    ("enum_value", "E", "E.K1", "(== g E.K1)", "E.K0"),
    ("union_literal", "U", "U.V0 { a: 5 }", None, "U.V1 { s: \"z\" }"),
    ("tuple_literal", "(int, bool)", "(7, true)", "g.0", None),
    ("fn_value", "fn(int) -> int", "dbl", "(g 4)", None),
]


def globalinit_program(name, t, init, read, setval, mut):
    decl = "let base: int = 6\nlet sbase: string = \"sb\"\nlet %sg: %s = %s\n" % ("mut " if mut else "", t, init)
    if read is None:       # union: read through match
        rd_fn = "    match g {\n        V0(m) => { (println m.a) },\n        V1(m) => { (println m.s) }\n    }"
        rd_main = rd_fn
    else:
        rd_fn = "    (println %s)" % read
        rd_main = rd_fn
    out = [PRELUDE, decl, "fn show() -> int {\n%s\n    return 0\n}\nshadow show { assert true }" % rd_fn]
    body = [rd_main, "    (println (show))"]
    if mut and setval is not None:
        out.append("fn reset() -> int {\n    set g %s\n    return 1\n}\nshadow reset { assert true }" % setval)
        body += ["    (println (reset))", rd_main, "    (println (show))"]
    out.append("fn main() -> int {\n%s\n    return 0\n}\nshadow main { assert true }" % "\n".join(body))
    return "\n".join(out) + "\n"


def globalinit_cells(thorough):
    """[(cell name, construct, 'let'|'let mut', {file: text})]"""
    cells = []
    for name, t, init, read, setval in GLOBAL_INITS:
        for mut in (False, True):
            cells.append(("globalinit/%s/%s" % (name, "mut" if mut else "imm"), name, "let mut" if mut else "let",
                          {"main.nano": globalinit_program(name, t, init, read, setval, mut)}))
    # two initialisers with hidden temporaries in one module, and an initialiser after a function that uses the global
    combos = [("array_new_twice", "let ga: array<int> = (array_new 3 1)\nlet gb: array<string> = (array_new 2 \"q\")\n",
               "(+ (array_length ga) (array_length gb))"),
              ("array_new_after_plain_globals", "let k1: int = 3\nlet k2: string = \"s\"\nlet ga: array<int> = (array_new k1 (str_length k2))\n", "(at ga 2)"),
              ("map_of_array_new", "let ga: array<int> = (map (array_new 3 2) dbl)\n", "(at ga 2)"),
              ("reduce_of_array_new", "let ga: int = (reduce (array_new 4 5) 0 add)\n", "ga"),
              ("filter_then_length", "let ga: int = (array_length (filter [1, 2, 3, 4, 6] is_even))\n", "ga"),
              ("array_plus_array_new", "let ga: array<int> = (+ (array_new 2 1) [5, 6])\n", "(at ga 1)"),
              ("array_new_in_struct_field_read", "let ga: array<int> = (array_new 2 (dbl 4))\n", "(at ga 1)")]
    for name, decl, read in combos:
        text = PRELUDE + decl + "fn show() -> int {\n    (println %s)\n    return 0\n}\nshadow show { assert true }\n" % read + \
            "fn main() -> int {\n    (println %s)\n    (println (show))\n    return 0\n}\nshadow main { assert true }\n" % read
        cells.append(("globalinit/%s/imm" % name, name, "let", {"main.nano": text}))
    return cells
