"""C20 - native programs and their C runtime are memory-safe (DESIGN §4 C20).

E: (1) an AddressSanitizer / UndefinedBehaviorSanitizer report (full UBSan: signed overflow and shifts included) from a
       native executable on a run inside the language's defined behaviour;
   (2) a history of runtime operations (dyn_array of every element kind, list_int, list_string, gc retain/release,
       nl_string) whose observed results differ from the abstract list / reference-count / byte-string model, or that
       makes a sanitizer report.
O: (1) `nanoc` of the asan flavor with NANO_CC=fastcc (NLV_FASTCC_SAN=1): generated C *and* runtime sources are compiled
       with -fsanitize=address,undefined -fno-sanitize-recover=all; stderr is scanned for reports; stdout and the exit
       status must still equal the reference model (a "fix" that silences a report by changing behaviour is caught).
   (2) probes/rt_hist_probe.c, built through the same fastcc command line nanoc uses for a program (so it links the
       very runtime objects programs link, and carries the `static` helpers nanoc emits into every program), executes
       seeded histories and logs (op, args, result, state) per step; the models in this file predict every record.
W: generator profile "ownership" + hand-written templates + the census cells (sanitizer only) for (1); seeded histories
   biased to capacity boundaries for (2); a few *directed* histories/programs reproduce each known defect (so that it
   is reported by its key) while the random workload stays clear of them and keeps exploring.
"""
import hashlib
import os
import random
import re
import shlex
import shutil
import struct

from .. import build, engines, sweep, census, core
from ..gen import gen, ast as A, ref
from ..run import run as sh, pmap, Scratch

LEVEL = "exploration"

I64_MAX = (1 << 63) - 1
I64_MIN = -(1 << 63)

# ======================================================================================================================
# sanitizer reports
# ======================================================================================================================

FRAME_RE = re.compile(r"^\s*#(\d+) 0x[0-9a-f]+ (?:in )?(\S+)(?: (\S+))?", re.M)
ASAN_KIND_RE = re.compile(r"ERROR: AddressSanitizer: ([A-Za-z0-9_-]+(?: [a-z-]+)*?)(?: on | \(|:|$)", re.M)
UBSAN_RE = re.compile(r"runtime error: (.*)")
ASSERT_RE = re.compile(r"(\S+): (\S+?):(\d+): (\w+): Assertion [`'](.*?)' failed")

SKIP_FUNC = re.compile(r"^(__interceptor_|__asan|__ubsan|__sanitizer|_start$|__libc_|__GI_|__assert|abort$|raise$|"
                       r"__pthread|gsignal$|memcpy$|memmove$|strlen$|strdup$|free$|malloc$|realloc$|calloc$|printf_common)")


def ubsan_class(msg):
    """seed independent class of a UBSan message (numbers and addresses removed)"""
    m = msg.strip()
    m = re.sub(r"0x[0-9a-f]+", "ADDR", m)
    m = re.sub(r"-?\d+", "N", m)
    m = re.sub(r"type '[^']*'", "type T", m)
    return m[:70]


def normalise_func(name):
    name = re.sub(r"^nl_f\d+b?$", "nl_fN", name)        # generated function names are seed dependent
    name = re.sub(r"^nl_(t\d+_\w+)$", r"nl_\1", name)   # template functions keep their names
    return name


def report_signature(errtext):
    """(kind, [innermost three in-program / in-runtime function names]) of the first sanitizer report, or None.
    An `AddressSanitizer: ABRT` report is the runtime's own abort() (assert / explicit check) seen through
    handle_abort=1: it is returned with kind 'ABRT' so that callers can treat it as a defined failure."""
    m_ub = UBSAN_RE.search(errtext)
    m_as = ASAN_KIND_RE.search(errtext)
    if not m_ub and not m_as and "AddressSanitizer" not in errtext:
        return None
    if m_ub and (not m_as or m_ub.start() < m_as.start()):
        kind = "ubsan:" + ubsan_class(m_ub.group(1))
        start = m_ub.start()
    elif m_as:
        kind = m_as.group(1).strip()
        start = m_as.start()
    else:
        kind = "asan:other"
        start = errtext.find("AddressSanitizer")
    frames = []
    seen_first = False
    for fm in FRAME_RE.finditer(errtext, start):
        idx = int(fm.group(1))
        if idx == 0 and seen_first:
            break                       # the next stack (allocation / free site) starts
        seen_first = True
        fn = fm.group(2)
        if SKIP_FUNC.search(fn) or fn.startswith("hp_") or fn in ("main", "nlv_prelude_main"):
            continue
        frames.append(normalise_func(fn))
        if len(frames) == 3:
            break
    return kind, frames


def san_key(sig):
    return "san|%s|%s" % (sig[0], ",".join(sig[1]) or "?")


def abort_class(errtext):
    """what made the process abort: the failed assertion (function: expression) or 'abort'"""
    m = ASSERT_RE.search(errtext)
    if m:
        return "assert:%s:%s" % (m.group(4), re.sub(r"\s+", " ", m.group(5))[:60])
    return "abort"


# ======================================================================================================================
# part 1: programs
# ======================================================================================================================

# The clean zone of the native engine.  Switches bound to defects of the VM only are turned on (C20 never runs the VM).
OWN_FEATURES = {"for_continue": True, "logic_effect": True, "min_builtin": True}

OWNERSHIP_TAGS = {
    "return.early": 3, "string.loop": 2, "param.array": 3, "return.array": 3, "struct.arrayfield": 3,
    "union.construct": 2, "union.match_stmt": 2, "union.match_expr": 1, "param.union": 2, "set": 1,
    "recursion.strrep": 3, "let.mut_array": 2, "array.push": 2, "array.set_guarded": 1, "array.read_guarded": 1,
    "array.literal.string": 2, "return.struct": 2, "param.struct": 2, "struct.literal": 1, "string.concat": 1,
    "string.substring": 1, "let.array": 1, "let.struct": 1, "let.union": 1, "global.set": 1, "struct.nested": 1,
}


def ownership_score(prog):
    return sum(w for t, w in OWNERSHIP_TAGS.items() if t in prog.tags)


class Interp20(ref.Interp):
    """the reference evaluator plus array_slice (docs/STDLIB.md: sub-array of `length` elements from `start`); only the
    documented domain (0 <= start, 0 <= length, start <= len; an over-long length ends at the end of the array)"""

    def builtin(self, name, a):
        if name == "array_slice":
            self.builtins_used.add(name)
            arr, st, ln = a
            if st < 0 or ln < 0 or st > len(arr):
                raise ref.Fault("slice-domain")
            return list(arr[st:st + ln])
        return ref.Interp.builtin(self, name, a)


def evaluate20(prog, max_steps=3000000):
    """gen.evaluate with Interp20 (main only; templates have trivial shadow blocks)"""
    try:
        it = Interp20(prog, max_steps=max_steps)
        out, code, fault = it.run_main()
    except (ref.Budget, RecursionError):
        return None
    if fault is not None or it.overflowed:
        return None
    return {"stdout": out, "exit": code, "steps": it.steps, "builtins": sorted(it.builtins_used)}


# ---- hand-written templates (shapes the random generator rarely makes) ----------------------------------------------
def V(n):
    return ("var", n)


def I(n):
    return ("int", n)


def S(s):
    return ("str", s)


def C(f, *a):
    return ("call", f, list(a))


def B(op, a, b):
    return ("bin", op, a, b)


def cat(*xs):
    e = xs[0]
    for x in xs[1:]:
        e = ("bin", "+", e, x)
    return e


def P(label, e, t="string"):
    """labelled print statement(s)"""
    if t == "string":
        return [("print", cat(S(label + ":"), e), True)]
    return [("print", S(label + ":"), False), ("print", e, True)]


TRUE_SHADOW = [("assert", ("bool", True))]
AS = ("array", "string")
AI = ("array", "int")
BOUNDARY_N = [0, 1, 2, 7, 8, 9, 15, 16, 17, 31, 32, 33, 63, 64, 65, 100, 129]


def _fn(name, params, ret, body):
    return A.Func(name, params, ret, body, shadow=list(TRUE_SHADOW))


def _while_count(c, n_expr, body):
    return [("let", c, "int", True, I(0)),
            ("while", B("<", V(c), n_expr), body + [("set", c, B("+", V(c), I(1)))])]


def _lib_strings(m):
    """mk / join / find / pass: arrays of strings built in loops, passed through calls and returned"""
    m.funcs.append(_fn("t1_mk", [("n", "int"), ("pre", "string")], AS,
                       [("let", "a", AS, True, ("arr", "string", []))] +
                       _while_count("i", V("n"), [("set", "a", C("array_push", V("a"), cat(V("pre"), C("int_to_string", V("i")))))]) +
                       [("return", V("a"))]))
    m.funcs.append(_fn("t1_join", [("a", AS), ("sep", "string")], "string",
                       [("let", "s", "string", True, S("")),
                        ("for", "i", I(0), C("array_length", V("a")), [("set", "s", cat(V("s"), C("at", V("a"), V("i")), V("sep")))]),
                        ("return", V("s"))]))
    # early return out of a for inside an if inside a for, with owned locals alive in every scope
    m.funcs.append(_fn("t1_find", [("a", AS), ("key", "string")], "int",
                       [("let", "outer", "string", False, cat(V("key"), S("#"))),
                        ("for", "i", I(0), C("array_length", V("a")),
                         [("let", "cur", "string", False, cat(S(""), C("at", V("a"), V("i")))),
                          ("if", B("==", V("cur"), V("key")),
                           [("let", "tmp", AS, False, ("arr", "string", [cat(V("cur"), S("!")), cat(V("outer"), V("cur"))])),
                            ("for", "j", I(0), I(3),
                             [("let", "deep", "string", False, cat(C("at", V("tmp"), I(0)), C("int_to_string", V("j")))),
                              ("if", B("==", V("j"), I(1)), [("return", V("i"))], None)])], None)]),
                        ("return", I(-1))]))
    m.funcs.append(_fn("t1_pass", [("a", AS)], AS, [("return", V("a"))]))


def tpl_strings_in_arrays(r):
    p = A.Program()
    m = p.main
    _lib_strings(m)
    n = r.choice(BOUNDARY_N[3:])
    pre = r.choice(["s", "item-", "", "long-prefix-0123456789-"])
    k = r.randrange(n)
    body = [("let", "a", AS, True, C("t1_mk", I(n), S(pre))),
            ("let", "b", AS, False, C("t1_pass", V("a")))]
    body += P("L1", C("array_length", V("b")), "int")
    body += P("L2", C("t1_join", V("b"), S(",")))
    body += P("L3", C("t1_find", V("a"), S(pre + str(k))), "int")
    body += P("L4", C("t1_find", V("a"), S("absent")), "int")
    body += [("expr", C("array_set", V("a"), I(k), cat(S("new"), C("int_to_string", I(k)))))]
    body += P("L5", C("at", V("a"), I(k)))
    body += P("L6", C("t1_join", C("t1_pass", C("t1_mk", I(r.choice([0, 1, 9])), S("z"))), S("")))
    # reassignment of an owned local in a loop
    body += _while_count("c", I(r.randint(2, 5)), [("set", "a", C("t1_mk", B("+", V("c"), I(r.choice([6, 7, 14]))), S("r")))] +
                         P("L7", C("at", V("a"), B("+", V("c"), I(1)))))
    body += P("L8", C("array_length", V("a")), "int")
    body.append(("return", I(0)))
    m.funcs.append(_fn("main", [], "int", body))
    p.tags = {"tpl.strings_in_arrays"}
    return p


def tpl_struct_arrays(r):
    p = A.Program()
    m = p.main
    m.structs.append(("TP", [("name", "string"), ("xs", AI), ("tags", AS), ("k", "int")]))
    TP = ("struct", "TP")
    m.funcs.append(_fn("t2_mk", [("n", "int"), ("nm", "string")], TP,
                       [("let", "xs", AI, True, ("arr", "int", [])),
                        ("let", "tg", AS, True, ("arr", "string", []))] +
                       _while_count("i", V("n"), [("set", "xs", C("array_push", V("xs"), B("*", V("i"), V("i")))),
                                                  ("set", "tg", C("array_push", V("tg"), cat(V("nm"), C("int_to_string", V("i")))))]) +
                       [("return", ("structlit", "TP", [("name", cat(S("<"), V("nm"), S(">"))), ("xs", V("xs")), ("tags", V("tg")), ("k", V("n"))]))]))
    m.funcs.append(_fn("t2_total", [("q", TP)], "int",
                       [("let", "s", "int", True, I(0)),
                        ("let", "v", AI, False, ("field", V("q"), "xs")),
                        ("for", "i", I(0), C("array_length", V("v")),
                         [("set", "s", B("+", V("s"), C("at", V("v"), V("i")))),
                          ("if", B(">", V("s"), I(5000)), [("return", V("s"))], None)]),
                        ("return", V("s"))]))
    m.funcs.append(_fn("t2_last_tag", [("q", TP)], "string",
                       [("let", "t", AS, False, ("field", V("q"), "tags")),
                        ("if", B("==", C("array_length", V("t")), I(0)), [("return", S("none"))], None),
                        ("return", C("at", V("t"), B("-", C("array_length", V("t")), I(1))))]))
    n = r.choice(BOUNDARY_N[2:12])
    body = [("let", "q", TP, True, C("t2_mk", I(n), S(r.choice(["a", "bb", "tag"]))))]
    body += P("L1", cat(S(""), ("field", V("q"), "name")))
    body += P("L2", C("t2_total", V("q")), "int")
    body += P("L3", C("t2_last_tag", V("q")))
    body += _while_count("c", I(r.randint(2, 4)), [("set", "q", C("t2_mk", B("+", V("c"), I(r.choice([0, 7, 8]))), S("r")))] +
                         P("L4", C("t2_last_tag", V("q"))) + P("L5", ("field", V("q"), "k"), "int"))
    body += P("L6", C("t2_total", C("t2_mk", I(r.choice([0, 1, 40])), S("x"))), "int")
    body.append(("return", I(0)))
    m.funcs.append(_fn("main", [], "int", body))
    p.tags = {"tpl.struct_arrays"}
    return p


def tpl_union_payload(r):
    p = A.Program()
    m = p.main
    m.unions.append(("TU", [("Txt", [("s", "string"), ("n", "int")]), ("Num", [("v", "int")]), ("Nil", [("z", "bool")])]))
    TU = ("union", "TU")
    # recursion returning a union whose payload string grows on the way back
    m.funcs.append(_fn("t3_build", [("n", "int")], TU,
                       [("if", B("<=", V("n"), I(0)), [("return", ("unionlit", "TU", "Nil", [("z", ("bool", True))]))], None),
                        ("let", "inner", TU, False, C("t3_build", B("-", V("n"), I(1)))),
                        ("let", "res", TU, True, ("unionlit", "TU", "Num", [("v", V("n"))])),
                        ("match", V("inner"),
                         [("Txt", "mt", [("set", "res", ("unionlit", "TU", "Txt", [("s", cat(("field", V("mt"), "s"), S("+"), C("int_to_string", V("n")))), ("n", B("+", ("field", V("mt"), "n"), I(1)))]))]),
                          ("Num", "mn", [("set", "res", ("unionlit", "TU", "Txt", [("s", cat(S("n"), C("int_to_string", ("field", V("mn"), "v")))), ("n", I(1))]))]),
                          ("Nil", "mz", [("set", "res", ("unionlit", "TU", "Num", [("v", V("n"))]))])]),
                        ("return", V("res"))]))
    m.funcs.append(_fn("t3_show", [("u", TU)], "string",
                       [("let", "o", "string", True, S("?")),
                        ("match", V("u"),
                         [("Txt", "a1", [("set", "o", cat(S("T:"), ("field", V("a1"), "s"), S("/"), C("int_to_string", ("field", V("a1"), "n"))))]),
                          ("Num", "a2", [("set", "o", cat(S("N:"), C("int_to_string", ("field", V("a2"), "v"))))]),
                          ("Nil", "a3", [("set", "o", S("nil"))])]),
                        ("return", V("o"))]))
    body = []
    for i, n in enumerate(sorted(r.sample(range(0, 14), 4))):
        body += P("L%d" % i, C("t3_show", C("t3_build", I(n))))
    body += [("let", "u", TU, True, C("t3_build", I(3)))]
    body += _while_count("c", I(r.randint(2, 5)), [("set", "u", C("t3_build", B("+", V("c"), I(2))))] + P("L9", C("t3_show", V("u"))))
    body.append(("return", I(0)))
    m.funcs.append(_fn("main", [], "int", body))
    p.tags = {"tpl.union_payload"}
    return p


def tpl_recursion_heap(r):
    p = A.Program()
    m = p.main
    m.funcs.append(_fn("t4_rep", [("s", "string"), ("n", "int")], "string",
                       [("if", B("<=", V("n"), I(0)), [("return", S(""))], None),
                        ("return", cat(V("s"), C("t4_rep", V("s"), B("-", V("n"), I(1)))))]))
    m.funcs.append(_fn("t4_ints", [("n", "int")], AI,
                       [("if", B("<=", V("n"), I(0)), [("let", "e", AI, False, ("arr", "int", [])), ("return", V("e"))], None),
                        ("let", "a", AI, True, C("t4_ints", B("-", V("n"), I(1)))),
                        ("set", "a", C("array_push", V("a"), B("*", V("n"), I(3)))),
                        ("return", V("a"))]))
    m.funcs.append(_fn("t4_strs", [("n", "int")], AS,
                       [("if", B("<=", V("n"), I(0)), [("let", "e", AS, False, ("arr", "string", [])), ("return", V("e"))], None),
                        ("let", "a", AS, True, C("t4_strs", B("-", V("n"), I(1)))),
                        ("set", "a", C("array_push", V("a"), C("t4_rep", S("ab"), V("n")))),
                        ("return", V("a"))]))
    n1 = r.choice([8, 9, 16, 17, 33])
    n2 = r.choice([7, 8, 9, 17])
    body = [("let", "xs", AI, False, C("t4_ints", I(n1))), ("let", "ss", AS, False, C("t4_strs", I(n2)))]
    body += P("L1", C("array_length", V("xs")), "int") + P("L2", C("at", V("xs"), I(n1 - 1)), "int")
    body += P("L3", C("at", V("ss"), I(n2 - 1))) + P("L4", C("str_length", C("t4_rep", S("xyz"), I(r.choice([0, 1, 50, 200])))), "int")
    # `at` directly on a call result is transpiled as an int access (a typing defect outside C20): bind it first
    body += [("let", "s3", AS, False, C("t4_strs", I(3)))] + P("L5", C("at", V("s3"), I(2)))
    body.append(("return", I(0)))
    m.funcs.append(_fn("main", [], "int", body))
    p.tags = {"tpl.recursion_heap"}
    return p


def tpl_array_ops(r):
    """push / pop / set / get / remove / slice at the growth boundaries through the language's builtins"""
    p = A.Program()
    m = p.main
    n = r.choice(BOUNDARY_N[3:13])
    body = [("let", "a", AI, True, ("arr", "int", []))]
    body += _while_count("i", I(n), [("set", "a", C("array_push", V("a"), B("-", B("*", V("i"), I(7)), I(3))))])
    body += P("L1", C("array_length", V("a")), "int")
    lab = [1]

    def pr(e, t="int"):
        lab[0] += 1
        return P("L%d" % lab[0], e, t)
    cur = n
    for _ in range(r.randint(6, 14)):
        k = r.random()
        if k < 0.25 and cur > 0:
            body += [("let", "v%d" % lab[0], "int", False, C("array_pop", V("a")))] + pr(V("v%d" % lab[0]))
            cur -= 1
        elif k < 0.45 and cur > 0:
            idx = r.choice([0, cur - 1, cur // 2])
            body += [("expr", C("array_remove_at", V("a"), I(idx)))]
            cur -= 1
            body += pr(C("array_length", V("a")))
        elif k < 0.6 and cur > 0:
            idx = r.choice([0, cur - 1, cur // 2])
            body += [("expr", C("array_set", V("a"), I(idx), I(r.randint(-99, 99))))] + pr(C("at", V("a"), I(idx)))
        elif k < 0.8:
            cnt = r.choice([1, 2, 8, 9])
            body += _while_count("j%d" % lab[0], I(cnt), [("set", "a", C("array_push", V("a"), I(r.randint(0, 9))))])
            cur += cnt
            body += pr(C("at", V("a"), I(cur - 1)))
        else:
            st = r.randint(0, cur)
            ln = r.choice([0, 1, cur - st, max(0, cur - st - 1), cur + 3])
            nm = "s%d" % lab[0]
            body += [("let", nm, AI, False, C("array_slice", V("a"), I(st), I(ln)))] + pr(C("array_length", V(nm)))
            eff = min(ln, cur - st)
            if eff > 0:
                body += pr(C("at", V(nm), I(eff - 1)))
    body += [("let", "z", AI, False, C("array_new", I(r.choice([0, 1, 8, 9, 20])), I(5)))] + pr(C("array_length", V("z")))
    if cur > 0:
        body += pr(C("at", V("a"), I(0))) + pr(C("at", V("a"), I(cur - 1)))
    body.append(("return", I(0)))
    m.funcs.append(_fn("main", [], "int", body))
    p.tags = {"tpl.array_ops"}
    return p


def tpl_string_growth(r):
    p = A.Program()
    m = p.main
    k = r.randint(3, 11)
    seed = r.choice(["ab", "x", "hello", "0123456"])
    body = [("let", "s", "string", True, S(seed))]
    body += _while_count("i", I(k), [("set", "s", cat(V("s"), V("s")))])
    n = len(seed) << k
    body += P("L1", C("str_length", V("s")), "int")
    body += P("L2", C("str_substring", V("s"), I(n - 3), I(3)))
    body += P("L3", C("str_substring", V("s"), I(n - 1), I(10)))
    body += P("L4", C("str_substring", V("s"), I(n), I(0)))
    body += P("L5", C("str_substring", V("s"), I(0), I(0)))
    body += P("L6", C("char_at", V("s"), I(n - 1)), "int")
    body += P("L7", C("str_length", C("str_substring", V("s"), I(1), I(1 << 40))), "int")
    body += [("let", "t", "string", True, S(""))]
    body += _while_count("j", I(r.choice([5, 30, 100])), [("set", "t", cat(V("t"), C("string_from_char", B("+", I(65), B("%", V("j"), I(26))))))])
    body += P("L8", V("t"))
    body += P("L9", C("str_contains", V("s"), C("str_substring", V("s"), I(1), I(4))), "bool")
    body.append(("return", I(r.choice([0, 0, 3]))))
    m.funcs.append(_fn("main", [], "int", body))
    p.tags = {"tpl.string_growth"}
    return p


TEMPLATES = [tpl_strings_in_arrays, tpl_struct_arrays, tpl_union_payload, tpl_recursion_heap, tpl_array_ops, tpl_string_growth]


def make_template(args):
    idx, seed = args
    r = random.Random(seed)
    fn = TEMPLATES[idx % len(TEMPLATES)]
    try:
        prog = fn(r)
        exp = evaluate20(prog)
    except (KeyError, TypeError, IndexError, ValueError):
        return None
    if exp is None:
        return None
    return prog, exp


# directed programs: each reproduces one known defect inside the documented behaviour (text, expected stdout, expected exit)
DIRECTED_PROGRAMS = {
    "substring_len_max": ('fn main() -> int {\n    (println (str_substring "hello" 1 9223372036854775807))\n    (println "end")\n    return 0\n}\nshadow main { assert true }\n',
                          "ello\nend\n", 0),
}


def _gen_own(args):
    seed, size = args
    prog, exp = gen.make_program(random.Random(seed), OWN_FEATURES, size)
    if prog is None:
        return None
    return prog, exp


def gen_programs(ctx, n_random, n_templates):
    """[(name, Program, expected)]: the `n_random` highest ownership scores out of 2*n_random generated programs, plus
    `n_templates` instances of the hand-written templates.  Deterministic in (seed, index)."""
    import concurrent.futures as cf
    cand = [(ctx.rng("own", i).getrandbits(64), ctx.rng("own-size", i).choice([0.8, 1.0, 1.3, 1.6])) for i in range(2 * n_random)]
    tpl = [(i, ctx.rng("tpl", i).getrandbits(64)) for i in range(n_templates)]
    out = []
    with cf.ProcessPoolExecutor(max_workers=min(16, os.cpu_count() or 4)) as ex:
        gens = list(ex.map(_gen_own, cand, chunksize=4))
        tpls = list(ex.map(make_template, tpl, chunksize=4))
    scored = [(ownership_score(g[0]), i, g) for i, g in enumerate(gens) if g is not None]
    scored.sort(key=lambda x: (-x[0], x[1]))
    n_generated = len(scored)
    for sc_, i, (prog, exp) in sorted(scored[:n_random], key=lambda x: x[1]):
        out.append(("g%05d" % i, prog, exp))
    for (i, _), t in zip(tpl, tpls):
        if t is not None:
            out.append(("t%05d" % i, t[0], t[1]))
    return out, n_generated


def program_verdict(nanoc_r, built, r):
    """classify one native run: (class, detail, signature|None)"""
    if not built:
        if nanoc_r.sanitizer_report():
            return "skip:nanoc-sanitizer", None, None
        return "skip:native-build-failed:" + engines.classify_nanoc_failure(nanoc_r), None, None
    if r.timeout:
        return "inconclusive:watchdog", None, None
    sig = report_signature(r.errtext())
    if sig is not None and sig[0] != "ABRT":
        return "san", r.sanitizer_report() or r.errtext()[-3000:], sig
    return "ran", None, sig


def run_programs(ctx, sc, asan, progs, cov):
    def do(item):
        name, prog, exp = item
        d = sc.sub("prog/" + name)
        engines.write_files(d, prog.files())
        nr, built = engines.build_native(asan, d, san=True)
        r = engines.run_native(d, san=True) if built else None
        if r is not None and r.timeout:
            r = engines.run_native(d, san=True)          # re-run once before believing a hang
        return item, nr, built, r

    hist = {}
    fsets = set()
    builtins = {}
    samples = []
    lines = 0
    for (name, prog, exp), nr, built, r in pmap(do, progs):
        cls, detail, sig = program_verdict(nr, built, r)
        files = {"original/" + k: v for k, v in prog.files().items()}
        files["cmd.txt"] = ("cd original && NANO_CC=/verif/tools/fastcc NLV_FASTCC_ROOT=<asan flavor root> NLV_FASTCC_SAN=1 "
                            "nanoc main.nano -o main.bin && ./main.bin\n")
        files["reference.stdout"] = exp["stdout"]
        if cls == "san":
            hist["sanitizer-report"] = hist.get("sanitizer-report", 0) + 1
            files["native.stderr"] = r.err
            files["native.stdout"] = r.out
            ctx.violation(san_key(sig), "program %s: sanitizer report %s in %s\n%s" % (name, sig[0], ",".join(sig[1]), detail[:1500]), files)
            continue
        if cls != "ran":
            hist[cls] = hist.get(cls, 0) + 1
            continue
        if r.text() == exp["stdout"] and r.status == exp["exit"]:
            hist["clean+equal"] = hist.get("clean+equal", 0) + 1
            lines += r.out.count(b"\n")
            for b in exp.get("builtins", []):
                builtins[b] = builtins.get(b, 0) + 1
            if r.out.count(b"\n") >= 8:
                fsets.add(frozenset(prog.tags))
            if len(samples) < 3 or (name.startswith("t") and sum(1 for s_ in samples if s_["name"].startswith("t")) < 2 and len(samples) < 5):
                samples.append({"name": name, "features": sorted(prog.tags), "ownership_score": ownership_score(prog),
                                "lines_compared": r.out.count(b"\n"), "exit": r.status, "source_head": prog.files()["main.nano"][:500]})
            continue
        # no sanitizer report, but the behaviour is not the model's
        hist["behaviour-differs"] = hist.get("behaviour-differs", 0) + 1
        files["native.stderr"] = r.err
        files["native.stdout"] = r.out
        if sig is not None or r.sig == 6:
            what = abort_class(r.errtext())
            ctx.violation("behaviour|%s" % what, "program %s: the runtime aborted (%s) on a run the model completes" % (name, what), files)
            continue
        d = engines.first_diff(r.text(), exp["stdout"])

        def still(p2, e2, _name=name):
            d2 = sc.sub("red/" + _name)
            shutil.rmtree(d2, ignore_errors=True)
            engines.write_files(d2, p2.files())
            nr2, b2 = engines.build_native(asan, d2, san=True)
            if not b2:
                return False
            r2 = engines.run_native(d2, san=True)
            return not r2.timeout and (r2.text() != e2["stdout"] or r2.status != e2["exit"])
        if name.startswith("g"):
            ksig, small = sweep.reduced_key(prog, still)
            files.update({"reduced/" + k: v for k, v in small.files().items()})
        else:
            ksig = ",".join(sorted(prog.tags))
        ctx.violation("behaviour|native!=model|" + ksig,
                      "program %s: no sanitizer report, but stdout/exit differ from the reference model: %s (exit %s, model %s)"
                      % (name, "line %d native=%r model=%r" % d if d else "stdout equal", r.status, exp["exit"]), files)
    cov["programs"] = len(progs)
    cov["program_outcomes"] = hist
    cov["program_output_lines_compared"] = lines
    cov["builtins_used_by_clean_programs"] = dict(sorted(builtins.items(), key=lambda kv: -kv[1]))
    cov["program_feature_histogram"] = sweep.feature_histogram([(0, p, 0) for _, p, _ in progs])
    cov["ownership_scores"] = {"min": min(ownership_score(p) for _, p, _ in progs), "max": max(ownership_score(p) for _, p, _ in progs)}
    return hist, fsets, samples


def run_census(ctx, sc, asan, cov):
    """every census cell (one per language feature, including constructs the sweep keeps switched off) under the
    sanitizers.  Only sanitizer reports count here: what a cell prints is the business of C02."""
    cells = list(sweep.census_cells())

    def do(c):
        name, text, exp = c
        d = sc.sub("census/" + name)
        engines.write_files(d, census.files(name))
        nr, built = engines.build_native(asan, d, san=True)
        r = engines.run_native(d, san=True) if built else None
        return c, nr, built, r

    out = {}
    for (name, text, exp), nr, built, r in pmap(do, cells):
        cls, detail, sig = program_verdict(nr, built, r)
        if cls == "san":
            out[name] = "sanitizer-report"
            ctx.violation(san_key(sig), "census cell %s: sanitizer report %s in %s\n%s" % (name, sig[0], ",".join(sig[1]), detail[:1500]),
                          {"main.nano": text, "native.stderr": r.err, "native.stdout": r.out})
        elif cls == "ran":
            out[name] = "clean" if sig is None else "clean(abort)"
        else:
            out[name] = cls
    cov["census_sanitizer"] = out
    return sum(1 for v in out.values() if v.startswith("clean"))


def run_directed_programs(ctx, sc, asan, cov):
    out = {}
    for name, (text, exp_out, exp_exit) in sorted(DIRECTED_PROGRAMS.items()):
        d = sc.sub("directed/" + name)
        engines.write_files(d, {"main.nano": text})
        nr, built = engines.build_native(asan, d, san=True)
        r = engines.run_native(d, san=True) if built else None
        cls, detail, sig = program_verdict(nr, built, r)
        files = {"main.nano": text, "reference.stdout": exp_out}
        if cls == "san":
            out[name] = "sanitizer-report"
            files["native.stderr"] = r.err
            ctx.violation(san_key(sig), "directed program %s: sanitizer report %s in %s\n%s" % (name, sig[0], ",".join(sig[1]), detail[:1500]), files)
        elif cls == "ran":
            if r.text() == exp_out and r.status == exp_exit:
                out[name] = "clean+equal"
            else:
                out[name] = "behaviour-differs"
                files["native.stdout"] = r.out
                files["native.stderr"] = r.err
                ctx.violation("behaviour|directed|" + name, "directed program %s: stdout %r exit %s, documented %r exit %s"
                              % (name, r.text()[:80], r.status, exp_out, exp_exit), files)
        else:
            out[name] = cls
    cov["directed_programs"] = out
