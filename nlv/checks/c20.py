"""C20 - native programs and their C runtime are memory-safe (DESIGN §4 C20).

E: (1) an AddressSanitizer / UndefinedBehaviorSanitizer report (full UBSan: signed overflow and shifts included) from a
       native executable on a run inside the language's defined behaviour;
   (2) a history of runtime operations (dyn_array of every element kind, list_int, list_string, gc retain/release,
       nl_string) whose observed results differ from the abstract list / reference-count / byte-string model, or that
       makes a sanitizer report.
O: (1) `nanoc` of the asan flavor with NANO_CC=fastcc (NLV_FASTCC_SAN=1): generated C *and* runtime sources are compiled
       with -fsanitize=address,undefined -fno-sanitize-recover=all; stderr is scanned for reports; stdout and the exit
       status must still equal the reference model (a "fix" that silences a report by changing behaviour is caught).
   (2) probes/rt_hist_probe.c, built through the same fastcc command line nanoc uses for a program (so it links the
       very runtime objects programs link, and carries the `static` helpers nanoc emits into every program), executes
       seeded histories and logs (op, args, result, state) per step; the models in this file predict every record.
W: generator profile "ownership" + hand-written templates + the census cells (sanitizer only) for (1); seeded histories
   biased to capacity boundaries for (2); a few *directed* histories/programs reproduce each known defect (so that it
   is reported by its key) while the random workload stays clear of them and keeps exploring.
"""
import hashlib
import os
import random
import re
import shlex
import shutil
import struct

from .. import build, engines, sweep, census, core
from ..gen import gen, ast as A, ref
from ..run import run as sh, pmap, Scratch

LEVEL = "exploration"

I64_MAX = (1 << 63) - 1
I64_MIN = -(1 << 63)

# ======================================================================================================================
# sanitizer reports
# ======================================================================================================================

FRAME_RE = re.compile(r"^\s*#(\d+) 0x[0-9a-f]+ (?:in )?(\S+)(?: (\S+))?", re.M)
ASAN_KIND_RE = re.compile(r"ERROR: AddressSanitizer: ([A-Za-z0-9_-]+(?: [a-z-]+)*?)(?: on | \(|:|$)", re.M)
UBSAN_RE = re.compile(r"runtime error: (.*)")
ASSERT_RE = re.compile(r"(\S+): (\S+?):(\d+): (\w+): Assertion [`'](.*?)' failed")

SKIP_FUNC = re.compile(r"^(__interceptor_|__asan|__ubsan|__sanitizer|_start$|__libc_|__GI_|__assert|abort$|raise$|"
                       r"__pthread|gsignal$|memcpy$|memmove$|strlen$|strdup$|free$|malloc$|realloc$|calloc$|printf_common)")


def ubsan_class(msg):
    """seed independent class of a UBSan message (numbers and addresses removed)"""
    m = msg.strip()
    m = re.sub(r"0x[0-9a-f]+", "ADDR", m)
    m = re.sub(r"-?\d+", "N", m)
    m = re.sub(r"type '[^']*'", "type T", m)
    return m[:70]


def normalise_func(name):
    name = re.sub(r"^nl_f\d+b?$", "nl_fN", name)        # generated function names are seed dependent
    name = re.sub(r"^(\w+?)__f\d+b?$", r"\1__fN", name)  # ... also those of an imported module (m1__f2)
    return name


def report_signature(errtext):
    """(kind, [innermost three in-program / in-runtime function names]) of the first sanitizer report, or None.
    An `AddressSanitizer: ABRT` report is the runtime's own abort() (assert / explicit check) seen through
    handle_abort=1: it is returned with kind 'ABRT' so that callers can treat it as a defined failure."""
    m_ub = UBSAN_RE.search(errtext)
    m_as = ASAN_KIND_RE.search(errtext)
    if not m_ub and not m_as and "AddressSanitizer" not in errtext:
        return None
    if m_ub and (not m_as or m_ub.start() < m_as.start()):
        kind = "ubsan:" + ubsan_class(m_ub.group(1))
        start = m_ub.start()
    elif m_as:
        kind = m_as.group(1).strip()
        start = m_as.start()
    else:
        kind = "asan:other"
        start = errtext.find("AddressSanitizer")
    frames = []
    probe_frames = []
    seen_first = False
    for fm in FRAME_RE.finditer(errtext, start):
        idx = int(fm.group(1))
        if idx == 0 and seen_first:
            break                       # the next stack (allocation / free site) starts
        seen_first = True
        fn = fm.group(2)
        if SKIP_FUNC.search(fn) or fn in ("main", "nlv_prelude_main"):
            continue
        if fn.startswith("hp_"):
            probe_frames.append("probe:" + fn)     # the probe touched what the runtime handed out
            continue
        frames.append(normalise_func(fn))
        if len(frames) == 3:
            break
    return kind, frames or probe_frames[:2]


def san_key(sig):
    return "san|%s|%s" % (sig[0], ",".join(sig[1]) or "?")


def abort_class(errtext):
    """what made the process abort: the failed assertion (function: expression) or 'abort'"""
    m = ASSERT_RE.search(errtext)
    if m:
        expr = re.sub(r"\s+", " ", m.group(5))
        msg = re.search(r'&& "([^"]*)"', expr)
        return "assert:%s:%s" % (m.group(4), (msg.group(1) if msg else expr)[:50])
    return "abort"


# ======================================================================================================================
# part 1: programs
# ======================================================================================================================

# The clean zone of the native engine.  Switches bound to defects of the VM only are turned on (C20 never runs the VM).
OWN_FEATURES = {"for_continue": True, "logic_effect": True, "min_builtin": True}

OWNERSHIP_TAGS = {
    "return.early": 3, "string.loop": 2, "param.array": 3, "return.array": 3, "struct.arrayfield": 3,
    "union.construct": 2, "union.match_stmt": 2, "union.match_expr": 1, "param.union": 2, "set": 1,
    "recursion.strrep": 3, "let.mut_array": 2, "array.push": 2, "array.set_guarded": 1, "array.read_guarded": 1,
    "array.literal.string": 2, "return.struct": 2, "param.struct": 2, "struct.literal": 1, "string.concat": 1,
    "string.substring": 1, "let.array": 1, "let.struct": 1, "let.union": 1, "global.set": 1, "struct.nested": 1,
}


def ownership_score(prog):
    return sum(w for t, w in OWNERSHIP_TAGS.items() if t in prog.tags)


class Interp20(ref.Interp):
    """the reference evaluator plus array_slice (docs/STDLIB.md: sub-array of `length` elements from `start`); only the
    documented domain (0 <= start, 0 <= length, start <= len; an over-long length ends at the end of the array)"""

    def builtin(self, name, a):
        if name == "array_slice":
            self.builtins_used.add(name)
            arr, st, ln = a
            if st < 0 or ln < 0 or st > len(arr):
                raise ref.Fault("slice-domain")
            return list(arr[st:st + ln])
        return ref.Interp.builtin(self, name, a)


def evaluate20(prog, max_steps=3000000):
    """gen.evaluate with Interp20 (main only; templates have trivial shadow blocks)"""
    try:
        it = Interp20(prog, max_steps=max_steps)
        out, code, fault = it.run_main()
    except (ref.Budget, RecursionError):
        return None
    if fault is not None or it.overflowed:
        return None
    return {"stdout": out, "exit": code, "steps": it.steps, "builtins": sorted(it.builtins_used)}


# ---- hand-written templates (shapes the random generator rarely makes) ----------------------------------------------
def V(n):
    return ("var", n)


def I(n):
    return ("int", n)


def S(s):
    return ("str", s)


def C(f, *a):
    return ("call", f, list(a))


def B(op, a, b):
    return ("bin", op, a, b)


def cat(*xs):
    e = xs[0]
    for x in xs[1:]:
        e = ("bin", "+", e, x)
    return e


def P(label, e, t="string"):
    """labelled print statement(s)"""
    if t == "string":
        return [("print", cat(S(label + ":"), e), True)]
    return [("print", S(label + ":"), False), ("print", e, True)]


TRUE_SHADOW = [("assert", ("bool", True))]
AS = ("array", "string")
AI = ("array", "int")
BOUNDARY_N = [0, 1, 2, 7, 8, 9, 15, 16, 17, 31, 32, 33, 63, 64, 65, 100, 129]


def _fn(name, params, ret, body):
    return A.Func(name, params, ret, body, shadow=list(TRUE_SHADOW))


def _while_count(c, n_expr, body):
    return [("let", c, "int", True, I(0)),
            ("while", B("<", V(c), n_expr), body + [("set", c, B("+", V(c), I(1)))])]


def _lib_strings(m):
    """mk / join / find / pass: arrays of strings built in loops, passed through calls and returned"""
    m.funcs.append(_fn("t1_mk", [("n", "int"), ("pre", "string")], AS,
                       [("let", "a", AS, True, ("arr", "string", []))] +
                       _while_count("i", V("n"), [("set", "a", C("array_push", V("a"), cat(V("pre"), C("int_to_string", V("i")))))]) +
                       [("return", V("a"))]))
    m.funcs.append(_fn("t1_join", [("a", AS), ("sep", "string")], "string",
                       [("let", "s", "string", True, S("")),
                        ("for", "i", I(0), C("array_length", V("a")), [("set", "s", cat(V("s"), C("at", V("a"), V("i")), V("sep")))]),
                        ("return", V("s"))]))
    # early return out of a for inside an if inside a for, with owned locals alive in every scope
    m.funcs.append(_fn("t1_find", [("a", AS), ("key", "string")], "int",
                       [("let", "outer", "string", False, cat(V("key"), S("#"))),
                        ("for", "i", I(0), C("array_length", V("a")),
                         [("let", "cur", "string", False, cat(S(""), C("at", V("a"), V("i")))),
                          ("if", B("==", V("cur"), V("key")),
                           [("let", "tmp", AS, False, ("arr", "string", [cat(V("cur"), S("!")), cat(V("outer"), V("cur"))])),
                            ("for", "j", I(0), I(3),
                             [("let", "deep", "string", False, cat(C("at", V("tmp"), I(0)), C("int_to_string", V("j")))),
                              ("if", B("==", V("j"), I(1)), [("return", V("i"))], None)])], None)]),
                        ("return", I(-1))]))
    m.funcs.append(_fn("t1_pass", [("a", AS)], AS, [("return", V("a"))]))


def tpl_strings_in_arrays(r):
    p = A.Program()
    m = p.main
    _lib_strings(m)
    n = r.choice(BOUNDARY_N[3:])
    pre = r.choice(["s", "item-", "", "long-prefix-0123456789-"])
    k = r.randrange(n)
    body = [("let", "a", AS, True, C("t1_mk", I(n), S(pre))),
            ("let", "b", AS, False, C("t1_pass", V("a")))]
    body += P("L1", C("array_length", V("b")), "int")
    body += P("L2", C("t1_join", V("b"), S(",")))
    body += P("L3", C("t1_find", V("a"), S(pre + str(k))), "int")
    body += P("L4", C("t1_find", V("a"), S("absent")), "int")
    body += [("expr", C("array_set", V("a"), I(k), cat(S("new"), C("int_to_string", I(k)))))]
    body += P("L5", C("at", V("a"), I(k)))
    body += P("L6", C("t1_join", C("t1_pass", C("t1_mk", I(r.choice([0, 1, 9])), S("z"))), S("")))
    # reassignment of an owned local in a loop
    body += _while_count("c", I(r.randint(2, 5)), [("set", "a", C("t1_mk", B("+", V("c"), I(r.choice([6, 7, 14]))), S("r")))] +
                         P("L7", C("at", V("a"), B("+", V("c"), I(1)))))
    body += P("L8", C("array_length", V("a")), "int")
    body.append(("return", I(0)))
    m.funcs.append(_fn("main", [], "int", body))
    p.tags = {"tpl.strings_in_arrays"}
    return p


def tpl_struct_arrays(r):
    p = A.Program()
    m = p.main
    m.structs.append(("TP", [("name", "string"), ("xs", AI), ("tags", AS), ("k", "int")]))
    TP = ("struct", "TP")
    m.funcs.append(_fn("t2_mk", [("n", "int"), ("nm", "string")], TP,
                       [("let", "xs", AI, True, ("arr", "int", [])),
                        ("let", "tg", AS, True, ("arr", "string", []))] +
                       _while_count("i", V("n"), [("set", "xs", C("array_push", V("xs"), B("*", V("i"), V("i")))),
                                                  ("set", "tg", C("array_push", V("tg"), cat(V("nm"), C("int_to_string", V("i")))))]) +
                       [("return", ("structlit", "TP", [("name", cat(S("<"), V("nm"), S(">"))), ("xs", V("xs")), ("tags", V("tg")), ("k", V("n"))]))]))
    m.funcs.append(_fn("t2_total", [("q", TP)], "int",
                       [("let", "s", "int", True, I(0)),
                        ("let", "v", AI, False, ("field", V("q"), "xs")),
                        ("for", "i", I(0), C("array_length", V("v")),
                         [("set", "s", B("+", V("s"), C("at", V("v"), V("i")))),
                          ("if", B(">", V("s"), I(5000)), [("return", V("s"))], None)]),
                        ("return", V("s"))]))
    m.funcs.append(_fn("t2_last_tag", [("q", TP)], "string",
                       [("let", "t", AS, False, ("field", V("q"), "tags")),
                        ("if", B("==", C("array_length", V("t")), I(0)), [("return", S("none"))], None),
                        ("return", C("at", V("t"), B("-", C("array_length", V("t")), I(1))))]))
    n = r.choice(BOUNDARY_N[2:12])
    body = [("let", "q", TP, True, C("t2_mk", I(n), S(r.choice(["a", "bb", "tag"]))))]
    body += P("L1", cat(S(""), ("field", V("q"), "name")))
    body += P("L2", C("t2_total", V("q")), "int")
    body += P("L3", C("t2_last_tag", V("q")))
    body += _while_count("c", I(r.randint(2, 4)), [("set", "q", C("t2_mk", B("+", V("c"), I(r.choice([0, 7, 8]))), S("r")))] +
                         P("L4", C("t2_last_tag", V("q"))) + P("L5", ("field", V("q"), "k"), "int"))
    body += P("L6", C("t2_total", C("t2_mk", I(r.choice([0, 1, 40])), S("x"))), "int")
    body.append(("return", I(0)))
    m.funcs.append(_fn("main", [], "int", body))
    p.tags = {"tpl.struct_arrays"}
    return p


def tpl_union_payload(r):
    p = A.Program()
    m = p.main
    m.unions.append(("TU", [("Txt", [("s", "string"), ("n", "int")]), ("Num", [("v", "int")]), ("Nil", [("z", "bool")])]))
    TU = ("union", "TU")
    # recursion returning a union whose payload string grows on the way back
    m.funcs.append(_fn("t3_build", [("n", "int")], TU,
                       [("if", B("<=", V("n"), I(0)), [("return", ("unionlit", "TU", "Nil", [("z", ("bool", True))]))], None),
                        ("let", "inner", TU, False, C("t3_build", B("-", V("n"), I(1)))),
                        ("let", "res", TU, True, ("unionlit", "TU", "Num", [("v", V("n"))])),
                        ("match", V("inner"),
                         [("Txt", "mt", [("set", "res", ("unionlit", "TU", "Txt", [("s", cat(("field", V("mt"), "s"), S("+"), C("int_to_string", V("n")))), ("n", B("+", ("field", V("mt"), "n"), I(1)))]))]),
                          ("Num", "mn", [("set", "res", ("unionlit", "TU", "Txt", [("s", cat(S("n"), C("int_to_string", ("field", V("mn"), "v")))), ("n", I(1))]))]),
                          ("Nil", "mz", [("set", "res", ("unionlit", "TU", "Num", [("v", V("n"))]))])]),
                        ("return", V("res"))]))
    m.funcs.append(_fn("t3_show", [("u", TU)], "string",
                       [("let", "o", "string", True, S("?")),
                        ("match", V("u"),
                         [("Txt", "a1", [("set", "o", cat(S("T:"), ("field", V("a1"), "s"), S("/"), C("int_to_string", ("field", V("a1"), "n"))))]),
                          ("Num", "a2", [("set", "o", cat(S("N:"), C("int_to_string", ("field", V("a2"), "v"))))]),
                          ("Nil", "a3", [("set", "o", S("nil"))])]),
                        ("return", V("o"))]))
    body = []
    for i, n in enumerate(sorted(r.sample(range(0, 14), 4))):
        body += P("L%d" % i, C("t3_show", C("t3_build", I(n))))
    body += [("let", "u", TU, True, C("t3_build", I(3)))]
    body += _while_count("c", I(r.randint(2, 5)), [("set", "u", C("t3_build", B("+", V("c"), I(2))))] + P("L9", C("t3_show", V("u"))))
    body.append(("return", I(0)))
    m.funcs.append(_fn("main", [], "int", body))
    p.tags = {"tpl.union_payload"}
    return p


def tpl_recursion_heap(r):
    p = A.Program()
    m = p.main
    m.funcs.append(_fn("t4_rep", [("s", "string"), ("n", "int")], "string",
                       [("if", B("<=", V("n"), I(0)), [("return", S(""))], None),
                        ("return", cat(V("s"), C("t4_rep", V("s"), B("-", V("n"), I(1)))))]))
    m.funcs.append(_fn("t4_ints", [("n", "int")], AI,
                       [("if", B("<=", V("n"), I(0)), [("let", "e", AI, False, ("arr", "int", [])), ("return", V("e"))], None),
                        ("let", "a", AI, True, C("t4_ints", B("-", V("n"), I(1)))),
                        ("set", "a", C("array_push", V("a"), B("*", V("n"), I(3)))),
                        ("return", V("a"))]))
    m.funcs.append(_fn("t4_strs", [("n", "int")], AS,
                       [("if", B("<=", V("n"), I(0)), [("let", "e", AS, False, ("arr", "string", [])), ("return", V("e"))], None),
                        ("let", "a", AS, True, C("t4_strs", B("-", V("n"), I(1)))),
                        ("set", "a", C("array_push", V("a"), C("t4_rep", S("ab"), V("n")))),
                        ("return", V("a"))]))
    n1 = r.choice([8, 9, 16, 17, 33])
    n2 = r.choice([7, 8, 9, 17])
    body = [("let", "xs", AI, False, C("t4_ints", I(n1))), ("let", "ss", AS, False, C("t4_strs", I(n2)))]
    body += P("L1", C("array_length", V("xs")), "int") + P("L2", C("at", V("xs"), I(n1 - 1)), "int")
    body += P("L3", C("at", V("ss"), I(n2 - 1))) + P("L4", C("str_length", C("t4_rep", S("xyz"), I(r.choice([0, 1, 50, 200])))), "int")
    # `at` directly on a call result is transpiled as an int access (a typing defect outside C20): bind it first
    body += [("let", "s3", AS, False, C("t4_strs", I(3)))] + P("L5", C("at", V("s3"), I(2)))
    body.append(("return", I(0)))
    m.funcs.append(_fn("main", [], "int", body))
    p.tags = {"tpl.recursion_heap"}
    return p


def tpl_array_ops(r):
    """push / pop / set / get / remove / slice at the growth boundaries through the language's builtins"""
    p = A.Program()
    m = p.main
    n = r.choice(BOUNDARY_N[3:13])
    body = [("let", "a", AI, True, ("arr", "int", []))]
    body += _while_count("i", I(n), [("set", "a", C("array_push", V("a"), B("-", B("*", V("i"), I(7)), I(3))))])
    body += P("L1", C("array_length", V("a")), "int")
    lab = [1]

    def pr(e, t="int"):
        lab[0] += 1
        return P("L%d" % lab[0], e, t)
    cur = n
    for _ in range(r.randint(6, 14)):
        k = r.random()
        if k < 0.25 and cur > 0:
            body += [("let", "v%d" % lab[0], "int", False, C("array_pop", V("a")))] + pr(V("v%d" % lab[0]))
            cur -= 1
        elif k < 0.45 and cur > 0:
            idx = r.choice([0, cur - 1, cur // 2])
            body += [("expr", C("array_remove_at", V("a"), I(idx)))]
            cur -= 1
            body += pr(C("array_length", V("a")))
        elif k < 0.6 and cur > 0:
            idx = r.choice([0, cur - 1, cur // 2])
            body += [("expr", C("array_set", V("a"), I(idx), I(r.randint(-99, 99))))] + pr(C("at", V("a"), I(idx)))
        elif k < 0.8:
            cnt = r.choice([1, 2, 8, 9])
            body += _while_count("j%d" % lab[0], I(cnt), [("set", "a", C("array_push", V("a"), I(r.randint(0, 9))))])
            cur += cnt
            body += pr(C("at", V("a"), I(cur - 1)))
        else:
            st = r.randint(0, cur)
            ln = r.choice([0, 1, cur - st, max(0, cur - st - 1), cur + 3])
            nm = "s%d" % lab[0]
            body += [("let", nm, AI, False, C("array_slice", V("a"), I(st), I(ln)))] + pr(C("array_length", V(nm)))
            eff = min(ln, cur - st)
            if eff > 0:
                body += pr(C("at", V(nm), I(eff - 1)))
    body += [("let", "z", AI, False, C("array_new", I(r.choice([0, 1, 8, 9, 20])), I(5)))] + pr(C("array_length", V("z")))
    if cur > 0:
        body += pr(C("at", V("a"), I(0))) + pr(C("at", V("a"), I(cur - 1)))
    body.append(("return", I(0)))
    m.funcs.append(_fn("main", [], "int", body))
    p.tags = {"tpl.array_ops"}
    return p


def tpl_string_growth(r):
    p = A.Program()
    m = p.main
    k = r.randint(3, 11)
    seed = r.choice(["ab", "x", "hello", "0123456"])
    body = [("let", "s", "string", True, S(seed))]
    body += _while_count("i", I(k), [("set", "s", cat(V("s"), V("s")))])
    n = len(seed) << k
    body += P("L1", C("str_length", V("s")), "int")
    body += P("L2", C("str_substring", V("s"), I(n - 3), I(3)))
    body += P("L3", C("str_substring", V("s"), I(n - 1), I(10)))
    body += P("L4", C("str_substring", V("s"), I(n), I(0)))
    body += P("L5", C("str_substring", V("s"), I(0), I(0)))
    body += P("L6", C("char_at", V("s"), I(n - 1)), "int")
    body += P("L7", C("str_length", C("str_substring", V("s"), I(1), I(1 << 40))), "int")
    body += [("let", "t", "string", True, S(""))]
    body += _while_count("j", I(r.choice([5, 30, 100])), [("set", "t", cat(V("t"), C("string_from_char", B("+", I(65), B("%", V("j"), I(26))))))])
    body += P("L8", V("t"))
    body += P("L9", C("str_contains", V("s"), C("str_substring", V("s"), I(1), I(4))), "bool")
    body.append(("return", I(r.choice([0, 0, 3]))))
    m.funcs.append(_fn("main", [], "int", body))
    p.tags = {"tpl.string_growth"}
    return p


class TextProgram:
    """a hand-written program given as text (constructs the generator's AST has no node for); quacks like ast.Program"""

    def __init__(self, text, tags):
        self.text = text
        self.tags = set(tags)

    def files(self, printer=None):
        return {"main.nano": self.text}


def tpl_hashmap(r):
    """HashMap<K,V> through the language: put / get / has / remove / size / clear / keys / values / free, mirrored in a dict.
    What get / keys / values return is consumed at once (holding it across a later put / remove is a known defect, see
    DIRECTED_PROGRAMS).  Returns (TextProgram, expected)."""
    out = []
    src = []
    lab = [0]
    kinds = r.sample(["ss", "si", "is", "ii"], r.randint(2, 3))
    words = ["alpha", "beta", "gamma", "k", "key7", "zz", "a", "b", "Q9", "longer_key_0123456789", ""]

    def lit(v):
        return '"%s"' % v if isinstance(v, str) else str(v)

    for t in kinds:
        KT = "string" if t[0] == "s" else "int"
        VT = "string" if t[1] == "s" else "int"
        body = ["    let m: HashMap<%s, %s> = (map_new)" % (KT, VT)]
        d = {}

        def newlab():
            lab[0] += 1
            return "H%d" % lab[0]

        def show(expr_text, value, vt):
            L = newlab()
            if vt == "string":
                body.append('    (println (+ "%s:" %s))' % (L, expr_text))
                out.append("%s:%s\n" % (L, value))
            else:
                body.append('    (print "%s:")' % L)
                body.append("    (println %s)" % expr_text)
                out.append("%s:%s\n" % (L, ("true" if value else "false") if isinstance(value, bool) else value))

        def rkey(present=False):
            if present and d and r.random() < 0.8:
                return r.choice(list(d))
            return r.choice(words) if KT == "string" else r.choice([0, 1, -1, 7, 16, 32, 48, 1000, -50, 3])

        def rval():
            return r.choice(["one", "two", "", "v", "a longer value 0123456789"]) if VT == "string" else r.randint(-99, 99)

        def size_line():
            show("(map_size m)", len(d), "int")

        def keys_line():
            n = lab[0]
            if r.random() < 0.5:
                body.append("    let ks%d: array<%s> = (map_keys m)" % (n, KT))
                body.append("    let mut acc%d: int = 0" % n)
                body.append("    for i%d in (range 0 (array_length ks%d)) {" % (n, n))
                body.append("        set acc%d (+ acc%d %s)" % (n, n, ("(str_length (at ks%d i%d))" if KT == "string" else "(at ks%d i%d)") % (n, n)))
                body.append("    }")
                show("acc%d" % n, sum(len(k) if KT == "string" else k for k in d), "int")
            else:
                body.append("    let vs%d: array<%s> = (map_values m)" % (n, VT))
                show("(array_length vs%d)" % n, len(d), "int")

        # a loop that carries the table across one or two growth boundaries, then removes every third key
        n_loop = r.choice([5, 12, 13, 23, 24, 46, 100])
        c = "c%d" % lab[0]
        body.append("    let mut %s: int = 0" % c)
        body.append("    while (< %s %d) {" % (c, n_loop))
        kexpr = '(+ "k" (int_to_string %s))' % c if KT == "string" else "(* %s 3)" % c
        vexpr = '(+ "v" (int_to_string (* %s %s)))' % (c, c) if VT == "string" else "(- %s 7)" % c
        body.append("        (map_put m %s %s)" % (kexpr, vexpr))
        body.append("        set %s (+ %s 1)" % (c, c))
        body.append("    }")
        for i in range(n_loop):
            d[("k%d" % i) if KT == "string" else i * 3] = ("v%d" % (i * i)) if VT == "string" else i - 7
        size_line()
        body.append("    set %s 0" % c)
        body.append("    while (< %s %d) {" % (c, n_loop))
        body.append("        (map_remove m %s)" % kexpr)
        body.append("        set %s (+ %s 3)" % (c, c))
        body.append("    }")
        for i in range(0, n_loop, 3):
            d.pop(("k%d" % i) if KT == "string" else i * 3, None)
        size_line()
        for _ in range(r.randint(10, 30)):
            k = r.random()
            if k < 0.3:
                key, v = rkey(r.random() < 0.3), rval()
                d[key] = v
                body.append("    (map_put m %s %s)" % (lit(key), lit(v)))
            elif k < 0.5:
                key = rkey(True)
                show("(map_get m %s)" % lit(key), d.get(key, "" if VT == "string" else 0), VT)
            elif k < 0.6:
                key = rkey(r.random() < 0.5)
                show("(map_has m %s)" % lit(key), key in d, "bool")
            elif k < 0.78:
                key = rkey(True)
                d.pop(key, None)
                body.append("    (map_remove m %s)" % lit(key))
            elif k < 0.86:
                size_line()
            elif k < 0.92:
                keys_line()
            else:
                d.clear()
                body.append("    (map_clear m)")
                if r.random() < 0.7:
                    key, v = rkey(), rval()
                    d[key] = v
                    body.append("    (map_put m %s %s)" % (lit(key), lit(v)))
        size_line()
        if r.random() < 0.8:
            body.append("    (map_free m)")
        body.append("    return 0")
        src.append("fn t7_%s() -> int {\n%s\n}\nshadow t7_%s { assert true }\n" % (t, "\n".join(body), t))
    main = ["fn main() -> int {"]
    for t in kinds:
        main.append("    let r_%s: int = (t7_%s)" % (t, t))
    main.append('    (println "hashmaps done")')
    main.append("    return 0\n}\nshadow main { assert true }\n")
    out.append("hashmaps done\n")
    text = "".join(src) + "\n".join(main)
    exp = {"stdout": "".join(out), "exit": 0, "steps": 0, "builtins": ["map_new", "map_put", "map_get", "map_has", "map_remove", "map_size", "map_clear",
                                                                         "map_keys", "map_values", "map_free"]}
    return TextProgram(text, {"tpl.hashmap"} | {"hashmap." + t for t in kinds}), exp


def tpl_alias_push(r, flags=None):
    """(array_push a (at a i)) / (array_set a j (at a i)): the source is an element of the destination, at the lengths
    where the store has to grow (8, 16, 32) and next to them; string, nested-array and struct elements.  Struct elements
    at length == capacity are generated only when the directed program for that open finding runs clean."""
    flags = flags or {}
    p = A.Program()
    m = p.main
    m.structs.append(("TQ", [("x", "int"), ("name", "string")]))
    TQ = ("struct", "TQ")
    AQ = ("array", TQ)
    AA = ("array", AI)
    body = []
    lab = [0]

    def pr(e, t="int"):
        lab[0] += 1
        return P("A%d" % lab[0], e, t)
    for kind in r.sample(["string", "nested", "struct", "struct"], 3):
        n = r.choice([8, 16, 32]) + r.choice([0, 0, 0, -1, 1])
        if kind == "struct" and not flags.get("alias_grow_prog"):
            n = r.choice([9, 10, 17, 3, 20, 33])       # none of the three aliasing pushes (at n, n+1, n+2) finds the store full
        v = "a%d" % lab[0]
        lab[0] += 1
        i = r.choice([0, n - 1, n // 2])
        if kind == "string":
            body += [("let", v, AS, True, ("arr", "string", []))]
            body += _while_count("c" + v, I(n), [("set", v, C("array_push", V(v), cat(S("s"), C("int_to_string", V("c" + v)))))])
            body += [("set", v, C("array_push", V(v), C("at", V(v), I(i))))]
            body += pr(C("at", V(v), I(n)), "string") + pr(C("array_length", V(v)))
            body += [("expr", C("array_set", V(v), I(0), C("at", V(v), I(n))))] + pr(C("at", V(v), I(0)), "string")
            body += [("expr", C("array_set", V(v), I(1), C("at", V(v), I(1))))] + pr(C("at", V(v), I(1)), "string")
        elif kind == "nested":
            body += [("let", v, AA, True, ("arr", AI, []))]
            body += _while_count("c" + v, I(n), [("set", v, C("array_push", V(v), ("arr", "int", [V("c" + v), I(7)])))])
            body += [("set", v, C("array_push", V(v), C("at", V(v), I(i))))]
            body += [("let", "l" + v, AI, False, C("at", V(v), I(n)))] + pr(C("at", V("l" + v), I(0))) + pr(C("array_length", V(v)))
        else:
            body += [("let", v, AQ, True, ("arr", TQ, []))]
            body += _while_count("c" + v, I(n), [("set", v, C("array_push", V(v), ("structlit", "TQ", [("x", B("*", V("c" + v), I(3))), ("name", cat(S("q"), C("int_to_string", V("c" + v))))])))])
            body += [("set", v, C("array_push", V(v), C("at", V(v), I(i))))]
            body += [("let", "e" + v, TQ, False, C("at", V(v), I(n)))] + pr(("field", V("e" + v), "x")) + pr(cat(S(""), ("field", V("e" + v), "name")), "string")
            body += [("expr", C("array_set", V(v), I(0), C("at", V(v), I(n - 1))))]
            body += [("expr", C("array_set", V(v), I(1), C("at", V(v), I(1))))]
            body += [("let", "f" + v, TQ, False, C("at", V(v), I(0)))] + pr(("field", V("f" + v), "x")) + pr(C("array_length", V(v)))
            # a second and third aliasing push right after the growth
            body += [("set", v, C("array_push", V(v), C("at", V(v), I(n)))), ("set", v, C("array_push", V(v), C("at", V(v), I(1))))]
            body += [("let", "g" + v, TQ, False, C("at", V(v), I(n + 2)))] + pr(cat(S(""), ("field", V("g" + v), "name")), "string")
    body.append(("return", I(0)))
    m.funcs.append(_fn("main", [], "int", body))
    p.tags = {"tpl.alias_push"}
    return p


def tpl_to_string(r, flags=None):
    """to_string of arrays and of a struct whose rendered text ends at / next to the formatter's capacities (256, 512):
    every append boundary of `[d, d, ...]` is swept by the element count, the struct's by the length of a string field.
    Text program; the expected output is computed alongside."""
    out = []
    body = []
    lab = [0]

    def line(text):
        out.append(text + "\n")

    decl = "struct TR { name: string, id: int, ok: bool }\n"
    # arrays of one-digit ints: n elements render to 3n bytes; appends end at every offset 3k+1 / 3k+2 on the way
    for n in sorted(r.sample(range(80, 101), 3) + r.sample(range(165, 181), 2)):
        lab[0] += 1
        v = "a%d" % lab[0]
        d = r.randint(0, 9)
        body.append("    let mut %s: array<int> = []" % v)
        body.append("    let mut c%s: int = 0" % v)
        body.append("    while (< c%s %d) {" % (v, n))
        body.append("        set %s (array_push %s (%% (+ c%s %d) 10))" % (v, v, v, d))
        body.append("        set c%s (+ c%s 1)" % (v, v))
        body.append("    }")
        body.append('    (println (+ "T%d:" (to_string %s)))' % (lab[0], v))
        line("T%d:[%s]" % (lab[0], ", ".join(str((i + d) % 10) for i in range(n))))
    # an array of strings whose single long element puts the closing quote / bracket on the boundary
    for total in r.sample([255, 256, 257, 258, 259, 511, 512, 513, 514], 3):
        lab[0] += 1
        v = "s%d" % lab[0]
        k = total - 4
        body.append('    let mut w%s: string = ""' % v)
        body.append("    let mut c%s: int = 0" % v)
        body.append("    while (< c%s %d) {" % (v, k))
        body.append('        set w%s (+ w%s "x")' % (v, v))
        body.append("        set c%s (+ c%s 1)" % (v, v))
        body.append("    }")
        body.append("    let %s: array<string> = [w%s]" % (v, v))
        body.append("    let t%s: string = (to_string %s)" % (v, v))
        body.append('    (print "T%d:")' % lab[0])
        body.append("    (println (str_length t%s))" % v)
        body.append('    (println (+ "T%db:" (str_substring t%s %d 9)))' % (lab[0], v, total - 5))
        line("T%d:%d" % (lab[0], total))
        line('T%db:xxx"]' % lab[0])
    # struct: "TR { name: " (11) + k + ", id: 7, ok: true }" (19)
    for k in r.sample(range(222, 242), 4) + r.sample(range(478, 498), 2):
        lab[0] += 1
        v = "r%d" % lab[0]
        body.append('    let mut n%s: string = ""' % v)
        body.append("    let mut c%s: int = 0" % v)
        body.append("    while (< c%s %d) {" % (v, k))
        body.append('        set n%s (+ n%s "y")' % (v, v))
        body.append("        set c%s (+ c%s 1)" % (v, v))
        body.append("    }")
        body.append("    let %s: TR = TR { name: n%s, id: 7, ok: true }" % (v, v))
        body.append("    let t%s: string = (to_string %s)" % (v, v))
        body.append('    (print "T%d:")' % lab[0])
        body.append("    (println (str_length t%s))" % v)
        body.append('    (println (+ "T%db:" (str_substring t%s %d 30)))' % (lab[0], v, 11 + k - 2))
        line("T%d:%d" % (lab[0], 30 + k))
        line("T%db:yy, id: 7, ok: true }" % lab[0])
    text = decl + "fn main() -> int {\n" + "\n".join(body) + "\n    return 0\n}\nshadow main { assert true }\n"
    exp = {"stdout": "".join(out), "exit": 0, "steps": 0, "builtins": ["to_string", "array_push", "str_length", "str_substring"]}
    return TextProgram(text, {"tpl.to_string"}), exp


TEMPLATES = [tpl_strings_in_arrays, tpl_struct_arrays, tpl_union_payload, tpl_recursion_heap, tpl_array_ops, tpl_string_growth,
             tpl_hashmap, tpl_hashmap, tpl_alias_push, tpl_alias_push, tpl_to_string]


def make_template(args):
    idx, seed, flags = args
    r = random.Random(seed)
    fn = TEMPLATES[idx % len(TEMPLATES)]
    try:
        prog = fn(r, flags) if fn in (tpl_alias_push, tpl_to_string) else fn(r)
        if isinstance(prog, tuple):
            return prog                  # text templates come with their expected output
        exp = evaluate20(prog)
    except (KeyError, TypeError, IndexError, ValueError):
        return None
    if exp is None:
        return None
    return prog, exp


# directed programs: each reproduces one known defect inside the documented behaviour (text, expected stdout, expected exit)
DIRECTED_PROGRAMS = {
    "substring_len_max": ('fn main() -> int {\n    (println (str_substring "hello" 1 9223372036854775807))\n    (println "end")\n    return 0\n}\nshadow main { assert true }\n',
                          "ello\nend\n", 0),
    # pushing an element of an array of structs onto the same array when it is full (8 elements)
    "array_push_own_struct_at_capacity": (
        'struct P { x: int, y: int }\nfn main() -> int {\n    let mut a: array<P> = []\n    let mut i: int = 0\n    while (< i 8) {\n'
        '        set a (array_push a P { x: i, y: (* i 2) })\n        set i (+ i 1)\n    }\n    set a (array_push a (at a 3))\n    let e: P = (at a 8)\n'
        '    (println e.y)\n    (println (array_length a))\n    return 0\n}\nshadow main { assert true }\n', "6\n9\n", 0),
    # strings are values: what map_get returned must survive a later put of the same key
    "map_get_then_put": ('fn main() -> int {\n    let m: HashMap<string, string> = (map_new)\n    (map_put m "a" "one")\n    let v: string = (map_get m "a")\n'
                         '    (map_put m "a" "two")\n    (println v)\n    (println (map_get m "a"))\n    return 0\n}\nshadow main { assert true }\n', "one\ntwo\n", 0),
    # ... and the array map_keys returned must survive a later remove
    "map_keys_then_remove": ('fn main() -> int {\n    let m: HashMap<string, int> = (map_new)\n    (map_put m "a" 1)\n    let ks: array<string> = (map_keys m)\n'
                             '    (map_remove m "a")\n    (println (at ks 0))\n    (println (map_size m))\n    return 0\n}\nshadow main { assert true }\n', "a\n0\n", 0),
}


def order_sensitive(prog):
    """True when some operator / argument list has one operand with a visible effect (it prints, writes a mutable global
    or calls through a function value - directly or in a function it calls) and another operand that has one too or reads
    a mutable global.  C leaves the order of evaluation of operands unspecified (the native engine's evaluation-order
    cells belong to C02); the generator keeps such operand lists apart except in its `(/ e (+ (abs g) 1))` shape, so this
    filter drops only a few programs."""
    mut = set()
    for m in list(prog.modules) + [prog.main]:
        for n, t, is_mut, e in m.globals:
            if is_mut:
                mut.add(n)
    funcs = {f.name: f for f in prog.all_funcs()}

    def nodes(x):
        stack = [x]
        while stack:
            y = stack.pop()
            if isinstance(y, list):
                stack.extend(y)
                continue
            if not isinstance(y, tuple) or not y:
                continue
            if not isinstance(y[0], str):
                stack.extend(z for z in y if isinstance(z, (tuple, list)))
                continue
            yield y
            stack.extend(z for z in y[1:] if isinstance(z, (tuple, list)))

    # per function: writes (prints / sets a mutable global / calls through a value), reads a mutable global, callees
    info = {}
    for name, f in funcs.items():
        w = r = False
        callees = set()
        for y in nodes(f.body):
            k = y[0]
            if k == "print" or (k == "set" and y[1] in mut) or k == "callv":
                w = True
            elif k == "var" and y[1] in mut:
                r = True
            elif k == "call":
                if y[1] in funcs:
                    callees.add(y[1])
                elif y[1] not in gen.BUILTIN_NAMES:
                    w = True            # a function-typed variable or parameter
        info[name] = [w, r, callees]
    changed = True
    while changed:
        changed = False
        for name, (w, r, callees) in info.items():
            for c in callees:
                if info[c][0] and not info[name][0]:
                    info[name][0] = True
                    changed = True
                if info[c][1] and not info[name][1]:
                    info[name][1] = True
                    changed = True

    def flags(x):
        eff = rd = False
        for y in nodes(x):
            k = y[0]
            if k == "var" and y[1] in mut:
                rd = True
            elif k == "callv":
                eff = True
            elif k == "call":
                if y[1] in funcs:
                    eff = eff or info[y[1]][0]
                    rd = rd or info[y[1]][1]
                elif y[1] not in gen.BUILTIN_NAMES:
                    eff = True
        return eff, rd

    def clash(operands):
        fl = [flags(o) for o in operands]
        for i, (e, _) in enumerate(fl):
            if e and any(j != i and (e2 or r2) for j, (e2, r2) in enumerate(fl)):
                return True
        return False

    for f in funcs.values():
        for x in nodes(f.body):
            k = x[0]
            ops = None
            if k == "bin" and x[1] not in ("and", "or"):
                ops = [x[2], x[3]]
            elif k == "call":
                ops = list(x[2])
            elif k == "callv":
                ops = [x[1]] + list(x[2])
            elif k == "arr":
                ops = list(x[2])
            elif k == "tuple":
                ops = list(x[1])
            elif k == "structlit":
                ops = [v for _, v in x[2]]
            elif k == "unionlit":
                ops = [v for _, v in x[3]]
            if ops is not None and len(ops) >= 2 and clash(ops):
                return True
    return False


def _gen_own(args):
    seed, size = args
    prog, exp = gen.make_program(random.Random(seed), OWN_FEATURES, size)
    if prog is None:
        return None
    if order_sensitive(prog):
        return None
    try:
        prog.files()
    except (TypeError, ValueError, KeyError, IndexError):
        # the generator left a hole (None) in code the model never executes: the program cannot be printed
        return None
    return prog, exp


def gen_programs(ctx, n_random, n_templates, flags=None):
    """[(name, Program, expected)]: the `n_random` highest ownership scores out of 1.5*n_random generated programs, plus
    `n_templates` instances of the hand-written templates.  Deterministic in (seed, index)."""
    import concurrent.futures as cf
    cand = [(ctx.rng("own", i).getrandbits(64), ctx.rng("own-size", i).choice([0.8, 1.0, 1.3, 1.6])) for i in range(n_random + n_random // 2)]
    tpl = [(i, ctx.rng("tpl", i).getrandbits(64), flags or {}) for i in range(n_templates)]
    out = []
    with cf.ProcessPoolExecutor(max_workers=min(16, os.cpu_count() or 4)) as ex:
        gens = list(ex.map(_gen_own, cand, chunksize=4))
        tpls = list(ex.map(make_template, tpl, chunksize=4))
    scored = [(ownership_score(g[0]), i, g) for i, g in enumerate(gens) if g is not None]
    scored.sort(key=lambda x: (-x[0], x[1]))
    n_generated = len(scored)
    for sc_, i, (prog, exp) in sorted(scored[:n_random], key=lambda x: x[1]):
        out.append(("g%05d" % i, prog, exp))
    for (i, _, _f), t in zip(tpl, tpls):
        if t is not None:
            out.append(("t%05d" % i, t[0], t[1]))
    return out, n_generated


def program_verdict(nanoc_r, built, r):
    """classify one native run: (class, detail, signature|None)"""
    if not built:
        if nanoc_r.sanitizer_report():
            return "skip:nanoc-sanitizer", None, None
        return "skip:native-build-failed:" + engines.classify_nanoc_failure(nanoc_r), None, None
    if r.timeout:
        return "inconclusive:watchdog", None, None
    sig = report_signature(r.errtext())
    if sig is not None and sig[0] != "ABRT":
        return "san", r.sanitizer_report() or r.errtext()[-3000:], sig
    if r.cpu_exceeded:
        return "inconclusive:cpu", None, None
    return "ran", None, sig


def run_programs(ctx, sc, asan, progs, cov):
    def do(item):
        name, prog, exp = item
        d = sc.sub("prog/" + name)
        engines.write_files(d, prog.files())
        nr, built = engines.build_native(asan, d, san=True)
        r = engines.run_native(d, san=True) if built else None
        if r is not None and r.timeout:
            r = engines.run_native(d, san=True)          # re-run once before believing a hang
        shutil.rmtree(d, ignore_errors=True)             # a sanitized binary is ~3 MB; the sources are kept in memory
        return item, nr, built, r

    hist = {}
    fsets = set()
    builtins = {}
    samples = []
    lines = 0
    for (name, prog, exp), nr, built, r in pmap(do, progs):
        cls, detail, sig = program_verdict(nr, built, r)
        files = {"original/" + k: v for k, v in prog.files().items()}
        files["cmd.txt"] = ("cd original && NANO_CC=/verif/tools/fastcc NLV_FASTCC_ROOT=<asan flavor root> NLV_FASTCC_SAN=1 "
                            "nanoc main.nano -o main.bin && ./main.bin\n")
        files["reference.stdout"] = exp["stdout"]
        if cls == "san":
            hist["sanitizer-report"] = hist.get("sanitizer-report", 0) + 1
            files["native.stderr"] = r.err
            files["native.stdout"] = r.out
            ctx.violation(san_key(sig), "program %s: sanitizer report %s in %s\n%s" % (name, sig[0], ",".join(sig[1]), detail[:1500]), files)
            continue
        if cls != "ran":
            hist[cls] = hist.get(cls, 0) + 1
            continue
        if r.text() == exp["stdout"] and r.status == exp["exit"]:
            hist["clean+equal"] = hist.get("clean+equal", 0) + 1
            lines += r.out.count(b"\n")
            for b in exp.get("builtins", []):
                builtins[b] = builtins.get(b, 0) + 1
            if r.out.count(b"\n") >= 8:
                fsets.add(frozenset(prog.tags))
            if len(samples) < 3 or (name.startswith("t") and sum(1 for s_ in samples if s_["name"].startswith("t")) < 2 and len(samples) < 5):
                samples.append({"name": name, "features": sorted(prog.tags), "ownership_score": ownership_score(prog),
                                "lines_compared": r.out.count(b"\n"), "exit": r.status, "source_head": prog.files()["main.nano"][:500]})
            continue
        # no sanitizer report, but the behaviour is not the model's
        hist["behaviour-differs"] = hist.get("behaviour-differs", 0) + 1
        files["native.stderr"] = r.err
        files["native.stdout"] = r.out
        if sig is not None or r.sig == 6:
            what = abort_class(r.errtext())
            ctx.violation("behaviour|%s" % what, "program %s: the runtime aborted (%s) on a run the model completes" % (name, what), files)
            continue
        d = engines.first_diff(r.text(), exp["stdout"])

        def still(p2, e2, _name=name):
            d2 = sc.sub("red/" + _name)
            shutil.rmtree(d2, ignore_errors=True)
            engines.write_files(d2, p2.files())
            nr2, b2 = engines.build_native(asan, d2, san=True)
            if not b2:
                return False
            r2 = engines.run_native(d2, san=True)
            return not r2.timeout and (r2.text() != e2["stdout"] or r2.status != e2["exit"])
        if name.startswith("g"):
            ksig, small = sweep.reduced_key(prog, still)
            files.update({"reduced/" + k: v for k, v in small.files().items()})
        else:
            ksig = ",".join(sorted(prog.tags))
        ctx.violation("behaviour|native!=model|" + ksig,
                      "program %s: no sanitizer report, but stdout/exit differ from the reference model: %s (exit %s, model %s)"
                      % (name, "line %d native=%r model=%r" % d if d else "stdout equal", r.status, exp["exit"]), files)
    cov["programs"] = len(progs)
    cov["program_outcomes"] = hist
    cov["program_output_lines_compared"] = lines
    cov["builtins_used_by_clean_programs"] = dict(sorted(builtins.items(), key=lambda kv: -kv[1]))
    cov["program_feature_histogram"] = sweep.feature_histogram([(0, p, 0) for _, p, _ in progs])
    cov["ownership_scores"] = {"min": min(ownership_score(p) for _, p, _ in progs), "max": max(ownership_score(p) for _, p, _ in progs)}
    return hist, fsets, samples


CENSUS_EXCLUDED = {"int_overflow_wrap"}


def run_census(ctx, sc, asan, cov):
    """every census cell (one per language feature, including constructs the sweep keeps switched off) under the
    sanitizers.  Only sanitizer reports count here: what a cell prints is the business of C02."""
    # int_overflow_wrap overflows on purpose: C20 asserts nothing about overflow of user arithmetic (DESIGN §4 C20)
    cells = [c for c in sweep.census_cells() if c[0] not in CENSUS_EXCLUDED]

    def do(c):
        name, text, exp = c
        d = sc.sub("census/" + name)
        engines.write_files(d, census.files(name))
        nr, built = engines.build_native(asan, d, san=True)
        r = engines.run_native(d, san=True) if built else None
        return c, nr, built, r

    out = {}
    for (name, text, exp), nr, built, r in pmap(do, cells):
        cls, detail, sig = program_verdict(nr, built, r)
        if cls == "san":
            out[name] = "sanitizer-report"
            ctx.violation(san_key(sig), "census cell %s: sanitizer report %s in %s\n%s" % (name, sig[0], ",".join(sig[1]), detail[:1500]),
                          {"main.nano": text, "native.stderr": r.err, "native.stdout": r.out})
        elif cls == "ran":
            out[name] = "clean" if sig is None else "clean(abort)"
        else:
            out[name] = cls
    cov["census_sanitizer"] = out
    return sum(1 for v in out.values() if v.startswith("clean"))


def run_directed_programs(ctx, sc, asan, cov):
    out = {}
    for name, (text, exp_out, exp_exit) in sorted(DIRECTED_PROGRAMS.items()):
        d = sc.sub("directed/" + name)
        engines.write_files(d, {"main.nano": text})
        nr, built = engines.build_native(asan, d, san=True)
        r = engines.run_native(d, san=True) if built else None
        cls, detail, sig = program_verdict(nr, built, r)
        files = {"main.nano": text, "reference.stdout": exp_out}
        if cls == "san":
            out[name] = "sanitizer-report"
            files["native.stderr"] = r.err
            ctx.violation(san_key(sig) + "@" + name, "directed program %s: sanitizer report %s in %s\n%s" % (name, sig[0], ",".join(sig[1]), detail[:1500]), files)
        elif cls == "ran":
            if r.text() == exp_out and r.status == exp_exit:
                out[name] = "clean+equal"
            else:
                out[name] = "behaviour-differs"
                files["native.stdout"] = r.out
                files["native.stderr"] = r.err
                ctx.violation("behaviour|directed|" + name, "directed program %s: stdout %r exit %s, documented %r exit %s"
                              % (name, r.text()[:80], r.status, exp_out, exp_exit), files)
        else:
            out[name] = cls
    cov["directed_programs"] = out


# ======================================================================================================================
# part 2: operation histories against the runtime API
# ======================================================================================================================
#
# A history is a list of input lines for probes/rt_hist_probe.c plus, per line, the record the abstract model predicts.
# Expected records are ("x", text) - the record must equal text - or ("c", prefix, n) - the record must be
# prefix + " cap=<k>" with k >= n (the growth policy is not part of the property; length <= capacity is, and the probe
# touches the last byte of the claimed capacity so that ASan decides whether it is really there).
#
# Domain: histories stay inside what the API defines.  dyn_array get/set/remove out of range and list_* pop/get/set/
# insert/remove out of range end the process by design (assert / exit(1)): that is C08's subject; here they appear only
# as single-operation "failure cells" that must end the process *without* a memory error.

def hx(b):
    return b.hex() if b else "-"


BOUNDARY_INTS = [0, 1, -1, 2, 7, 8, 255, 256, -128, 65535, 1 << 31, -(1 << 31), (1 << 32) + 1, I64_MAX, I64_MIN, I64_MAX - 1, 42]
BOUNDARY_LENS = [0, 1, 2, 4, 7, 8, 9, 15, 16, 17, 31, 32, 33, 63, 64, 65, 127, 128, 129, 255, 256, 257, 511, 512, 513]
FLOAT_BITS = [0x0000000000000000, 0x8000000000000000, 0x3ff0000000000000, 0xbff8000000000000, 0x7ff0000000000000,
              0xfff0000000000000, 0x7ff8000000000001, 0x0000000000000001, 0x7fefffffffffffff, 0x400921fb54442d18]
STRUCT_SIZES = [1, 2, 3, 4, 7, 8, 9, 12, 16, 24, 40, 100, 255]
OPNAMES = {
    "an": "new", "ac": "new_with_capacity", "ap": "push", "apc": "push_string_copy", "ao": "pop", "ag": "get", "as": "set",
    "ar": "remove_at", "ax": "clear", "av": "reserve", "ak": "clone", "al": "slice", "aq": "elem_type", "ad": "contents", "af": "release",
    "ln": "new", "lc": "with_capacity", "lp": "push", "lo": "pop", "li": "insert", "lr": "remove", "ls": "set", "lg": "get", "lx": "clear",
    "lq": "is_empty", "ld": "contents", "lf": "free",
    "mn": "new", "mc": "with_capacity", "mp": "push", "mo": "pop", "mi": "insert", "mr": "remove", "ms": "set", "mg": "get", "mx": "clear",
    "mq": "is_empty", "md": "contents", "mf": "free",
    "gn": "struct_new", "gs": "alloc_string", "ga": "alloc_array", "gf": "set_field_ref", "gi": "set_field_int", "gg": "get_field",
    "gx": "field_index", "gr": "retain", "gl": "release", "gc": "collect_cycles", "gk": "struct_clone", "gq": "is_managed", "gw": "use",
    "sn": "new", "sb": "new_binary", "su": "from_utf8", "sw": "with_capacity", "sc": "concat", "ss": "substring", "sU": "utf8_substring",
    "sk": "clone", "sl": "utf8_length", "sv": "validate_utf8", "sa": "utf8_char_at", "sy": "byte_at_safe", "sY": "byte_at", "sr": "reserve",
    "sh": "shrink_to_fit", "sz": "to_cstr", "sZ": "ensure_null_terminated", "sB": "to_binary", "se": "equals", "sE": "equals_cstr",
    "sf": "free", "sd": "state",
    "cc": "concat", "cs": "substring", "cn": "contains", "ci": "index_of", "ch": "char_at", "cl": "length", "cf": "from_char",
    "pc": "nl_str_concat", "ps": "nl_str_substring", "pn": "nl_str_contains", "pe": "nl_str_equals", "pi": "int_to_string",
    "pt": "string_to_int", "ph": "char_at", "pf": "string_from_char",
    "apA": "push_own_element", "apcA": "push_string_copy_own_element", "asA": "set_from_own_element", "aT": "to_string",
    "lpA": "push_own_element", "liA": "insert_own_element", "mpA": "push_own_element", "miA": "insert_own_element", "msA": "set_from_own_element",
    "fn": "new", "fa": "append_cstr", "fc": "append_char", "fA": "append_own_buffer", "fb": "build", "ff": "free",
    "hn": "new", "hp": "put", "hg": "get", "hG": "get_and_hold", "hh": "has", "hr": "remove", "hl": "length", "hx": "clear",
    "hk": "keys", "hv": "values", "hf": "free", "hH": "held_string", "hA": "held_array",
}
CONTAINER = {"a": "dyn_array", "l": "list_int", "m": "list_string", "g": "gc", "s": "nl_string", "c": "nl_cstr", "p": "prelude", "h": "hashmap", "f": "fmt_builder"}


def op_of(line):
    return line.split(" ", 1)[0]


class Hist:
    """lines and expected records of one history"""

    def __init__(self, hid, family):
        self.hid = hid
        self.family = family
        self.lines = ["H %s" % hid]
        self.exp = [("x", "H %s = start" % hid)]
        self.maxlen = 0
        self.elem_kinds = set()

    def x(self, line, result, state=""):
        self.lines.append(line)
        self.exp.append(("x", "%s = %s%s" % (line, result, state)))

    def c(self, line, result, length):
        self.lines.append(line)
        self.exp.append(("c", "%s = %s | len=%d" % (line, result, length), length))
        if length > self.maxlen:
            self.maxlen = length

    def digest(self):
        return hashlib.sha256("\n".join(self.lines[1:]).encode()).hexdigest()[:16]


def rand_bytes(r, n, alphabet=None):
    if alphabet == "ascii":
        return bytes(r.choice(b"abcdefghijklmnopqrstuvwxyzABCXYZ0123456789 _-") for _ in range(n))
    return bytes(r.randint(1, 255) for _ in range(n))


def rand_cstr(r):
    """a C string (no NUL byte): mostly short, sometimes long enough to leave the small-allocation classes"""
    k = r.random()
    if k < 0.12:
        return b""
    if k < 0.7:
        return rand_bytes(r, r.randint(1, 12), "ascii")
    if k < 0.9:
        return rand_bytes(r, r.randint(1, 40))
    if k < 0.98:
        return rand_bytes(r, r.choice([63, 64, 65, 127, 128, 255, 256, 300]), "ascii")
    return rand_bytes(r, r.choice([1000, 4096, 5000]), "ascii")


# ---- dyn_array ------------------------------------------------------------------------------------------------------
class DAGen:
    EMPTY_POP = {"i": "empty 0", "u": "empty 0", "f": "empty 0000000000000000", "b": "empty 0", "s": "empty NULL", "a": "empty @-1", "t": "empty -"}
    TYPE_NO = {"i": 1, "u": 8, "f": 2, "s": 3, "b": 4, "a": 5, "t": 6}

    def __init__(self, r, h, nops, kinds="iufbsat", flags=None):
        self.r = r
        self.h = h
        self.nops = nops
        self.kinds = kinds
        self.flags = flags or {}
        self.slots = {}          # slot -> {"k": kind, "items": [printed form], "ssize": int|None}
        self.ops = {}

    def count(self, op, kind):
        key = "%s.%s" % (OPNAMES[op], kind)
        self.ops[key] = self.ops.get(key, 0) + 1
        self.h.elem_kinds.add(kind)

    def free_slot(self):
        c = [s for s in range(12) if s not in self.slots]
        return self.r.choice(c) if c else None

    def value(self, s):
        """(token sent, printed form) of a fresh element for slot s, or None when none can be made"""
        r = self.r
        k = self.slots[s]["k"]
        if k == "i":
            v = r.choice(BOUNDARY_INTS) if r.random() < 0.4 else r.randint(-1000, 1000)
            return str(v), str(v)
        if k == "u":
            v = r.choice([0, 1, 127, 128, 255]) if r.random() < 0.4 else r.randint(0, 255)
            return str(v), str(v)
        if k == "f":
            v = r.choice(FLOAT_BITS) if r.random() < 0.5 else struct.unpack("<Q", struct.pack("<d", r.uniform(-1e6, 1e6)))[0]
            return "%016x" % v, "%016x" % v
        if k == "b":
            v = r.randint(0, 1)
            return str(v), str(v)
        if k == "s":
            b = rand_cstr(r)
            return hx(b), hx(b)
        if k == "a":
            c = [x for x in self.slots if x != s]
            if not c:
                return None
            v = r.choice(c)
            return str(v), "@%d" % v
        d = self.slots[s]
        if d["ssize"] is None:
            d["ssize"] = r.choice(STRUCT_SIZES)
        b = bytes(r.randint(0, 255) for _ in range(d["ssize"]))
        return hx(b), hx(b)

    def referenced(self, s):
        ref_ = "@%d" % s
        return any(d["k"] == "a" and ref_ in d["items"] for x, d in self.slots.items())

    def new(self):
        s = self.free_slot()
        if s is None:
            return False
        k = self.r.choice(self.kinds)
        self.slots[s] = {"k": k, "items": [], "ssize": None, "mcap": 8}
        if self.r.random() < 0.6:
            self.h.c("an %d %s" % (s, k), "ok", 0)
            self.count("an", k)
        else:
            cap = self.r.choice([-5, 0, 1, 7, 8, 9, 16, 100, 1000])
            self.slots[s]["mcap"] = max(8, cap)
            self.h.c("ac %d %s %d" % (s, k, cap), "ok", 0)
            self.count("ac", k)
        return True

    def grew(self, d):
        """follow the implementation's growth policy (doubling) - only used to choose operations, never compared"""
        while len(d["items"]) > d["mcap"]:
            d["mcap"] *= 2

    def push_own(self, s):
        """push an element of the array itself; at length == capacity the store moves while the source points into it"""
        d = self.slots[s]
        n = len(d["items"])
        if n == 0:
            return False
        if d["k"] == "t" and n >= d["mcap"] and not self.flags.get("alias_grow"):
            return False                 # known defect (dyn_array_push_struct reads the freed store), see DIRECTED_HISTORIES
        i = self.index(n)
        op = "apcA" if d["k"] == "s" and self.r.random() < 0.5 else "apA"
        d["items"].append(d["items"][i])
        self.grew(d)
        self.h.c("%s %d %d" % (op, s, i), "same", n + 1)
        self.count(op, d["k"])
        return True

    def render(self, s, seen=()):
        """text nl_to_string_array produces, or None when the model does not cover it (floats, cycles)"""
        d = self.slots[s]
        k = d["k"]
        if k == "f" or s in seen:
            return None
        parts = []
        for it in d["items"]:
            if k in "iu":
                parts.append(it.encode())
            elif k == "b":
                parts.append(b"true" if it == "1" else b"false")
            elif k == "s":
                parts.append(b'"' + (b"" if it == "-" else bytes.fromhex(it)) + b'"')
            elif k == "t":
                parts.append(b"<struct>")
            else:
                sub = self.render(int(it[1:]), seen + (s,))
                if sub is None:
                    return None
                parts.append(sub)
        return b"[" + b", ".join(parts) + b"]"

    def gc_strings(self, s):
        """gc-managed strings to_string leaves behind: one int_to_string result per int / u8 element (never released)"""
        d = self.slots[s]
        if d["k"] in "iu":
            return len(d["items"])
        if d["k"] == "a":
            return sum(self.gc_strings(int(it[1:])) for it in d["items"])
        return 0

    def to_string(self, s):
        txt = self.render(s)
        if txt is None or len(txt) > 6000:
            return False
        d = self.slots[s]
        self.gc_extra = getattr(self, "gc_extra", 0) + self.gc_strings(s)
        self.h.c("aT %d" % s, hx(txt), len(d["items"]))
        self.count("aT", d["k"])
        self.ops["to_string.text_length_%s" % ("<=254" if len(txt) < 255 else "255-258" if len(txt) <= 258 else "259-510" if len(txt) < 511 else
                                                "511-514" if len(txt) <= 514 else ">514")] = 1 + self.ops.get(
            "to_string.text_length_%s" % ("<=254" if len(txt) < 255 else "255-258" if len(txt) <= 258 else "259-510" if len(txt) < 511 else
                                          "511-514" if len(txt) <= 514 else ">514"), 0)
        return True

    def to_string_boundary(self):
        """make the rendered text end exactly at / next to the formatter's capacities (256, 512, 1024 bytes)"""
        r = self.r
        c = [x for x, d in self.slots.items() if d["k"] in "sib"]
        if not c:
            return
        s = r.choice(c)
        d = self.slots[s]
        cur = self.render(s)
        if cur is None:
            return
        target = r.choice([256, 512, 1024]) + r.choice([-1, 0, 0, 1, 1, 2, 2, 3])
        sep = 2 if d["items"] else 0
        if d["k"] == "s":
            need = target - len(cur) - sep - 2
            if need < 0 or self.room() < 3:
                return
            b = rand_bytes(r, need, "ascii")
            d["items"].append(hx(b))
            self.grew(d)
            self.h.c("ap %d %s" % (s, hx(b)), "same", len(d["items"]))
            self.count("ap", "s")
        else:
            # one-digit ints / bools until the next element would pass the target
            while self.room() > 3:
                cur = self.render(s)
                tok = str(r.randint(0, 9)) if d["k"] == "i" else str(r.randint(0, 1))
                add = (2 if d["items"] else 0) + (1 if d["k"] == "i" else (4 if tok == "1" else 5))
                if len(cur) + add > target:
                    break
                d["items"].append(tok)
                self.grew(d)
                self.h.c("ap %d %s" % (s, tok), "same", len(d["items"]))
                self.count("ap", d["k"])
        self.to_string(s)

    def push(self, s):
        d = self.slots[s]
        v = self.value(s)
        if v is None:
            return False
        tok, shown = v
        op = "apc" if d["k"] == "s" and self.r.random() < 0.4 else "ap"
        d["items"].append(shown)
        self.grew(d)
        self.h.c("%s %d %s" % (op, s, tok), "same", len(d["items"]))
        self.count(op, d["k"])
        return True

    def pop(self, s):
        d = self.slots[s]
        if d["items"]:
            v = d["items"].pop()
            self.h.c("ao %d" % s, "ok %s" % v, len(d["items"]))
        else:
            self.h.c("ao %d" % s, self.EMPTY_POP[d["k"]], 0)
        self.count("ao", d["k"])
        return True

    def dump(self, s):
        d = self.slots[s]
        self.h.c("ad %d" % s, "[%s]" % " ".join(d["items"]), len(d["items"]))
        self.count("ad", d["k"])

    def index(self, n):
        r = self.r
        return r.choice([0, n - 1, n // 2, r.randrange(n)])

    def step(self):
        r = self.r
        if not self.slots:
            return self.new()
        s = r.choice(list(self.slots))
        d = self.slots[s]
        n = len(d["items"])
        k = r.random()
        if k < 0.30:
            if r.random() < 0.12:
                return self.push_own(s)
            return self.push(s)
        if k < 0.40:
            if r.random() < 0.1:
                return self.to_string(s)
            if r.random() < 0.1 and n:
                i, j = self.index(n), self.index(n)
                d["items"][i] = d["items"][j]
                self.h.c("asA %d %d %d" % (s, i, j), "ok", n)
                self.count("asA", d["k"])
                return True
            return self.pop(s)
        if k < 0.50:
            if n == 0:
                return False
            i = self.index(n)
            self.h.c("ag %d %d" % (s, i), d["items"][i], n)
            self.count("ag", d["k"])
            return True
        if k < 0.60:
            if n == 0:
                return False
            v = self.value(s)
            if v is None:
                return False
            i = self.index(n)
            d["items"][i] = v[1]
            self.h.c("as %d %d %s" % (s, i, v[0]), "ok", n)
            self.count("as", d["k"])
            return True
        if k < 0.68:
            if n == 0:
                return False
            i = self.index(n)
            del d["items"][i]
            self.h.c("ar %d %d" % (s, i), "same", n - 1)
            self.count("ar", d["k"])
            return True
        if k < 0.70:
            d["items"] = []
            self.h.c("ax %d" % s, "ok", 0)
            self.count("ax", d["k"])
            return True
        if k < 0.74:
            if d["k"] == "t" and d["ssize"] is None:
                return False             # reserve before the first struct push: known defect, see DIRECTED_HISTORIES
            want = r.choice([-1, 0, n, n + 1, 8, 9, 16, 17, 2 * n + 3, r.choice(BOUNDARY_LENS), 2000])
            d["mcap"] = max(d["mcap"], want)
            self.h.c("av %d %d" % (s, want), "ok", n)
            self.count("av", d["k"])
            return True
        if k < 0.79:
            if d["k"] == "t":
                return False             # dyn_array_clone of an inline-struct array: known defect, see DIRECTED_HISTORIES
            t = self.free_slot()
            if t is None:
                return False
            self.slots[t] = {"k": d["k"], "items": list(d["items"]), "ssize": d["ssize"], "mcap": max(8, n)}
            self.h.c("ak %d %d" % (t, s), "ok", n)
            self.count("ak", d["k"])
            return True
        if k < 0.86:
            t = self.free_slot()
            if t is None:
                return False
            st = r.choice([0, n, n // 2, r.randint(0, n)])
            ln = r.choice([0, 1, n - st, max(0, n - st - 1), n - st + 1, n + 7, 1 << 62])
            part = d["items"][st:st + ln]
            self.slots[t] = {"k": d["k"], "items": list(part), "ssize": d["ssize"] if part else None, "mcap": 8}
            self.grew(self.slots[t])
            self.h.c("al %d %d %d %d" % (t, s, st, ln), "ok", len(part))
            self.count("al", d["k"])
            return True
        if k < 0.88:
            self.h.c("aq %d" % s, "type %d" % self.TYPE_NO[d["k"]], n)
            self.count("aq", d["k"])
            return True
        if k < 0.93:
            self.dump(s)
            return True
        if k < 0.95:
            # the mark phase walks nested arrays; inline-struct arrays with elements smaller than a pointer are a
            # known defect of gc_mark (see DIRECTED_HISTORIES) and keep the random workload from collecting
            if any(x["k"] == "t" and x["items"] and (x["ssize"] or 0) < 8 for x in self.slots.values()):
                return False
            self.h.x("gc", "ok", " | live=%d" % (len(self.slots) + getattr(self, "gc_extra", 0)))
            self.ops["collect_cycles.-"] = self.ops.get("collect_cycles.-", 0) + 1
            return True
        if k < 0.98:
            if self.referenced(s):
                return False
            del self.slots[s]
            self.h.x("af %d" % s, "ok")
            self.count("af", d["k"])
            return True
        return self.new()

    def burst(self):
        """push up to just past a capacity boundary, or drain to empty (and once more)"""
        r = self.r
        if not self.slots:
            return
        s = r.choice(list(self.slots))
        d = self.slots[s]
        n = len(d["items"])
        if r.random() < 0.7:
            targets = [b + 1 for b in BOUNDARY_LENS if b + 1 > n and (b + 1 - n) * 1.3 <= self.room()]
            if not targets:
                return
            t = r.choice(targets[-4:])
            while len(d["items"]) < t and self.room() > 0:
                # the push that makes the store grow takes an element of the array itself as its source now and then
                if len(d["items"]) >= d["mcap"] and r.random() < 0.5 and self.push_own(s):
                    continue
                if not self.push(s):
                    return
                m = len(d["items"])
                if m in (8, 9, 16, 17, 32, 33, 64, 65, 128, 129, 256, 257, 512, 513) and r.random() < 0.6:
                    self.dump(s)
        else:
            while d["items"] and self.room() > 1:
                self.pop(s)
            if not d["items"]:
                self.pop(s)

    def room(self):
        """operations left before the closing sequence (contents + release of every array + collect)"""
        return self.nops - len(self.h.lines) - 2 * len(self.slots) - 3

    def run(self):
        r = self.r
        self.new()
        guard = 0
        while self.room() > 0 and guard < self.nops * 6:
            guard += 1
            if r.random() < 0.12:
                self.burst()
                continue
            if r.random() < 0.03:
                self.to_string_boundary()
                continue
            before = len(self.h.lines)
            self.step()
            if len(self.h.lines) > before and self.slots and r.random() < 0.5 and self.room() > 0:
                # contents after the step while the array is small
                s = r.choice(list(self.slots))
                if len(self.slots[s]["items"]) <= 12:
                    self.dump(s)
        for s in sorted(self.slots):
            self.dump(s)
        # release everything (parents before the arrays they refer to)
        order = sorted(self.slots, key=lambda x: 0 if self.slots[x]["k"] == "a" else 1)
        for s in order:
            k = self.slots.pop(s)["k"]
            self.h.x("af %d" % s, "ok")
            self.count("af", k)
        self.h.x("gc", "ok", " | live=%d" % getattr(self, "gc_extra", 0))
        return self.ops


# ---- list_int / list_string -----------------------------------------------------------------------------------------
class ListGen:
    def __init__(self, r, h, nops, flags=None):
        self.r = r
        self.h = h
        self.nops = nops
        self.flags = flags or {}
        self.slots = {}      # slot -> {"k": "l"|"m", "items": [...]}
        self.ops = {}

    def own(self, s):
        """push / insert / set with an element of the list itself as the source (also when the store has to grow)"""
        r = self.r
        d = self.slots[s]
        p, it = d["k"], d["items"]
        n = len(it)
        if n == 0:
            return
        j = r.choice([0, n - 1, r.randrange(n)])
        k = r.random()
        if k < 0.4:
            it.append(it[j])
            self.emit(p, "pA", s, [j], "ok")
        elif k < 0.8 or p == "l":
            i = r.choice([0, n, r.randint(0, n)])
            v = it[j]
            it.insert(i, v)
            self.emit(p, "iA", s, [i, j], "ok")
        else:
            i = r.choice([0, n - 1, r.randrange(n)])
            if i == j and not self.flags.get("set_self"):
                return                   # list_string_set(l, i, list_string_get(l, i)): known defect, see DIRECTED_HISTORIES
            it[i] = it[j]
            self.emit(p, "sA", s, [i, j], "ok")

    def count(self, op):
        key = "%s.%s" % (OPNAMES[op], "int" if op[0] == "l" else "string")
        self.ops[key] = self.ops.get(key, 0) + 1
        self.h.elem_kinds.add("list_int" if op[0] == "l" else "list_string")

    def val(self, p):
        r = self.r
        if p == "l":
            v = r.choice(BOUNDARY_INTS) if r.random() < 0.4 else r.randint(-1000, 1000)
            return str(v)
        return hx(rand_cstr(r))

    def emit(self, p, op, s, args, result):
        line = ("%s%s %d %s" % (p, op, s, " ".join(str(a) for a in args))).rstrip()
        self.h.c(line, result, len(self.slots[s]["items"]))
        self.count(p + op)

    def new(self):
        c = [s for s in range(8) if s not in self.slots]
        if not c:
            return
        s = self.r.choice(c)
        p = self.r.choice("lm")
        self.slots[s] = {"k": p, "items": []}
        if self.r.random() < 0.5:
            self.emit(p, "n", s, [], "ok")
        else:
            self.emit(p, "c", s, [self.r.choice([0, 1, 2, 7, 8, 9, 33])], "ok")

    def step(self):
        r = self.r
        if not self.slots or r.random() < 0.03:
            self.new()
            return
        s = r.choice(list(self.slots))
        d = self.slots[s]
        p, it = d["k"], d["items"]
        n = len(it)
        k = r.random()
        if k < 0.06:
            self.own(s)
        elif k < 0.30:
            v = self.val(p)
            it.append(v)
            self.emit(p, "p", s, [v], "ok")
        elif k < 0.40 and n:
            v = it.pop()
            self.emit(p, "o", s, [], v)
        elif k < 0.52:
            i = r.choice([0, n, n // 2, r.randint(0, n)])
            v = self.val(p)
            it.insert(i, v)
            self.emit(p, "i", s, [i, v], "ok")
        elif k < 0.62 and n:
            i = r.choice([0, n - 1, r.randrange(n)])
            v = it.pop(i)
            self.emit(p, "r", s, [i], v)
        elif k < 0.72 and n:
            i = r.choice([0, n - 1, r.randrange(n)])
            v = self.val(p)
            it[i] = v
            self.emit(p, "s", s, [i, v], "ok")
        elif k < 0.82 and n:
            i = r.choice([0, n - 1, r.randrange(n)])
            self.emit(p, "g", s, [i], it[i])
        elif k < 0.84:
            del it[:]
            self.emit(p, "x", s, [], "ok")
        elif k < 0.88:
            self.emit(p, "q", s, [], "empty %d" % (0 if n else 1))
        elif k < 0.96:
            self.emit(p, "d", s, [], "[%s]" % " ".join(it))
        elif k < 0.98:
            del self.slots[s]
            self.h.x("%sf %d" % (p, s), "ok")
            self.count(p + "f")

    def run(self):
        r = self.r
        self.new()
        guard = 0

        def room():
            return self.nops - len(self.h.lines) - 2 * len(self.slots) - 2
        while room() > 0 and guard < self.nops * 5:
            guard += 1
            if r.random() < 0.08 and self.slots:
                s = r.choice(list(self.slots))
                d = self.slots[s]
                targets = [b + 1 for b in BOUNDARY_LENS if b + 1 > len(d["items"]) and b + 2 - len(d["items"]) <= room()]
                if targets:
                    t = r.choice(targets[-3:])
                    while len(d["items"]) < t:
                        v = self.val(d["k"])
                        if d["items"] and r.random() < 0.25:
                            self.own(s)
                            if len(d["items"]) >= t:
                                break
                            continue
                        if r.random() < 0.7:
                            d["items"].append(v)
                            self.emit(d["k"], "p", s, [v], "ok")
                        else:
                            i = r.randint(0, len(d["items"]))
                            d["items"].insert(i, v)
                            self.emit(d["k"], "i", s, [i, v], "ok")
                    self.emit(d["k"], "d", s, [], "[%s]" % " ".join(d["items"]))
                continue
            self.step()
        for s in sorted(self.slots):
            d = self.slots[s]
            self.emit(d["k"], "d", s, [], "[%s]" % " ".join(d["items"]))
        for s in sorted(self.slots):
            p = self.slots.pop(s)["k"]
            self.h.x("%sf %d" % (p, s), "ok")
            self.count(p + "f")
        return self.ops


# ---- gc: reference-count model ---------------------------------------------------------------------------------------
class GCGen:
    """objects: slot -> {"k": 'S'|'s'|'a', "rc": int, "ext": references held by the driver, "f": fields}
    a field is None (never set), ("i", v) or ("r", slot).  An operation needs a reference of the driver on every object
    it passes (ext >= 1): the API does not promise anything for borrowed pointers that may die during the call."""

    def __init__(self, r, h, nops):
        self.r = r
        self.h = h
        self.nops = nops
        self.o = {}
        self.dead = set()
        self.live = 0
        self.ops = {}

    def count(self, op):
        key = "%s.gc" % OPNAMES[op]
        self.ops[key] = self.ops.get(key, 0) + 1
        self.h.elem_kinds.add("gc")

    def emit(self, line, result="ok"):
        self.h.x(line, result, " | live=%d" % self.live)
        self.count(op_of(line))

    def release(self, s):
        d = self.o[s]
        d["rc"] -= 1
        if d["rc"] == 0:
            self.live -= 1
            self.dead.add(s)
            fields = d["f"]
            del self.o[s]
            for f in fields or []:
                if f and f[0] == "r" and f[1] in self.o:
                    self.release(f[1])

    def owned(self, kind=None):
        return [s for s, d in self.o.items() if d["ext"] >= 1 and (kind is None or d["k"] == kind)]

    def free_slot(self):
        c = [s for s in range(NSLOT_PY) if s not in self.o and s not in self.dead]
        return self.r.choice(c) if c else None

    def alloc(self):
        r = self.r
        s = self.free_slot()
        if s is None:
            return False
        k = r.random()
        if k < 0.7:
            n = r.choice([0, 1, 1, 2, 2, 3, 4, 6])
            self.o[s] = {"k": "S", "rc": 1, "ext": 1, "f": [None] * n, "name": "S%d" % s}
            self.live += 1
            self.emit("gn %d %d" % (s, n))
        elif k < 0.85:
            self.o[s] = {"k": "s", "rc": 1, "ext": 1, "f": None}
            self.live += 1
            self.emit("gs %d %d" % (s, r.choice([0, 1, 7, 8, 31, 100, 5000])))
        else:
            self.o[s] = {"k": "a", "rc": 1, "ext": 1, "f": None}
            self.live += 1
            self.emit("ga %d" % s)
        return True

    def query(self, s):
        if s in self.o:
            self.h.x("gq %d" % s, "live rc=%d" % self.o[s]["rc"])
        else:
            self.h.x("gq %d" % s, "dead")
        self.count("gq")

    def step(self):
        r = self.r
        k = r.random()
        structs = [s for s in self.owned("S") if self.o[s]["f"]]
        if k < 0.18 or not self.o:
            return self.alloc()
        if k < 0.42 and structs:
            s = r.choice(structs)
            d = self.o[s]
            f = r.randrange(len(d["f"]))
            c = r.choice(self.owned())
            old = d["f"][f]
            # new value first in the model too: the order only matters for the directed defect (same child, last reference)
            self.o[c]["rc"] += 1
            d["f"][f] = ("r", c)
            if old and old[0] == "r":
                self.release(old[1])
            self.emit("gf %d %d %d" % (s, f, c))
            return True
        if k < 0.50 and structs:
            s = r.choice(structs)
            d = self.o[s]
            f = r.randrange(len(d["f"]))
            v = r.choice([0, 1, -1, 123456789, I64_MAX, I64_MIN])
            old = d["f"][f]
            d["f"][f] = ("i", v)
            if old and old[0] == "r":
                self.release(old[1])
            self.emit("gi %d %d %d" % (s, f, v))
            return True
        if k < 0.58 and structs:
            s = r.choice(structs)
            d = self.o[s]
            f = r.randrange(len(d["f"]))
            v = d["f"][f]
            self.emit("gg %d %d" % (s, f), "int 0" if v is None else "int %d" % v[1] if v[0] == "i" else "ref @%d" % v[1])
            return True
        if k < 0.61 and structs:
            s = r.choice(structs)
            d = self.o[s]
            f = r.randrange(len(d["f"]) + 1)
            self.emit("gx %d %d" % (s, f), "index %d" % (f if f < len(d["f"]) and d["f"][f] is not None else -1))
            return True
        if k < 0.69 and self.owned():
            s = r.choice(self.owned())
            self.o[s]["rc"] += 1
            self.o[s]["ext"] += 1
            self.emit("gr %d" % s)
            return True
        if k < 0.83 and self.owned():
            s = r.choice(self.owned())
            self.o[s]["ext"] -= 1
            self.release(s)
            self.emit("gl %d" % s)
            return True
        if k < 0.87:
            self.emit("gc")
            return True
        if k < 0.91:
            full = [s for s in self.owned("S") if all(f is not None for f in self.o[s]["f"])]
            t = self.free_slot()
            if not full or t is None:
                return False
            s = r.choice(full)
            self.o[t] = {"k": "S", "rc": 1, "ext": 1, "f": list(self.o[s]["f"]), "name": self.o[s]["name"]}
            self.live += 1
            for f in self.o[t]["f"]:
                if f[0] == "r":
                    self.o[f[1]]["rc"] += 1
            self.emit("gk %d %d" % (t, s))
            return True
        if k < 0.96:
            c = list(self.o) + list(self.dead)
            self.query(r.choice(c))
            return True
        if self.o:
            s = r.choice(list(self.o))
            d = self.o[s]
            if d["k"] == "S":
                self.emit("gw %d" % s, "struct %s %d" % (d["name"], len(d["f"])))
            elif d["k"] == "s":
                return False
            else:
                return False
            return True
        return False

    def run(self):
        self.alloc()
        guard = 0
        while guard < self.nops * 5:
            guard += 1
            closing = sum(d["ext"] for d in self.o.values()) + len(self.o) + len(self.dead) + 3
            if self.nops - len(self.h.lines) - closing <= 0:
                break
            self.step()
        # drop every reference the driver holds, then ask about every object ever made
        for s in sorted(self.owned()):
            while s in self.o and self.o[s]["ext"] >= 1:
                self.o[s]["ext"] -= 1
                self.release(s)
                self.emit("gl %d" % s)
        self.emit("gc")
        for s in sorted(list(self.o) + list(self.dead)):
            self.query(s)
        return self.ops


NSLOT_PY = 32


# ---- nl_string_t: byte-string model ----------------------------------------------------------------------------------
def utf8_segments(data):
    """the runtime's notion of well-formed UTF-8 (lead byte gives the length, continuation bytes are 10xxxxxx):
    list of the byte sequences of the characters, or None"""
    out = []
    i, n = 0, len(data)
    while i < n:
        b = data[i]
        ln = 1 if b < 0x80 else 2 if b & 0xE0 == 0xC0 else 3 if b & 0xF0 == 0xE0 else 4 if b & 0xF8 == 0xF0 else 0
        if ln == 0 or i + ln > n:
            return None
        if any(data[i + j] & 0xC0 != 0x80 for j in range(1, ln)):
            return None
        out.append(data[i:i + ln])
        i += ln
    return out


def decode_cp(seg):
    if len(seg) == 1:
        return seg[0]
    if len(seg) == 2:
        return ((seg[0] & 0x1F) << 6) | (seg[1] & 0x3F)
    if len(seg) == 3:
        return ((seg[0] & 0x0F) << 12) | ((seg[1] & 0x3F) << 6) | (seg[2] & 0x3F)
    return ((seg[0] & 0x07) << 18) | ((seg[1] & 0x3F) << 12) | ((seg[2] & 0x3F) << 6) | (seg[3] & 0x3F)


def rand_text(r, allow_nul=True):
    k = r.random()
    if k < 0.1:
        return b""
    if k < 0.5:
        return rand_bytes(r, r.randint(1, 20), "ascii")
    if k < 0.8:
        parts = []
        for _ in range(r.randint(1, 10)):
            parts.append(r.choice([b"a", b"Z", b"\xc3\xa9", b"\xe2\x82\xac", b"\xf0\x9f\x91\x8b", b" ", b"\xd0\x96", b"0"]))
        return b"".join(parts)
    if k < 0.92:
        b = bytes(r.randint(0 if allow_nul else 1, 255) for _ in range(r.randint(1, 16)))
        return b
    return rand_bytes(r, r.choice([63, 64, 65, 255, 256, 1000]), "ascii")


class StrGen:
    """slot -> {"d": bytes, "u": True|False|None (is_utf8 flag; None = not determined by the documentation), "nt": bool}"""

    def __init__(self, r, h, nops):
        self.r = r
        self.h = h
        self.nops = nops
        self.s = {}
        self.ops = {}

    def count(self, op):
        key = "%s.nl_string" % OPNAMES[op]
        self.ops[key] = self.ops.get(key, 0) + 1
        self.h.elem_kinds.add("nl_string")

    def state(self, s):
        d = self.s.get(s)
        if d is None:
            return " | null"
        t = " | %s len=%d capok=1 nt=%d" % (hx(d["d"]), len(d["d"]), 1 if d["nt"] else 0)
        if d["nt"]:
            t += " z=1"
        return t

    def emit(self, line, result, s):
        self.h.x(line, result, self.state(s))
        self.count(op_of(line))
        if s in self.s and len(self.s[s]["d"]) > self.h.maxlen:
            self.h.maxlen = len(self.s[s]["d"])

    def free_slot(self):
        c = [x for x in range(12) if x not in self.s]
        return self.r.choice(c) if c else None

    def make(self):
        r = self.r
        t = self.free_slot()
        if t is None:
            return False
        k = r.random()
        if k < 0.35:
            b = rand_text(r, allow_nul=False)
            self.s[t] = {"d": b, "u": None, "nt": True}
            self.emit("sn %d %s" % (t, hx(b)), "ok", t)
        elif k < 0.6:
            b = rand_text(r)
            self.s[t] = {"d": b, "u": None, "nt": False}
            self.emit("sb %d %s" % (t, hx(b)), "ok", t)
        elif k < 0.8:
            b = rand_text(r)
            if utf8_segments(b) is not None:
                self.s[t] = {"d": b, "u": True, "nt": False}
                self.emit("su %d %s" % (t, hx(b)), "ok", t)
            else:
                self.emit("su %d %s" % (t, hx(b)), "NULL", t)
        else:
            self.s[t] = {"d": b"", "u": True, "nt": False}
            self.emit("sw %d %d" % (t, r.choice([0, 1, 8, 16, 100])), "ok", t)
        return True

    def step(self):
        r = self.r
        if not self.s or r.random() < 0.12:
            return self.make()
        a = r.choice(list(self.s))
        d = self.s[a]
        n = len(d["d"])
        k = r.random()
        if k < 0.12:
            t = self.free_slot()
            if t is None:
                return False
            b = r.choice(list(self.s))
            e = self.s[b]
            if n + len(e["d"]) > 20000:
                return False
            u = False if (d["u"] is False or e["u"] is False) else True if (d["u"] and e["u"]) else None
            self.s[t] = {"d": d["d"] + e["d"], "u": u, "nt": True}
            self.emit("sc %d %d %d" % (t, a, b), "ok", t)
            return True
        if k < 0.26:
            t = self.free_slot()
            if t is None:
                return False
            st = r.choice([0, n, n + 1, n // 2, r.randint(0, n + 2), max(0, n - 1)])
            ln = r.choice([0, 1, n, max(0, n - st), max(0, n - st) + 1, r.randint(0, n + 3), 1 << 62])
            if st >= n:
                self.s[t] = {"d": b"", "u": True, "nt": False}
            else:
                part = d["d"][st:st + ln]
                u = (utf8_segments(part) is not None) if d["u"] is True else False if d["u"] is False else None
                self.s[t] = {"d": part, "u": u, "nt": False}
            self.emit("ss %d %d %d %d" % (t, a, st, ln), "ok", t)
            return True
        if k < 0.36:
            if d["u"] is None:
                return False
            t = self.free_slot()
            if t is None:
                return False
            if d["u"] is False:
                self.emit("sU %d %d %d %d" % (t, a, r.randint(0, 3), r.randint(0, 3)), "NULL", t)
                return True
            segs = utf8_segments(d["d"])
            m = len(segs)
            cs = r.choice([0, m, m // 2, r.randint(0, m + 1)])
            cl = r.choice([1, 2, m, max(0, m - cs), r.randint(0, m + 2), 1 << 62])
            if cs == 0 and cl == 0:
                return False              # known defect (returns the whole string): see DIRECTED_HISTORIES
            part = b"".join(segs[cs:cs + cl])
            self.s[t] = {"d": part, "u": True, "nt": False}
            self.emit("sU %d %d %d %d" % (t, a, cs, cl), "ok", t)
            return True
        if k < 0.42:
            t = self.free_slot()
            if t is None:
                return False
            self.s[t] = dict(d)
            self.emit("sk %d %d" % (t, a), "ok", t)
            return True
        if k < 0.50:
            v = utf8_segments(d["d"]) is not None
            d["u"] = v
            self.emit("sv %d" % a, "valid %d" % (1 if v else 0), a)
            return True
        if k < 0.56:
            if d["u"] is None:
                return False
            self.emit("sl %d" % a, "utf8len %d" % (len(utf8_segments(d["d"])) if d["u"] else -1), a)
            return True
        if k < 0.62:
            if d["u"] is None:
                return False
            if not d["u"]:
                self.emit("sa %d %d" % (a, r.randint(0, 3)), "cp -1", a)
                return True
            segs = utf8_segments(d["d"])
            i = r.choice([0, len(segs), max(0, len(segs) - 1), r.randint(0, len(segs) + 1)])
            self.emit("sa %d %d" % (a, i), "cp %d" % (decode_cp(segs[i]) if i < len(segs) else -1), a)
            return True
        if k < 0.68:
            i = r.choice([0, n, max(0, n - 1), r.randint(0, n + 2), 1 << 63])
            self.emit("sy %d %d" % (a, i), "ok %d" % d["d"][i] if i < n else "oob 0", a)
            return True
        if k < 0.71:
            if n == 0:
                return False
            i = r.choice([0, n - 1, r.randrange(n)])
            self.emit("sY %d %d" % (a, i), "byte %d" % d["d"][i], a)
            return True
        if k < 0.76:
            self.emit("sr %d %d" % (a, r.choice([0, 1, n, n + 1, 2 * n + 8, 64, 4096])), "capge 1", a)
            return True
        if k < 0.80:
            if n == 0 and not d["nt"]:
                return False              # known defect (realloc(p, 0) frees the buffer): see DIRECTED_HISTORIES
            self.emit("sh %d" % a, "ok", a)
            return True
        if k < 0.85:
            d["nt"] = True
            self.emit("sz %d" % a, hx(d["d"].split(b"\0")[0]), a)
            return True
        if k < 0.87:
            d["nt"] = True
            self.emit("sZ %d" % a, "ok", a)
            return True
        if k < 0.89:
            self.emit("sB %d" % a, hx(d["d"]), a)
            return True
        if k < 0.93:
            b = r.choice(list(self.s))
            self.emit("se %d %d" % (a, b), "eq %d" % (1 if d["d"] == self.s[b]["d"] else 0), a)
            return True
        if k < 0.96:
            c = d["d"] if (r.random() < 0.5 and b"\0" not in d["d"]) else rand_text(r, allow_nul=False)
            self.emit("sE %d %s" % (a, hx(c)), "eq %d" % (1 if d["d"] == c else 0), a)
            return True
        del self.s[a]
        self.h.x("sf %d" % a, "ok")
        self.count("sf")
        return True

    def run(self):
        self.make()
        guard = 0
        while self.nops - len(self.h.lines) - 2 * len(self.s) - 2 > 0 and guard < self.nops * 5:
            guard += 1
            self.step()
        for a in sorted(self.s):
            self.emit("sd %d" % a, "ok", a)
        for a in sorted(self.s):
            del self.s[a]
            self.h.x("sf %d" % a, "ok")
            self.count("sf")
        return self.ops


# ---- stateless string helpers: nl_cstr_* of the runtime and the helpers nanoc emits into every program ----------------
class CStrGen:
    def __init__(self, r, h, nops):
        self.r = r
        self.h = h
        self.nops = nops
        self.ops = {}

    def emit(self, line, result):
        self.h.x(line, result)
        op = op_of(line)
        key = "%s.%s" % (OPNAMES[op], CONTAINER[op[0]])
        self.ops[key] = self.ops.get(key, 0) + 1
        self.h.elem_kinds.add(CONTAINER[op[0]])

    def run(self):
        r = self.r
        pool = [rand_cstr(r) for _ in range(6)]
        while len(self.h.lines) <= self.nops:
            a = r.choice(pool) if r.random() < 0.7 else rand_cstr(r)
            b = r.choice(pool) if r.random() < 0.6 else rand_cstr(r)
            if r.random() < 0.3 and len(a) > 2:
                st = r.randrange(len(a))
                b = a[st:st + r.randint(1, 4)]
            n = len(a)
            k = r.random()
            if len(a) + len(b) > self.h.maxlen:
                self.h.maxlen = len(a) + len(b)
            if k < 0.10:
                self.emit("cc %s %s" % (hx(a), hx(b)), hx(a + b))
            elif k < 0.24:
                st = r.choice([0, -1, n, n + 1, n // 2, max(0, n - 1), I64_MIN, r.randint(-2, n + 2)])
                ln = r.choice([0, 1, -1, n, n + 1, max(0, n - st), r.randint(0, n + 3), 1 << 62, I64_MIN])
                s0 = max(st, 0)
                res = b"" if (s0 >= n or ln <= 0) else a[s0:s0 + ln]
                self.emit("cs %s %d %d" % (hx(a), st, ln), hx(res))
            elif k < 0.30:
                self.emit("cn %s %s" % (hx(a), hx(b)), "1" if b in a else "0")
            elif k < 0.36:
                self.emit("ci %s %s" % (hx(a), hx(b)), str(a.find(b)))
            elif k < 0.44:
                i = r.choice([0, -1, n, n - 1, n + 1, I64_MAX, I64_MIN, r.randint(-1, n + 1)])
                self.emit("ch %s %d" % (hx(a), i), str(a[i]) if 0 <= i < n else "-1")
            elif k < 0.48:
                self.emit("cl %s" % hx(a), str(n))
            elif k < 0.52:
                c = r.choice([1, 65, 127, 128, 255, r.randint(1, 255)])
                self.emit("cf %d" % c, hx(bytes([c])))
            elif k < 0.62:
                self.emit("pc %s %s" % (hx(a), hx(b)), hx(a + b))
            elif k < 0.76:
                # documented domain of str_substring: start in [0, len], length >= 0; over-long lengths end at the end
                st = r.choice([0, n, n // 2, max(0, n - 1), r.randint(0, n)])
                ln = r.choice([0, 1, n, n + 1, max(0, n - st), r.randint(0, n + 3), 1 << 62] + ([I64_MAX] if st == 0 else []))
                self.emit("ps %s %d %d" % (hx(a), st, ln), hx(a[st:st + ln]))
            elif k < 0.80:
                self.emit("pn %s %s" % (hx(a), hx(b)), "1" if b in a else "0")
            elif k < 0.84:
                b2 = a if r.random() < 0.4 else b
                self.emit("pe %s %s" % (hx(a), hx(b2)), "1" if a == b2 else "0")
            elif k < 0.90:
                v = r.choice(BOUNDARY_INTS) if r.random() < 0.5 else r.randint(-10 ** 9, 10 ** 9)
                self.emit("pi %d" % v, hx(str(v).encode()))
            elif k < 0.94:
                v = r.choice(BOUNDARY_INTS) if r.random() < 0.5 else r.randint(-10 ** 9, 10 ** 9)
                self.emit("pt %s" % hx(str(v).encode()), str(v))
            elif k < 0.98:
                if n == 0:
                    continue
                i = r.choice([0, n - 1, r.randrange(n)])
                self.emit("ph %s %d" % (hx(a), i), str(a[i]))
            else:
                c = r.choice([1, 65, 126, 127, 200, 255])
                self.emit("pf %d" % c, hx(bytes([c])))
        return self.ops


# ---- HashMap<K,V> as nanoc generates it: dict model --------------------------------------------------------------------
class HMGen:
    """slot -> {"t": "ss"|"si"|"is"|"ii", "d": dict}.  Keys come from a small pool so that re-puts, removes of present keys
    and probe-chain collisions are frequent.  Table: 16 slots, open addressing with tombstones, doubled when
    (size + tombstones) reaches 70 %: bursts aim at those boundaries with tombstones present.
    hold=True: what get / keys / values handed out is read again after later operations (strings are values in the
    language: they must not change or die with the map)."""

    def __init__(self, r, h, nops, hold=False):
        self.r = r
        self.h = h
        self.nops = nops
        self.hold = hold
        self.m = {}
        self.held_s = {}       # hold slot -> bytes
        self.held_a = {}       # hold slot -> sorted printed list
        self.ops = {}
        self.skeys = [rand_cstr(r) for _ in range(r.choice([6, 20, 60, 150]))] + [b"", b"a", b"b"]
        self.ikeys = [r.choice(BOUNDARY_INTS) for _ in range(8)] + list(range(r.choice([8, 24, 100]))) + [16 * i for i in range(12)]

    def count(self, op, t):
        key = "%s.hashmap_%s" % (OPNAMES[op], t)
        self.ops[key] = self.ops.get(key, 0) + 1
        self.h.elem_kinds.add("hashmap_" + t)

    def emit(self, line, result, s):
        t = self.m[s]["t"] if s in self.m else "?"
        self.h.x(line, result, " | size=%d" % len(self.m[s]["d"]) if s in self.m else "")
        self.count(op_of(line), t)
        if s in self.m and len(self.m[s]["d"]) > self.h.maxlen:
            self.h.maxlen = len(self.m[s]["d"])

    def key(self, s, present=None):
        """(token, model key) - present=True picks a key of the map when there is one"""
        d = self.m[s]
        r = self.r
        if present and d["d"]:
            k = r.choice(list(d["d"]))
        elif d["t"][0] == "s":
            k = r.choice(self.skeys)
        else:
            k = r.choice(self.ikeys)
        return (hx(k) if d["t"][0] == "s" else str(k)), k

    def val(self, s):
        if self.m[s]["t"][1] == "s":
            b = rand_cstr(self.r)
            return hx(b), b
        v = self.r.choice(BOUNDARY_INTS) if self.r.random() < 0.3 else self.r.randint(-1000, 1000)
        return str(v), v

    def show(self, s, v, which):
        return (hx(v) if self.m[s]["t"][which] == "s" else str(v))

    def sorted_shown(self, s, items, which):
        if self.m[s]["t"][which] == "s":
            return [hx(b) for b in sorted(items)]
        return [str(i) for i in sorted(items)]

    def new(self):
        c = [x for x in range(6) if x not in self.m]
        if not c:
            return False
        s = self.r.choice(c)
        t = self.r.choice(["ss", "ss", "si", "is", "is", "ii"])
        self.m[s] = {"t": t, "d": {}}
        self.emit("hn %d %s" % (s, t), "ok", s)
        return True

    def put(self, s, present=None):
        kt, k = self.key(s, present)
        vt, v = self.val(s)
        self.m[s]["d"][k] = v
        self.emit("hp %d %s %s" % (s, kt, vt), "ok", s)

    def remove(self, s, present=True):
        kt, k = self.key(s, present)
        self.m[s]["d"].pop(k, None)
        self.emit("hr %d %s" % (s, kt), "ok", s)

    def get(self, s, present=True):
        kt, k = self.key(s, present)
        d = self.m[s]
        missing = b"" if d["t"][1] == "s" else 0
        v = d["d"].get(k, missing)
        if self.hold and d["t"][1] == "s" and self.r.random() < 0.5:
            hs = self.r.randrange(8)
            self.held_s[hs] = v
            self.emit("hG %d %s %d" % (s, kt, hs), self.show(s, v, 1), s)
        else:
            self.emit("hg %d %s" % (s, kt), self.show(s, v, 1), s)

    def keys_values(self, s):
        d = self.m[s]
        hs = self.r.randrange(8)
        if self.r.random() < 0.5:
            shown = self.sorted_shown(s, list(d["d"].keys()), 0)
            self.emit("hk %d %d" % (s, hs), "[%s]" % " ".join(shown), s)
        else:
            shown = self.sorted_shown(s, list(d["d"].values()), 1)
            self.emit("hv %d %d" % (s, hs), "[%s]" % " ".join(shown), s)
        self.held_a[hs] = shown

    def reread(self):
        r = self.r
        if self.held_s and r.random() < 0.5:
            hs = r.choice(list(self.held_s))
            self.h.x("hH %d" % hs, hx(self.held_s[hs]))
            self.count("hH", "*")
        elif self.held_a:
            hs = r.choice(list(self.held_a))
            self.h.x("hA %d" % hs, "[%s]" % " ".join(self.held_a[hs]))
            self.count("hA", "*")

    def clear(self, s):
        self.m[s]["d"].clear()
        self.emit("hx %d" % s, "ok", s)

    def free(self, s):
        t = self.m.pop(s)["t"]
        self.h.x("hf %d" % s, "ok")
        self.count("hf", t)

    def room(self):
        return self.nops - len(self.h.lines) - len(self.m) - 9      # closing sequence + the longest unchecked burst step

    def burst(self):
        """the shapes the tombstone handling depends on"""
        r = self.r
        s = r.choice(list(self.m))
        d = self.m[s]["d"]
        k = r.random()
        if k < 0.25:
            # fill towards a growth boundary (12, 23, 45, 90 occupied-or-tombstone slots) with removes on the way
            target = r.choice([11, 12, 13, 22, 23, 24, 45, 46, 90])
            n = 0
            while len(d) < target and self.room() > 2 and n < 140:
                n += 1
                self.put(s, present=False)
                if r.random() < 0.25 and d:
                    self.remove(s)
        elif k < 0.45:
            # remove, then clear (or free) while the tombstones are still there
            for _ in range(r.randint(1, 6)):
                if d and self.room() > 2:
                    self.remove(s)
            if r.random() < 0.7:
                self.clear(s)
                if r.random() < 0.6 and self.room() > 1:
                    self.put(s)
            else:
                self.free(s)
        elif k < 0.65:
            # remove, then put the same key / a different key again
            if d:
                kt, key = self.key(s, True)
                del d[key]
                self.emit("hr %d %s" % (s, kt), "ok", s)
                if r.random() < 0.6:
                    vt, v = self.val(s)
                    d[key] = v
                    self.emit("hp %d %s %s" % (s, kt, vt), "ok", s)
                else:
                    self.put(s, present=False)
                self.get(s, True)
        elif k < 0.85:
            # many removes
            while d and self.room() > 2 and r.random() < 0.9:
                self.remove(s)
        else:
            # clear, then reuse
            self.clear(s)
            for _ in range(r.randint(1, 14)):
                if self.room() > 1:
                    self.put(s, present=False)

    def run(self):
        r = self.r
        self.new()
        guard = 0
        while self.room() > 0 and guard < self.nops * 5:
            guard += 1
            if not self.m or r.random() < 0.03:
                self.new()
                continue
            if r.random() < 0.12:
                self.burst()
                continue
            s = r.choice(list(self.m))
            k = r.random()
            if k < 0.34:
                self.put(s, present=r.random() < 0.35)
            elif k < 0.50:
                self.get(s, present=r.random() < 0.7)
            elif k < 0.58:
                kt, key = self.key(s, r.random() < 0.6)
                self.emit("hh %d %s" % (s, kt), "1" if key in self.m[s]["d"] else "0", s)
            elif k < 0.74:
                self.remove(s, present=r.random() < 0.75)
            elif k < 0.77:
                self.emit("hl %d" % s, str(len(self.m[s]["d"])), s)
            elif k < 0.80:
                self.clear(s)
            elif k < 0.90:
                self.keys_values(s)
            elif k < 0.97:
                if self.hold:
                    self.reread()
            else:
                self.free(s)
        if self.hold:
            for _ in range(3):
                self.reread()
        for s in sorted(self.m):
            self.free(s)
        if self.hold:
            self.reread()
        return self.ops


# ---- the string builder behind to_string -----------------------------------------------------------------------------
class FmtGen:
    """slot -> {"b": bytes, "cap": capacity by the implementation's policy}.  The capacity is followed only to aim appends
    at the exact-fit boundaries (text ending at cap-2 .. cap+1) and to keep the self-append inside what the helper
    supports (no growth while the source is the buffer itself: nothing nanoc generates does that)."""

    def __init__(self, r, h, nops):
        self.r = r
        self.h = h
        self.nops = nops
        self.s = {}
        self.ops = {}

    def emit(self, line, result, s):
        st = ""
        if s in self.s:
            st = " | len=%d fits=1 z=1" % len(self.s[s]["b"])
            if len(self.s[s]["b"]) > self.h.maxlen:
                self.h.maxlen = len(self.s[s]["b"])
        self.h.x(line, result, st)
        key = "%s.fmt_builder" % OPNAMES[op_of(line)]
        self.ops[key] = self.ops.get(key, 0) + 1
        self.h.elem_kinds.add("fmt_builder")

    def grow(self, d, extra):
        need = len(d["b"]) + extra + 1
        if need > d["cap"]:
            c = d["cap"] or 128
            while c < need:
                c *= 2
            d["cap"] = c
            self.ops["append_that_grows.fmt_builder"] = self.ops.get("append_that_grows.fmt_builder", 0) + 1
        elif need == d["cap"]:
            self.ops["append_exact_fit.fmt_builder"] = self.ops.get("append_exact_fit.fmt_builder", 0) + 1

    def run(self):
        r = self.r
        while self.nops - len(self.h.lines) - len(self.s) - 1 > 0:
            if not self.s or (r.random() < 0.04 and len(self.s) < 6):
                t = r.choice([x for x in range(8) if x not in self.s])
                cap = r.choice([0, 1, 2, 4, 16, 128, 256, 256])
                self.s[t] = {"b": b"", "cap": cap or 128}
                self.emit("fn %d %d" % (t, cap), "ok", t)
                continue
            a = r.choice(list(self.s))
            d = self.s[a]
            n = len(d["b"])
            k = r.random()
            if k < 0.45:
                # text that ends right at / around the capacity, else random
                if r.random() < 0.5:
                    want = d["cap"] + r.choice([-2, -1, -1, 0, 0, 1]) - n
                    if want < 0 or want > 3000:
                        want = r.randint(0, 12)
                else:
                    want = r.choice([0, 1, 2, r.randint(0, 40)])
                b = rand_bytes(r, want, "ascii")
                self.grow(d, len(b))
                d["b"] += b
                self.emit("fa %d %s" % (a, hx(b)), "ok", a)
            elif k < 0.70:
                c = r.randint(1, 255)
                self.grow(d, 1)
                d["b"] += bytes([c])
                self.emit("fc %d %d" % (a, c), "ok", a)
            elif k < 0.78:
                if 2 * n + 1 > d["cap"] or n > 3000:
                    continue
                self.grow(d, n)
                d["b"] += d["b"]
                self.emit("fA %d" % a, "ok", a)
            elif k < 0.95:
                self.emit("fb %d" % a, hx(d["b"].split(b"\0")[0]), a)
            else:
                del self.s[a]
                self.emit("ff %d" % a, "ok", a)
        for a in sorted(self.s):
            del self.s[a]
            self.emit("ff %d" % a, "ok", a)
        return self.ops


FAMILIES = [("dyn_array", DAGen, 0.36), ("list", ListGen, 0.12), ("gc", GCGen, 0.16), ("nl_string", StrGen, 0.12), ("cstr", CStrGen, 0.05),
            ("hashmap", HMGen, 0.15), ("fmt_builder", FmtGen, 0.04)]


def history_length(r, maxlen):
    k = r.random()
    if k < 0.15:
        return r.randint(3, 19)
    if k < 0.55:
        return r.randint(20, max(21, maxlen // 4))
    if k < 0.9:
        return r.randint(max(21, maxlen // 4), maxlen)
    return maxlen


def make_history(hid, seed, maxlen, flags=None):
    flags = flags or {}
    r = random.Random(seed)
    k = r.random()
    acc = 0.0
    fam, cls = FAMILIES[0][0], FAMILIES[0][1]
    for name, c, w in FAMILIES:
        acc += w
        if k < acc:
            fam, cls = name, c
            break
    h = Hist(hid, fam)
    n = history_length(r, maxlen)
    if fam == "dyn_array" and r.random() < 0.35:
        g = cls(r, h, n, kinds=r.choice(["s", "a", "t", "i", "f", "sa", "ub", "t", "s"]), flags=flags)     # single-kind histories reach larger sizes
    elif fam == "dyn_array":
        g = cls(r, h, n, flags=flags)
    elif fam == "list":
        g = cls(r, h, n, flags=flags)
    elif fam == "hashmap":
        g = cls(r, h, n, hold=bool(flags.get("hold")))
    else:
        g = cls(r, h, n)
    h.ops = g.run()
    return h


# directed histories: each reproduces one known defect with a short, fixed sequence inside the API's domain.
# (name, family, [(line, expected record without the leading line)])
def _dh(lines):
    return lines


DIRECTED_HISTORIES = {
    # dyn_array_clone() of an inline-struct array copies into a store that was never allocated (elem_size is not copied)
    "clone_struct_array": ["an 0 t", "ap 0 1122334455667788", "ap 0 0102030405060708", "ap 0 a1a2a3a4a5a6a7a8", "ak 1 0", "ad 1", "ad 0"],
    # dyn_array_reserve() on a struct array that does not know its element size yet: realloc(p, 0) frees the store
    "reserve_twice_empty_struct_array": ["an 0 t", "av 0 16", "av 0 2000", "af 0"],
    # elem_size is a uint8_t: a struct of 256 bytes does not fit
    "struct_size_256": ["an 0 t", "ap 0 " + "ab" * 256, "ag 0 0"],
    # gc_mark() reads an inline-struct array as an array of pointers
    "collect_small_struct_array": ["an 0 t", "ap 0 01020304", "ap 0 05060708", "ap 0 090a0b0c", "ap 0 0d0e0f10", "ap 0 11121314", "gc", "ad 0"],
    # gc_struct_set_field() releases the old value before it retains the new one
    "set_field_same_child": ["gn 0 1", "gn 1 0", "gf 0 0 1", "gl 1", "gf 0 0 1", "gq 1", "gg 0 0"],
    # gc_struct_clone() of a struct one of whose fields was never set
    "clone_unset_field": ["gn 0 2", "gi 0 0 5", "gk 1 0", "gg 1 0", "gg 1 1"],
    # nl_string_substring(): start + length wraps around
    "substring_len_wrap": ["sn 0 68656c6c6f", "ss 1 0 1 18446744073709551615"],
    # nl_string_utf8_substring(s, 0, 0) returns the whole string
    "utf8_substring_0_0": ["sn 0 616263", "sv 0", "sU 1 0 0 0"],
    # nl_string_shrink_to_fit() on an empty unterminated string: realloc(p, 0) frees the buffer, the string keeps the pointer
    "shrink_empty": ["sw 0 16", "sh 0", "sr 0 8", "sf 0"],
    # nl_cstr_substring(): start + len overflows
    "cstr_substring_len_max": ["cs 68656c6c6f 1 9223372036854775807"],
    # dyn_array_push_struct(a, dyn_array_get_struct(a, i), size) at length == capacity: the store is realloc'd, then read
    "push_struct_own_element_at_capacity": ["an 0 t"] + ["ap 0 %02x%02x%02x%02x" % (i, i, i, i) for i in range(1, 9)] + ["apA 0 0", "ad 0"],
    # list_string_set(l, i, list_string_get(l, i)): the old string is freed before it is copied
    "list_string_set_own_element": ["mn 0", "mp 0 6162", "mp 0 63", "msA 0 1 1", "md 0"],
    # map_get() hands out the map's own buffer: a later put of the same key (or remove / clear / free) frees it
    "map_get_held_after_put": ["hn 0 ss", "hp 0 61 6f6e65", "hG 0 61 0", "hp 0 61 74776f", "hH 0"],
    # map_keys() / map_values() hand out arrays of the map's own buffers
    "map_keys_held_after_remove": ["hn 0 ss", "hp 0 61 6f6e65", "hp 0 62 74776f", "hk 0 0", "hr 0 61", "hA 0"],
}
# the random hashmap histories read held strings / arrays again only when these cells agree with the model
HOLD_CELLS = ("map_get_held_after_put", "map_keys_held_after_remove")


def directed_expected(name, lines):
    """expected records of a directed history, from the same models (replayed by hand here: tiny)"""
    E = {
        "clone_struct_array": ["ok | len=0", "same | len=1", "same | len=2", "same | len=3", "ok | len=3",
                               "[1122334455667788 0102030405060708 a1a2a3a4a5a6a7a8] | len=3", "[1122334455667788 0102030405060708 a1a2a3a4a5a6a7a8] | len=3"],
        "reserve_twice_empty_struct_array": ["ok | len=0", "ok | len=0", "ok | len=0", "ok"],
        "struct_size_256": ["ok | len=0", "same | len=1", "ab" * 256 + " | len=1"],
        "collect_small_struct_array": ["ok | len=0", "same | len=1", "same | len=2", "same | len=3", "same | len=4", "same | len=5", "ok | live=1",
                                       "[01020304 05060708 090a0b0c 0d0e0f10 11121314] | len=5"],
        "set_field_same_child": ["ok | live=1", "ok | live=2", "ok | live=2", "ok | live=2", "ok | live=2", "live rc=1", "ref @1 | live=2"],
        "clone_unset_field": ["ok | live=1", "ok | live=1", "ok | live=2", "int 5 | live=2", "int 0 | live=2"],
        "substring_len_wrap": ["ok | 68656c6c6f len=5 capok=1 nt=1 z=1", "ok | 656c6c6f len=4 capok=1 nt=0"],
        "utf8_substring_0_0": ["ok | 616263 len=3 capok=1 nt=1 z=1", "valid 1 | 616263 len=3 capok=1 nt=1 z=1", "ok | - len=0 capok=1 nt=0"],
        "shrink_empty": ["ok | - len=0 capok=1 nt=0", "ok | - len=0 capok=1 nt=0", "capge 1 | - len=0 capok=1 nt=0", "ok"],
        "cstr_substring_len_max": ["656c6c6f"],
        "push_struct_own_element_at_capacity": ["ok | len=0"] + ["same | len=%d" % i for i in range(1, 9)] + [
            "same | len=9", "[%s 01010101] | len=9" % " ".join("%02x%02x%02x%02x" % (i, i, i, i) for i in range(1, 9))],
        "list_string_set_own_element": ["ok | len=0", "ok | len=1", "ok | len=2", "ok | len=2", "[6162 63] | len=2"],
        "map_get_held_after_put": ["ok | size=0", "ok | size=1", "6f6e65 | size=1", "ok | size=1", "6f6e65"],
        "map_keys_held_after_remove": ["ok | size=0", "ok | size=1", "ok | size=2", "[61 62] | size=2", "ok | size=1", "[61 62]"],
    }[name]
    h = Hist("d-" + name, "directed")
    for line, e in zip(lines, E):
        if " | len=" in e and line[0] in "alm":
            res, ln = e.rsplit(" | len=", 1)
            h.c(line, res, int(ln))
        else:
            h.lines.append(line)
            h.exp.append(("x", "%s = %s" % (line, e)))
    return h


# failure cells: one out-of-range operation each; the process must end in the defined way and without a memory error
FAILURE_CELLS = {
    "list_int.pop_empty": (["ln 0", "lo 0"], "exit"), "list_int.get_len": (["ln 0", "lp 0 1", "lg 0 1"], "exit"),
    "list_int.get_neg": (["ln 0", "lp 0 1", "lg 0 -1"], "exit"), "list_int.set_len": (["ln 0", "ls 0 0 5"], "exit"),
    "list_int.insert_past": (["ln 0", "li 0 1 5"], "exit"), "list_int.remove_len": (["ln 0", "lp 0 1", "lr 0 1"], "exit"),
    "list_string.pop_empty": (["mn 0", "mo 0"], "exit"), "list_string.get_len": (["mn 0", "mp 0 61", "mg 0 1"], "exit"),
    "list_string.set_neg": (["mn 0", "mp 0 61", "ms 0 -1 62"], "exit"), "list_string.insert_past": (["mn 0", "mi 0 2 61"], "exit"),
    "list_string.remove_len": (["mn 0", "mp 0 61", "mr 0 1"], "exit"),
    "dyn_array.get_len": (["an 0 i", "ap 0 1", "ag 0 1"], "abort"), "dyn_array.get_neg": (["an 0 s", "ap 0 61", "ag 0 -1"], "abort"),
    "dyn_array.set_len": (["an 0 f", "as 0 0 0000000000000000"], "abort"), "dyn_array.remove_empty": (["an 0 b", "ar 0 0"], "abort"),
    "dyn_array.remove_len": (["an 0 a", "an 1 i", "ap 0 1", "ar 0 1"], "abort"), "dyn_array.push_wrong_kind": (["an 0 t", "ap 0 0102", "ap 0 010203"], "abort"),
    "dyn_array.get_struct_len": (["an 0 t", "ap 0 0102", "ag 0 1"], "abort"), "dyn_array.get_struct_neg": (["an 0 t", "ap 0 0102", "ag 0 -1"], "abort"),
    "dyn_array.set_struct_len": (["an 0 t", "ap 0 0102", "as 0 1 0304"], "abort"),
}


def compare_history(h, actual):
    """first disagreement between the expected records and the probe's records: None or (index, class, expected, got)"""
    exp = h.exp
    for i, e in enumerate(exp):
        if i >= len(actual):
            return i, "missing", e[1], None
        got = actual[i]
        if " = moved" in got:
            got = got.replace(" = moved", " = same", 1)
        if e[0] == "x":
            if got != e[1]:
                return i, record_class(e[1], got), e[1], got
        else:
            pre = e[1] + " cap="
            if not got.startswith(pre):
                return i, record_class(e[1], got), e[1], got
            try:
                cap = int(got[len(pre):])
            except ValueError:
                return i, "state", e[1], got
            if cap < e[2]:
                return i, "capacity<length", e[1], got
    if len(actual) > len(exp):
        return len(exp), "extra", None, actual[len(exp)]
    return None


def record_class(exp, got):
    """which part of a record differs: result / length / contents / state"""
    def parts(t):
        head, _, state = t.partition(" | ")
        line, _, res = head.partition(" = ")
        return line, res, state
    el, er, es = parts(exp)
    gl, gr, gs = parts(got)
    if el != gl:
        return "echo"
    if er != gr:
        return "contents" if er.startswith("[") else "result"
    m1 = re.search(r"len=(\d+)", es)
    m2 = re.search(r"len=(\d+)", gs)
    if m1 and m2 and m1.group(1) != m2.group(1):
        return "length"
    if op_of(el)[0] == "s" and es.split(" ")[0:1] != gs.split(" ")[0:1]:
        return "contents"
    return "state"


def model_key(h, line, cls):
    op = op_of(line)
    cont = CONTAINER.get(op[0], "?")
    if op == "gc":
        cont = "gc"
    return "model|%s|%s|%s" % (cont, OPNAMES.get(op, op), cls)


# the trivial program whose generated C the probe includes: it instantiates the four HashMap<K,V> types nanoc supports,
# which makes nanoc emit their runtime (nl_hashmap_<K>_<V>_*) next to the helpers every program carries
TINY_PROGRAM = "".join(
    "fn use_%s() -> int {\n    let m: HashMap<%s, %s> = (map_new)\n    (map_put m %s %s)\n    let n: int = (map_size m)\n    (map_free m)\n    return n\n}\n"
    "shadow use_%s { assert true }\n" % (k[0] + v[0], k, v, '"k"' if k == "string" else "1", '"v"' if v == "string" else "2", k[0] + v[0])
    for k in ("string", "int") for v in ("string", "int")) + \
    'fn main() -> int {\n    (println "tiny")\n    return 0\n}\nshadow main { assert true }\n'


def build_hist_probe(ctx, sc, asan):
    """Build probes/rt_hist_probe.c the way nanoc builds a program: same wrapper, same flags, same runtime objects.
    Returns (path of the binary, the command line)."""
    d = sc.sub("histprobe")
    engines.write_files(d, {"tiny.nano": TINY_PROGRAM})
    env = asan.fastcc_env({"TMPDIR": d})
    r = sh([asan.nanoc, "tiny.nano", "-o", "tiny.bin", "--keep-c", "--verbose"], cwd=d, env=env, cpu=120, san=True)
    m = re.search(r"^Compiling C code: (.*)$", r.text() + "\n" + r.errtext(), re.M)
    ctx.require(r.rc == 0 and m is not None and os.path.exists(os.path.join(d, "tiny.bin.c")),
                "could not obtain nanoc's C compiler command line / generated C for the history probe: rc=%s %s" % (r.rc, r.errtext()[-300:]))
    args = shlex.split(m.group(1))
    src = os.path.join(build.VERIF, "probes", "rt_hist_probe.c")
    engines.write_files(d, {"hist_main.c": '#define main nlv_prelude_main\n#include "%s"\n#undef main\n#define NLV_HAVE_PRELUDE 1\n#define NLV_HAVE_HASHMAPS 1\n#include "%s"\n'
                                           % (os.path.join(d, "tiny.bin.c"), src)})
    out = []
    skip = False
    replaced = False
    for a in args[1:]:
        if skip:
            skip = False
            out.append("hist.bin")
            continue
        if a == "-o":
            skip = True
            out.append(a)
            continue
        if a.endswith(".c") and "tiny.bin" in os.path.basename(a):
            out.append("hist_main.c")
            replaced = True
            continue
        out.append(a)
    ctx.require(replaced, "nanoc's compiler command line has an unexpected shape: %s" % m.group(1)[:300])
    r2 = sh([args[0]] + out, cwd=d, env=env, cpu=300)
    binp = os.path.join(d, "hist.bin")
    ctx.require(r2.rc == 0 and os.path.exists(binp), "history probe failed to build: %s" % r2.errtext()[-1500:])
    return binp, " ".join([args[0]] + out)


def run_probe(binp, text, cwd):
    return sh([binp], cwd=cwd, stdin=text.encode(), cpu=120, san=True, max_out=256 << 20)


def judge_batch(binp, cwd, hists):
    """run histories in one process (again from the next history on when the process ended early).
    Returns [(history, verdict)] with verdict None (agrees) or dict(key, what, files)."""
    out = []
    todo = list(hists)
    while todo:
        text = "".join("\n".join(h.lines) + "\n" for h in todo)
        r = run_probe(binp, text, cwd)
        if r.timeout:
            r = run_probe(binp, text, cwd)
            if r.timeout:
                for h in todo:
                    out.append((h, {"inconclusive": "watchdog"}))
                return out
        lines = r.text().split("\n")
        if lines and lines[-1] == "":
            lines.pop()
        elif lines and " = " not in lines[-1]:
            lines.pop()                 # exit() inside an operation flushed the echo of the line without a result
        pos = 0
        died_at = None
        for hi, h in enumerate(todo):
            n = len(h.exp)
            actual = lines[pos:pos + n]
            last = (pos + n >= len(lines))
            # records of this history: up to the next history header
            complete = len(actual) == n
            diff = compare_history(h, actual if complete else actual)
            if diff is None:
                out.append((h, None))
                pos += n
                continue
            idx, cls, e, got = diff
            line = h.lines[idx] if idx < len(h.lines) else "?"
            files = {"history.txt": "\n".join(h.lines) + "\n", "expected.txt": "\n".join(x[1] for x in h.exp) + "\n",
                     "observed.txt": "\n".join(actual) + "\n", "stderr.txt": r.err[-20000:]}
            if cls == "missing" and last:
                # the process ended while executing h.lines[idx]
                sig = report_signature(r.errtext())
                if sig is not None and sig[0] != "ABRT":
                    v = {"key": san_key(sig), "what": "history %s (%s): sanitizer report %s in %s while executing `%s`\n%s"
                         % (h.hid, h.family, sig[0], ",".join(sig[1]), line, (r.sanitizer_report() or "")[:1500]), "files": files}
                elif sig is not None or r.sig == 6:
                    v = {"key": model_key(h, line, abort_class(r.errtext())), "what": "history %s (%s): the runtime aborted (%s) while executing `%s`, "
                         "which the model completes" % (h.hid, h.family, abort_class(r.errtext()), line), "files": files}
                elif r.sig:
                    v = {"key": "san|signal-%d|%s" % (r.sig, OPNAMES.get(op_of(line), "?")), "what": "history %s: killed by signal %d while executing `%s`"
                         % (h.hid, r.sig, line), "files": files}
                else:
                    v = {"key": model_key(h, line, "exit"), "what": "history %s (%s): the process ended (exit %s: %s) while executing `%s`, which the "
                         "model completes" % (h.hid, h.family, r.rc, r.errtext().strip()[-120:], line), "files": files}
                out.append((h, v))
                died_at = hi
                break
            v = {"key": model_key(h, line, cls), "what": "history %s (%s), step %d `%s`: %s differs\n  model:    %s\n  observed: %s"
                 % (h.hid, h.family, idx, line, cls, e, got), "files": files}
            out.append((h, v))
            # resynchronise on the next history header
            nxt = None
            if hi + 1 < len(todo):
                want = "H %s = start" % todo[hi + 1].hid
                for j in range(pos, len(lines)):
                    if lines[j] == want:
                        nxt = j
                        break
            if nxt is None:
                died_at = hi
                break
            pos = nxt
        if died_at is None:
            break
        todo = todo[died_at + 1:]
    return out


def _hist_worker(args):
    binp, cwd, items, maxlen, flags = args
    hists = [make_history(hid, seed, maxlen, flags) for hid, seed in items]
    res = judge_batch(binp, cwd, hists)
    summary = {"ops": {}, "families": {}, "kinds": {}, "maxlen": {}, "hashes": [], "steps": 0, "verdicts": [], "inconclusive": 0, "sample": None}
    for h, v in res:
        summary["families"][h.family] = summary["families"].get(h.family, 0) + 1
        for k, n in h.ops.items():
            summary["ops"][k] = summary["ops"].get(k, 0) + n
        for k in h.elem_kinds:
            summary["kinds"][k] = summary["kinds"].get(k, 0) + 1
        summary["steps"] += len(h.lines) - 1
        if h.maxlen > summary["maxlen"].get(h.family, -1):
            summary["maxlen"][h.family] = h.maxlen
        if len(h.lines) - 1 >= 20 and v is None:
            summary["hashes"].append(h.digest())
        if v is not None:
            if "inconclusive" in v:
                summary["inconclusive"] += 1
            else:
                summary["verdicts"].append((v["key"], v["what"], v["files"]))
        elif summary["sample"] is None and 8 <= len(h.lines) <= 40:
            summary["sample"] = {"history": h.hid, "family": h.family, "records": [e[1] for e in h.exp[:14]]}
    return summary


def run_histories(ctx, sc, binp, n, maxlen, cov, flags=None):
    flags = flags or {}
    import concurrent.futures as cf
    per = 25 if maxlen <= 200 else 40
    items = [("%06d" % i, ctx.rng("hist", i).getrandbits(64)) for i in range(n)]
    batches = [items[i:i + per] for i in range(0, n, per)]
    cwd = sc.sub("histrun")
    tot = {"ops": {}, "families": {}, "kinds": {}, "maxlen": {}, "steps": 0, "inconclusive": 0}
    hashes = set()
    samples = []
    with cf.ProcessPoolExecutor(max_workers=min(16, os.cpu_count() or 4)) as ex:
        for s in ex.map(_hist_worker, [(binp, cwd, b, maxlen, flags) for b in batches], chunksize=1):
            for k in ("ops", "families", "kinds"):
                for a, b in s[k].items():
                    tot[k][a] = tot[k].get(a, 0) + b
            tot["steps"] += s["steps"]
            tot["inconclusive"] += s["inconclusive"]
            for a, b in s["maxlen"].items():
                tot["maxlen"][a] = max(tot["maxlen"].get(a, 0), b)
            hashes.update(s["hashes"])
            if s["sample"] and len(samples) < 3 and all(x["family"] != s["sample"]["family"] for x in samples):
                samples.append(s["sample"])
            for key, what, files in s["verdicts"]:
                ctx.violation(key, what, files)
    cov["histories"] = n
    cov["history_switches"] = dict(flags)     # shapes bound to an open finding are generated only once its directed cell agrees
    cov["history_steps"] = tot["steps"]
    cov["histories_by_family"] = tot["families"]
    cov["history_operations_by_kind_and_element"] = dict(sorted(tot["ops"].items()))
    cov["histories_touching_element_kind"] = tot["kinds"]
    cov["max_length_reached"] = tot["maxlen"]      # elements (dyn_array, list), bytes (nl_string, cstr)
    cov["histories_inconclusive_watchdog"] = tot["inconclusive"]
    return hashes, samples


def run_directed_histories(ctx, sc, binp, cov):
    cwd = sc.sub("histrun")
    out = {}
    for name, lines in sorted(DIRECTED_HISTORIES.items()):
        h = directed_expected(name, lines)
        h.ops = {}
        (h2, v), = judge_batch(binp, cwd, [h])[:1]
        if v is None:
            out[name] = "agrees"
        elif "inconclusive" in v:
            out[name] = "inconclusive"
        else:
            key = v["key"] + "@" + name          # a directed cell is one cause: the same signature elsewhere is news
            out[name] = key
            ctx.violation(key, "directed history %s: %s" % (name, v["what"]), v["files"])
    cov["directed_histories"] = out


def run_failure_cells(ctx, sc, binp, cov):
    """one out-of-range operation per process: the defined failure (exit(1) + message, or the runtime's assert), never a
    memory error"""
    cwd = sc.sub("histrun")
    out = {}
    for name, (lines, how) in sorted(FAILURE_CELLS.items()):
        text = "H f\n" + "\n".join(lines) + "\n"
        r = run_probe(binp, text, cwd)
        got = r.text().split("\n")
        sig = report_signature(r.errtext())
        files = {"history.txt": text, "observed.txt": r.out, "stderr.txt": r.err[-8000:]}
        reached = len([g for g in got if " = " in g]) == len(lines)         # header + all but the failing operation
        if sig is not None and sig[0] != "ABRT":
            out[name] = "sanitizer-report"
            ctx.violation(san_key(sig), "failure cell %s: sanitizer report %s in %s\n%s" % (name, sig[0], ",".join(sig[1]), (r.sanitizer_report() or "")[:1200]), files)
        elif how == "exit" and r.rc == 1 and reached and "Error:" in r.errtext():
            out[name] = "exit(1)+message"
        elif how == "abort" and (r.sig == 6 or (sig is not None and sig[0] == "ABRT")) and reached and \
                ("Assertion" in r.errtext() or "Index out of bounds" in r.errtext()):
            out[name] = "assert" if "Assertion" in r.errtext() else "message+abort"
        else:
            out[name] = "unexpected rc=%s sig=%s" % (r.rc, r.sig)
            ctx.violation("model|failure-cell|%s|not-the-defined-failure" % name,
                          "failure cell %s: expected %s at the last operation; got rc=%s sig=%s, %d records, stderr %r"
                          % (name, how, r.rc, r.sig, len([g for g in got if g]), r.errtext()[-200:]), files)
    cov["failure_cells"] = out


# ======================================================================================================================
# the check
# ======================================================================================================================
def run(ctx):
    import time
    asan = build.get("asan")
    cov = {}
    phases = {}
    t0 = [time.time()]

    def lap(name):
        phases[name] = round(time.time() - t0[0], 1)
        t0[0] = time.time()
    with Scratch("c20") as sc:
        # ---- part 1: programs ---------------------------------------------------------------------------------------
        n_prog = ctx.n(120, 3000)
        n_tpl = n_prog // 4
        run_directed_programs(ctx, sc, asan, cov)
        pflags = {"alias_grow_prog": cov["directed_programs"].get("array_push_own_struct_at_capacity") == "clean+equal"}
        cov["program_switches"] = pflags
        progs, n_generated = gen_programs(ctx, n_prog - n_tpl, n_tpl, pflags)
        lap("generate_programs")
        ctx.require(len(progs) >= n_prog * 0.75, "too few in-zone programs: %d of %d (generator produced %d candidates)" % (len(progs), n_prog, n_generated))
        hist, fsets, psamples = run_programs(ctx, sc, asan, progs, cov)
        cov["program_candidates_generated"] = n_generated
        lap("run_programs")
        n_census_clean = run_census(ctx, sc, asan, cov)
        lap("census+directed_programs")
        # ---- part 2: histories --------------------------------------------------------------------------------------
        binp, cmdline = build_hist_probe(ctx, sc, asan)
        cov["history_probe_build"] = cmdline[:400]
        lap("build_history_probe")
        run_failure_cells(ctx, sc, binp, cov)
        run_directed_histories(ctx, sc, binp, cov)
        lap("cells")
        n_hist = ctx.n(2000, 200000)
        maxlen = ctx.n(200, 1000)
        dh = cov["directed_histories"]
        flags = {"hold": all(dh.get(c) == "agrees" for c in HOLD_CELLS),
                 "alias_grow": dh.get("push_struct_own_element_at_capacity") == "agrees",
                 "set_self": dh.get("list_string_set_own_element") == "agrees"}
        hashes, hsamples = run_histories(ctx, sc, binp, n_hist, maxlen, cov, flags=flags)
        lap("histories")
        cov["phase_seconds"] = phases
        if not ctx.violations:
            ran = hist.get("clean+equal", 0) + hist.get("sanitizer-report", 0) + hist.get("behaviour-differs", 0)
            ctx.require(ran >= len(progs) * 0.7, "too few programs were built and run natively: %s" % hist)
            ctx.require(hist.get("inconclusive:watchdog", 0) <= len(progs) * 0.05, "too many watchdog timeouts: %s" % hist)
            ctx.require(n_census_clean >= 40, "too few census cells ran natively (%d)" % n_census_clean)
            ctx.require(cov["histories_inconclusive_watchdog"] <= n_hist * 0.02, "too many history batches hit the watchdog")
            ctx.require(len(hashes) >= n_hist * 0.5, "too few distinct non-trivial histories agreed with the model (%d of %d)" % (len(hashes), n_hist))
            ctx.require(len(cov["histories_touching_element_kind"]) >= 16, "element kinds reached: %s" % sorted(cov["histories_touching_element_kind"]))
    cov.update({
        "evaluations": len(progs) + n_hist + len(cov["census_sanitizer"]) + len(FAILURE_CELLS) + len(DIRECTED_HISTORIES) + len(DIRECTED_PROGRAMS),
        "distinct_nontrivial": len(hashes) + len(fsets),
        "rule": "histories: distinct SHA-256 of the operation text among histories with >= 20 operations whose every record agreed with the "
                "model; programs: distinct feature-tag sets among programs that ran sanitizer-clean with >= 8 output lines equal to the "
                "reference model; the two counts are added",
        "distinct_histories": len(hashes),
        "distinct_program_feature_sets": len(fsets),
        "signed_overflow_policy": "generated arithmetic stays inside int64 (the reference model discards overflowing programs); the census cell "
                                  "int_overflow_wrap is excluded: C20 asserts nothing about overflow of user arithmetic either way",
        "samples": psamples[:3] + hsamples,
    })
    return ctx.finish(cov, assumptions=[
        "programs are accepted by the reference evaluator first (no partial operation, no int64 overflow, inside the limits); the generator's "
        "switches bound to defects of the evaluator / C compilation stay off, those bound to VM-only defects are on",
        "fastcc links objects compiled once per flavor from the repository's own runtime sources with the flags nanoc passes plus "
        "-fsanitize=address,undefined -fno-sanitize-recover=all; the history probe is built by the same command line",
        "histories stay inside the API's domain (valid indices, live objects, the caller owns a reference to what it passes); out-of-range "
        "operations end the process by design and appear only as single failure cells",
        "the is_utf8 flag of an nl_string is modelled only where header and code agree (after validate, from_utf8, with_capacity)",
        "capacity growth is not modelled: only length <= capacity, and that the claimed capacity is addressable (ASan)",
        "leaks are not reported (detect_leaks=0): generated programs never release strings/arrays, which is memory-safe",
    ])


def replay(ctx, path):
    """./check C20 --replay <dir|file>: a replay directory with history.txt, a findings/C20/*.hist file, or a directory /
    file with a .nano program.  Prints what the real code does (records, stderr); exit 1 when a sanitizer reports."""
    asan = build.get("asan")
    with Scratch("c20r") as sc:
        hist = None
        prog = None
        if os.path.isdir(path):
            for cand in ("history.txt",):
                if os.path.exists(os.path.join(path, cand)):
                    hist = os.path.join(path, cand)
            for cand in ("original/main.nano", "main.nano"):
                if os.path.exists(os.path.join(path, cand)):
                    prog = os.path.dirname(os.path.join(path, cand))
        elif path.endswith(".nano"):
            prog = path
        else:
            hist = path
        rc = 0
        if hist:
            binp, _ = build_hist_probe(ctx, sc, asan)
            r = run_probe(binp, open(hist).read(), sc.path)
            print(r.text())
            print("--- stderr (exit %s, signal %s)" % (r.rc, r.sig))
            print(r.errtext()[-3000:])
            sig = report_signature(r.errtext())
            if sig and sig[0] != "ABRT":
                print("VIOLATION property=C20 replay=%s\n  key: %s" % (path, san_key(sig)))
                rc = 1
        if prog:
            d = sc.sub("prog")
            if os.path.isdir(prog):
                for fn in os.listdir(prog):
                    shutil.copy(os.path.join(prog, fn), d)
            else:
                shutil.copy(prog, os.path.join(d, "main.nano"))
            nr, built = engines.build_native(asan, d, san=True)
            if not built:
                print("nanoc did not build the program:\n" + nr.errtext()[-1500:])
                return 2
            r = engines.run_native(d, san=True)
            print(r.text())
            print("--- stderr (exit %s, signal %s)" % (r.rc, r.sig))
            print(r.errtext()[-3000:])
            sig = report_signature(r.errtext())
            if sig and sig[0] != "ABRT":
                print("VIOLATION property=C20 replay=%s\n  key: %s" % (path, san_key(sig)))
                rc = 1
        return rc
