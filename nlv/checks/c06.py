"""C06 - shadow tests gate compilation (DESIGN §4 C06).

E: the reference truth values T(p) of the assertions EXECUTED by the shadow blocks contain a `false` and nanoc
   exits 0 / leaves a file at -o / does not print "Shadow test '<f>' FAILED" for a block that executed a false
   assertion; or all are true (program otherwise valid) and no executable appears; or a non-main function
   without a shadow block is not named in a "Function '<f>' is missing a shadow test" diagnostic.
O: T(p) comes from the reference model only (nlv/gen/ref.py, run with "record and continue" semantics for
   `assert`, which is what nanoc's evaluator does inside shadow blocks: eval.c AST_ASSERT).  The perturbation
   below only proposes programs; what a program is expected to do is read off the model after the perturbation.
   Observed: nanoc's exit status, stdout ("Shadow test '<f>' FAILED"), stderr (missing-shadow warnings), the
   -o path (removed before each run).
W: generator programs (conservative features of C03) whose shadow assertions are `(== call literal)`; the expected
   literal of none / one / several assertions is changed; the assertion is left plain or moved into a `for`
   loop, a `while` loop, one iteration of a loop, a taken `if`, an `else` branch, an UNTAKEN `if` (false
   assertion that is never executed), or into a helper function called from the block; block position first /
   middle / last / main's own block; assertion position first / last; k functions lose their shadow block.
   Multi-file programs: the same with the assertion in the imported module's block (known finding), in the
   main module's block, and missing shadow blocks in the imported module.
   Stale output: the -o path already holds a file when nanoc is run on a program with a false assertion (an earlier
   successful build of the same program with true assertions / an unrelated executable script / an empty file /
   a non-executable text file).  Reading of "leaves no executable at the output path": after a compile refused
   because of a shadow test there is no regular file with any execute bit at the path.  The empty and the text
   file (mode 0644) are the controls against over-claiming: whether nanoc keeps or removes them is recorded, never
   judged.  Counter-control: with all assertions true a stale executable at the path is replaced by the new build.
   Builtin coverage (both tiers, full list): for every documented pure builtin a function whose BODY calls it with a
   false assertion in its block, a block that ITSELF calls it next to a false assertion, the all-true variants (must
   build) and a function calling it WITHOUT a block (must be reported); expectations from a hand-written table.
   Name dimension of the reporting clause (both tiers, full list): un-shadowed functions whose names are prefixes /
   extensions / case variants of the names the type checker treats specially (main, extern-looking names, builtin
   names and the prefixes list_ List_ map_ ...), very long names, and pairs of names that differ only after
   4/8/16/31/32/63/64 characters (one with, one without a block); alone and among shadowed functions, first / last in
   the file, in the main file and in an imported module.  Oracle: every un-shadowed one is named in a "missing a
   shadow test" report; functions WITH a block, extern declarations and `main` are not.
   Control-flow grid (both tiers, full grid; truth values from the reference model): loop kind {while, for-range,
   for-in-array, while inside for, for inside while} x exit {runs to end, break, continue, return} x iteration {first,
   middle, last} x what follows {statements after the loop, loop last in its block, loop + statements inside an if arm /
   else arm / match arm} x {all assertions true, first assertion false, last assertion false}, for functions called from
   the shadow block and for loops written directly inside the shadow block.
   Several shadow blocks for ONE function (2 or 3; adjacent, interleaved with another function's blocks, around other
   definitions) with the false assertion in the first / middle / last block or none.
   Output names x history: a good build to -o NAME, then a build with a false assertion to the same NAME, for NAME a prefix
   of the source name, the source name without extension, ./-prefixed, source name + suffix, unrelated, in a sub-directory,
   absolute; afterwards there must be no executable at NAME (same reading as the stale-output family).
"""
import copy
import os
import re
import stat

from .. import build, engines, sweep
from ..core import VERIF
from ..gen import ast as A
from ..gen import gen
from ..gen.ref import Interp, Fault, Budget, Env, _Break, _Continue
from ..run import pmap, Scratch
from .c03 import SWEEP_FEATURES as C03_FEATURES

LEVEL = "exploration"
# the conservative feature set of C03's sweep (constructs on which nanoc's evaluator is known to disagree stay out);
# multi-file programs are part of the sweep, and a dedicated multi-file part puts the assertion into the imported block
SWEEP_FEATURES = dict(C03_FEATURES)
FIND = os.path.join(VERIF, "findings", "C06")

K_IMPORTED = "imported-module-block-not-gating"
K_STALE = "stale-executable-left-at-output-path"
STALE_SCRIPT = "#!/bin/sh\necho stale-unrelated-executable\n"
STALE_TEXT = "notes kept by the user at the output path; not a program\n"
STALE_VARIANTS = ["earlier-build", "unrelated-executable", "empty-file", "text-file", "all-true-overwrites"]

FAILED_RE = re.compile(r"Shadow test '([^']*)' FAILED: (\d+) assertion\(s\) failed")
MISSING_RE = re.compile(r"Function '([^']*)' is missing a shadow test")

WRAPS = ["plain", "plain", "for-all", "while-all", "loop-one-iteration", "if-taken", "if-else", "helper", "helper-loop"]


# =====================================================================================================
# reference truth values
# =====================================================================================================
class ContInterp(Interp):
    """reference model with the documented shadow-block behaviour of `assert`: a false assertion is recorded and
    evaluation goes on (src/eval.c AST_ASSERT under g_in_shadow_tests); ref.Interp stops the block instead, which
    gives the same answer to "is there a false one" but not the list of all executed assertions"""

    def st(self, x, env):
        if x[0] == "assert":
            self.tick()
            self.asserts.append(bool(self.ev(x[1], env)))
            return
        if x[0] == "forin":
            # for <var> in <array>: the elements in index order
            self.tick()
            for v in list(self.ev(x[2], env)):
                env.push()
                try:
                    env.declare(x[1], v, False)
                    self.block(x[3], env, new_scope=False)
                except _Break:
                    break
                except _Continue:
                    pass
                finally:
                    env.pop()
                self.tick()
            return
        Interp.st(self, x, env)


class ForInPrinter(A.Printer):
    def s(self, x, ind):
        if x[0] == "forin":
            p = "    " * ind
            return ["%sfor %s in %s {" % (p, x[1], self.e(x[2]))] + self.block(x[3], ind + 1) + ["%s}" % p]
        return A.Printer.s(self, x, ind)


def truth(prog):
    """{function: [truth values of the assertions its shadow block executes]} in file order, or None when the
    program leaves the model's defined zone"""
    out = {}
    try:
        for f in prog.all_funcs():
            if f.shadow is None:
                continue
            it = ContInterp(prog, max_steps=400000)
            so, asserts, fault = it.run_shadow(f)
            if fault is not None or it.overflowed:
                return None
            out[f.name] = list(asserts)
    except (Fault, Budget, RecursionError, KeyError, TypeError, IndexError):
        return None
    return out


def block_order(prog):
    """names of the functions with a shadow block in the order nanoc meets them (imported modules are separate
    files; within the main file the order of the items)"""
    return [f.name for f in prog.main.funcs if f.shadow is not None]


# =====================================================================================================
# perturbation
# =====================================================================================================
def wrong(expect, r):
    k, v = expect
    if k == "int":
        d = r.choice([1, -1, 1, 7, -13, 100])
        w = v + d
        if r.random() < 0.15 and v != 0:
            w = -v
        if r.random() < 0.1:
            w = 0 if v != 0 else 1
        return ("int", w)
    if k == "bool":
        return ("bool", not v)
    c = r.choice(["x", "", "cut", "case"])
    if c == "x" or (c in ("cut", "case") and not v):
        return ("str", v + "x")
    if c == "":
        return ("str", "") if v else ("str", " ")
    if c == "cut":
        return ("str", v[:-1])
    sw = v.swapcase()
    return ("str", sw if sw != v else v + "_")


def eq_asserts(f):
    """indices of the statements `assert (== call literal)` in f's shadow block"""
    out = []
    for i, s in enumerate(f.shadow or []):
        if s[0] == "assert" and s[1][0] == "bin" and s[1][1] == "==" and s[1][2][0] == "call" and s[1][3][0] in ("int", "bool", "str"):
            out.append(i)
    return out


def lit_type(e):
    return {"int": "int", "bool": "bool", "str": "string"}[e[0]]


class Perturber:
    def __init__(self, prog, r):
        self.prog = prog
        self.r = r
        self.n = 0
        self.new_funcs = []      # (anchor function name, Func, before?)

    def fresh(self, p):
        self.n += 1
        return "%s_%d" % (p, self.n)

    def wrap(self, kind, call, good, bad):
        """statements replacing `assert (== call good)`; bad is the falsified literal or None (keep it true).
        Returns (stmts, class label).  With bad=None the same shapes are produced with true assertions."""
        r = self.r
        lit = bad if bad is not None else good
        a_bad = ("assert", ("bin", "==", call, lit))
        a_good = ("assert", ("bin", "==", call, good))
        if kind == "plain":
            return [a_bad], "plain"
        if kind == "for-all":
            i = self.fresh("i")
            lo = r.randint(-1, 2)
            return [("for", i, ("int", lo), ("int", lo + r.randint(1, 4)), [a_bad])], "for-all"
        if kind == "while-all":
            c = self.fresh("w")
            return [("let", c, "int", True, ("int", 0)),
                    ("while", ("bin", "<", ("var", c), ("int", r.randint(1, 4))),
                     [("set", c, ("bin", "+", ("var", c), ("int", 1))), a_bad])], "while-all"
        if kind == "loop-one-iteration":
            i = self.fresh("i")
            n = r.randint(2, 5)
            j = r.choice([0, n - 1, r.randrange(n)])
            return [("for", i, ("int", 0), ("int", n),
                     [("if", ("bin", "==", ("var", i), ("int", j)), [a_bad], [a_good])])], "loop-one-iteration"
        if kind == "if-taken":
            return [("if", ("bin", "==", call, good), [a_bad], None)], "if-taken"
        if kind == "if-else":
            # the condition is false, the assertion sits in the else branch
            return [("if", ("bin", "!=", call, good), [a_good], [a_bad])], "if-else"
        if kind == "if-untaken":
            # a false assertion that is never executed
            return [("if", ("bin", "!=", call, good), [a_bad], None), a_good], "if-untaken"
        if kind in ("helper", "helper-loop"):
            t = lit_type(good)
            name = self.fresh("chk")
            body = [("assert", ("bin", "==", ("var", "v"), lit))]
            if kind == "helper-loop":
                i = self.fresh("i")
                body = [("for", i, ("int", 0), ("int", r.randint(1, 3)), body)]
            hf = A.Func(name, [("v", t)], "void", body, shadow=[("assert", ("bool", True))])
            self.new_funcs.append(hf)
            return [("expr", ("call", name, [call]))], kind
        raise ValueError(kind)

    def place_helpers(self):
        m = self.prog.main
        for hf in self.new_funcs:
            # before main (always the last function), at a random place among the others
            pos = self.r.randint(0, len(m.funcs) - 1)
            m.funcs.insert(pos, hf)


def perturb(prog, r, plan):
    """plan: dict(count=0|1|k, untaken=bool, missing=n, block='first'|'middle'|'last'|'main'|'any',
    apos='first'|'last'|'any', wrap=<kind or None for random>, module=None|'imported'|'main').
    Returns (program, intent) or None when the program offers no suitable assertion."""
    p = copy.deepcopy(prog)
    pb = Perturber(p, r)
    main_fn = [f for f in p.main.funcs if f.name == "main"][0]
    if plan.get("module") == "imported":
        pool = [f for m in p.modules for f in m.funcs if eq_asserts(f)]
    else:
        pool = [f for f in p.main.funcs if eq_asserts(f)]
    if not pool:
        return None
    targets = []           # (Func, stmt index, wrap kind, falsify?)
    count = plan["count"]
    nfalse = 0 if count == 0 else 1 if count == 1 else r.randint(2, 4)
    # where
    blocks = list(pool)
    chosen_block_class = plan.get("block", "any")

    def pick_block():
        if chosen_block_class == "first":
            return blocks[0]
        if chosen_block_class == "last":
            return blocks[-1]
        if chosen_block_class == "middle" and len(blocks) >= 3:
            return blocks[r.randint(1, len(blocks) - 2)]
        return r.choice(blocks)

    used = set()
    for k in range(max(nfalse, 1)):
        f = pick_block() if k == 0 else r.choice(blocks)
        idxs = eq_asserts(f)
        ap = plan.get("apos", "any")
        i = idxs[0] if ap == "first" else idxs[-1] if ap == "last" else r.choice(idxs)
        if (f.name, i) in used:
            continue
        used.add((f.name, i))
        w = plan.get("wrap") or r.choice(WRAPS)
        if plan.get("untaken") and k == 0:
            w = "if-untaken"
        apos = "only" if len(idxs) == 1 else "first" if i == idxs[0] else "last" if i == idxs[-1] else "middle"
        targets.append((f, i, w, nfalse > 0 or w == "if-untaken", apos))
    # a few TRUE assertions get the same wrappers, so that nesting also occurs in programs that must build
    for f in pool:
        for i in eq_asserts(f):
            if (f.name, i) not in used and r.random() < 0.25:
                used.add((f.name, i))
                targets.append((f, i, r.choice(WRAPS[2:]), False, "-"))
    classes = []
    # apply from the highest index down so that indices stay valid
    for f, i, w, falsify, apos in sorted(targets, key=lambda t: (t[0].name, -t[1])):
        s = f.shadow[i]
        call, good = s[1][2], s[1][3]
        bad = wrong(good, r) if falsify else None
        if w in ("helper", "helper-loop") and plan.get("module") == "imported":
            w = "for-all"
        if chosen_block_class == "main" and falsify and not plan.get("module"):
            # the falsified assertion goes into main's own block (the last shadow block of the file); the
            # original stays where it was
            stmts, cls = pb.wrap(w, call, good, bad)
            main_fn.shadow = list(main_fn.shadow) + stmts
            classes.append((cls, "main", "last", lit_type(good)))
            continue
        stmts, cls = pb.wrap(w, call, good, bad)
        f.shadow[i:i + 1] = stmts
        if falsify:
            bpos = "only" if len(blocks) == 1 else "first" if f is blocks[0] else "last" if f is blocks[-1] else "middle"
            if plan.get("module") == "imported":
                bpos = "imported"
            classes.append((cls, bpos, apos, lit_type(good)))
    pb.place_helpers()
    # functions losing their shadow block
    removed = []
    cands = [f for f in p.all_funcs() if f.name != "main" and f.shadow is not None]
    if plan.get("missing_in") == "imported":
        cands = [f for m in p.modules for f in m.funcs if f.shadow is not None]
    r.shuffle(cands)
    protect = set(t[0].name for t in targets if t[3])
    for f in cands:
        if len(removed) >= plan.get("missing", 0):
            break
        if f.name in protect and not plan.get("remove_target"):
            continue
        f.shadow = None
        removed.append(f.name)
    return p, {"classes": sorted(set(classes)), "nfalse_intended": nfalse, "removed": removed}


PLANS = [
    # (weight, plan)
    (14, dict(count=0, missing=0)),
    (6, dict(count=0, missing=2)),
    (5, dict(count=0, untaken=True, missing=0)),
    (8, dict(count=1, block="first", apos="first", missing=0)),
    (8, dict(count=1, block="first", apos="last", missing=0)),
    (8, dict(count=1, block="middle", apos="any", missing=0)),
    (8, dict(count=1, block="last", apos="first", missing=0)),
    (8, dict(count=1, block="last", apos="last", missing=1)),
    (6, dict(count=1, block="main", missing=0)),
    (5, dict(count=1, block="any", wrap="helper", missing=0)),
    (5, dict(count=1, block="any", wrap="loop-one-iteration", missing=0)),
    (4, dict(count=1, block="any", wrap="if-else", missing=1)),
    (10, dict(count="k", block="any", missing=0)),
    (4, dict(count="k", block="first", missing=2)),
    (3, dict(count=1, block="any", missing=3, remove_target=True)),
]


def pick_plan(r):
    tot = sum(w for w, _ in PLANS)
    x = r.random() * tot
    for w, pl in PLANS:
        x -= w
        if x < 0:
            return dict(pl)
    return dict(PLANS[0][1])


# =====================================================================================================
# the witness of the known finding (also written to findings/C06 by write_witnesses)
# =====================================================================================================
WIT_M1 = """pub fn twice(x: int) -> int {
    return (* x 2)
}
shadow twice {
    assert (== (twice 2) 5)
}
"""
WIT_MAIN = """from "m1.nano" import twice
fn main() -> int {
    (println (twice 3))
    return 0
}
shadow main {
    assert true
}
"""
# control: the same assertion in the importing file's block for the imported function does gate
WIT_MAIN_CTRL = """from "m1.nano" import twice
fn local(x: int) -> int {
    return (twice x)
}
shadow local {
    assert (== (local 2) 5)
}
fn main() -> int {
    (println (local 3))
    return 0
}
shadow main {
    assert true
}
"""
WIT_M1_OK = WIT_M1.replace("5)", "4)")


def write_witnesses():
    os.makedirs(os.path.join(FIND, "imported"), exist_ok=True)
    with open(os.path.join(FIND, "imported", "m1.nano"), "w") as f:
        f.write(WIT_M1)
    with open(os.path.join(FIND, "imported", "main.nano"), "w") as f:
        f.write(WIT_MAIN)


# =====================================================================================================
# builtin coverage: every documented pure builtin (docs/STDLIB.md, src/builtins_registry.c) inside the tested
# function and inside the shadow block.  T(p) comes from this hand-written table: the arguments are chosen so that
# the result is exactly representable and the assertions do not depend on how floats are formatted.
# Not covered: I/O (print/println/assert themselves are everywhere), OS / file / directory / path / process
# functions and FFI modules, Result<T,E> helpers and the higher-order filter/map/reduce.
# Each entry: (name, result type, [statements before the value], value expression, true condition, false condition);
# {x} is the expression under test.
# =====================================================================================================
def _f(v, far):
    return ("(== {x} %s)" % v, "(> {x} %s)" % far)


BUILTINS = [
    ("abs", "int", [], "(abs -7)", "(== {x} 7)", "(== {x} -7)"),
    ("min", "int", [], "(min 3 9)", "(== {x} 3)", "(== {x} 9)"),
    ("max", "int", [], "(max 3 9)", "(== {x} 9)", "(< {x} 4)"),
    ("sqrt", "float", [], "(sqrt 16.0)") + _f("4.0", "100.0"),
    ("pow", "float", [], "(pow 2.0 3.0)") + _f("8.0", "100.0"),
    ("floor", "float", [], "(floor 2.5)") + _f("2.0", "100.0"),
    ("ceil", "float", [], "(ceil 2.5)") + _f("3.0", "100.0"),
    ("round", "float", [], "(round 2.75)") + _f("3.0", "100.0"),
    ("sin", "float", [], "(sin 0.0)") + _f("0.0", "100.0"),
    ("cos", "float", [], "(cos 0.0)") + _f("1.0", "100.0"),
    ("tan", "float", [], "(tan 0.0)") + _f("0.0", "100.0"),
    ("atan2", "float", [], "(atan2 0.0 1.0)") + _f("0.0", "100.0"),
    ("asin", "float", [], "(asin 0.0)") + _f("0.0", "100.0"),
    ("acos", "float", [], "(acos 1.0)") + _f("0.0", "100.0"),
    ("atan", "float", [], "(atan 0.0)") + _f("0.0", "100.0"),
    ("log", "float", [], "(log 1.0)") + _f("0.0", "100.0"),
    ("log2", "float", [], "(log2 8.0)") + _f("3.0", "100.0"),
    ("log10", "float", [], "(log10 1000.0)") + _f("3.0", "100.0"),
    ("exp", "float", [], "(exp 0.0)") + _f("1.0", "100.0"),
    ("fmod", "float", [], "(fmod 7.0 4.0)") + _f("3.0", "100.0"),
    ("sinh", "float", [], "(sinh 0.0)") + _f("0.0", "100.0"),
    ("cosh", "float", [], "(cosh 0.0)") + _f("1.0", "100.0"),
    ("tanh", "float", [], "(tanh 0.0)") + _f("0.0", "100.0"),
    ("asinh", "float", [], "(asinh 0.0)") + _f("0.0", "100.0"),
    ("acosh", "float", [], "(acosh 1.0)") + _f("0.0", "100.0"),
    ("atanh", "float", [], "(atanh 0.0)") + _f("0.0", "100.0"),
    ("cbrt", "float", [], "(cbrt 27.0)") + ("(and (> {x} 2.999) (< {x} 3.001))", "(> {x} 100.0)"),
    ("hypot", "float", [], "(hypot 3.0 4.0)") + _f("5.0", "100.0"),
    ("copysign", "float", [], "(copysign 2.0 -1.0)") + _f("-2.0", "100.0"),
    ("fmax", "float", [], "(fmax 2.0 3.0)") + _f("3.0", "100.0"),
    ("fmin", "float", [], "(fmin 2.0 3.0)") + _f("2.0", "100.0"),
    ("fabs", "float", [], "(fabs -2.5)") + _f("2.5", "100.0"),
    ("char_to_string", "string", [], "(char_to_string 65)", '(== {x} "A")', '(== {x} "a")'),
    ("cast_int", "int", [], "(cast_int 3.75)", "(== {x} 3)", "(== {x} 4)"),
    ("cast_float", "float", [], "(cast_float 2)") + _f("2.0", "100.0"),
    ("cast_bool", "bool", [], "(cast_bool 1)", "(== {x} true)", "(== {x} false)"),
    ("cast_string", "string", [], "(cast_string 42)", '(== {x} "42")', '(== {x} "24")'),
    ("to_string", "string", [], "(to_string 42)", '(== {x} "42")', '(== {x} "24")'),
    ("int_to_string", "string", [], "(int_to_string -15)", '(== {x} "-15")', '(== {x} "15")'),
    ("float_to_string", "string", [], "(float_to_string 2.5)", "(> (str_length {x}) 0)", "(== (str_length {x}) 0)"),
    ("bool_to_string", "string", [], "(bool_to_string true)", '(== {x} "true")', '(== {x} "false")'),
    ("str_length", "int", [], '(str_length "hello")', "(== {x} 5)", "(== {x} 4)"),
    ("str_concat", "string", [], '(str_concat "ab" "cd")', '(== {x} "abcd")', '(== {x} "cdab")'),
    ("str_substring", "string", [], '(str_substring "hello" 1 3)', '(== {x} "ell")', '(== {x} "hel")'),
    ("str_contains", "bool", [], '(str_contains "hello" "ell")', "(== {x} true)", "(== {x} false)"),
    ("str_equals", "bool", [], '(str_equals "nano" "nano")', "(== {x} true)", "(== {x} false)"),
    ("char_at", "int", [], '(char_at "abc" 1)', "(== {x} 98)", "(== {x} 97)"),
    ("string_from_char", "string", [], "(string_from_char 65)", '(== {x} "A")', '(== {x} "a")'),
    ("string_to_int", "int", [], '(string_to_int "42")', "(== {x} 42)", "(== {x} 24)"),
    ("string_to_float", "float", [], '(string_to_float "2.5")') + _f("2.5", "100.0"),
    ("is_digit", "bool", [], "(is_digit 53)", "(== {x} true)", "(== {x} false)"),
    ("is_alpha", "bool", [], "(is_alpha 65)", "(== {x} true)", "(== {x} false)"),
    ("is_alnum", "bool", [], "(is_alnum 48)", "(== {x} true)", "(== {x} false)"),
    ("is_space", "bool", [], "(is_space 32)", "(== {x} true)", "(== {x} false)"),
    ("is_whitespace", "bool", [], "(is_whitespace 32)", "(== {x} true)", "(== {x} false)"),
    ("is_upper", "bool", [], "(is_upper 65)", "(== {x} true)", "(== {x} false)"),
    ("is_lower", "bool", [], "(is_lower 65)", "(== {x} false)", "(== {x} true)"),
    ("digit_value", "int", [], "(digit_value 55)", "(== {x} 7)", "(== {x} 55)"),
    ("char_to_lower", "int", [], "(char_to_lower 65)", "(== {x} 97)", "(== {x} 65)"),
    ("char_to_upper", "int", [], "(char_to_upper 97)", "(== {x} 65)", "(== {x} 97)"),
    ("array_length", "int", ["let arr: array<int> = [4, 5, 6]"], "(array_length arr)", "(== {x} 3)", "(== {x} 2)"),
    ("at", "int", ["let arr: array<int> = [4, 5, 6]"], "(at arr 1)", "(== {x} 5)", "(== {x} 4)"),
    ("array_new", "int", ["let arr: array<int> = (array_new 3 7)"], "(+ (array_length arr) (at arr 2))", "(== {x} 10)", "(== {x} 3)"),
    ("array_set", "int", ["let mut arr: array<int> = [1, 2, 3]", "(array_set arr 0 9)"], "(at arr 0)", "(== {x} 9)", "(== {x} 1)"),
    # (the evaluator only grows arrays that started as `[]`: its handling of array literals is C03's census cell array_mut)
    ("array_push", "int", ["let mut arr: array<int> = []", "set arr (array_push arr 8)", "set arr (array_push arr 9)"], "(+ (array_length arr) (at arr 1))", "(== {x} 11)", "(== {x} 2)"),
    ("array_pop", "int", ["let mut arr: array<int> = []", "set arr (array_push arr 5)", "set arr (array_push arr 6)"], "(array_pop arr)", "(== {x} 6)", "(== {x} 5)"),
    ("array_remove_at", "int", ["let mut arr: array<int> = [1, 2, 3]", "(array_remove_at arr 0)"], "(+ (array_length arr) (at arr 0))", "(== {x} 4)", "(== {x} 3)"),
    ("array_slice", "int", ["let arr: array<int> = [1, 2, 3, 4]", "let sl: array<int> = (array_slice arr 1 3)"], "(at sl 0)", "(== {x} 2)", "(== {x} 1)"),
    ("array_concat", "int", ["let a1: array<int> = [1, 2]", "let a2: array<int> = [3]", "let cc: array<int> = (array_concat a1 a2)"], "(array_length cc)", "(== {x} 3)", "(== {x} 2)"),
    ("filter", "int", ["let arr: array<int> = [1, 2, 3, 4]", "let ev: array<int> = (filter arr is_even)"], "(array_length ev)", "(== {x} 2)", "(== {x} 4)",
     ["fn is_even(n: int) -> bool {", "    return (== (% n 2) 0)", "}", "shadow is_even {", "    assert (is_even 2)", "}"]),
    ("map", "int", ["let arr: array<int> = [1, 2, 3]", "let sq: array<int> = (map arr square)"], "(at sq 2)", "(== {x} 9)", "(== {x} 3)",
     ["fn square(n: int) -> int {", "    return (* n n)", "}", "shadow square {", "    assert (== (square 3) 9)", "}"]),
    ("reduce", "int", ["let arr: array<int> = [1, 2, 3, 4]"], "(reduce arr 0 add2)", "(== {x} 10)", "(== {x} 0)",
     ["fn add2(a: int, b: int) -> int {", "    return (+ a b)", "}", "shadow add2 {", "    assert (== (add2 1 2) 3)", "}"]),
    ("list_int_new+push+get", "int", ["let mut li: List<int> = (list_int_new)", "(list_int_push li 10)", "(list_int_push li 20)"], "(list_int_get li 1)", "(== {x} 20)", "(== {x} 10)"),
    ("list_int_length", "int", ["let mut li: List<int> = (list_int_new)", "(list_int_push li 10)"], "(list_int_length li)", "(== {x} 1)", "(== {x} 0)"),
    ("list_int_pop", "int", ["let mut li: List<int> = (list_int_new)", "(list_int_push li 10)", "(list_int_push li 30)"], "(list_int_pop li)", "(== {x} 30)", "(== {x} 10)"),
    ("range", "int", ["let mut acc: int = 0", "for i in (range 0 4) {", "    set acc (+ acc i)", "}"], "acc", "(== {x} 6)", "(== {x} 10)"),
    ("map_new+map_put+map_get", "int", ["let hm: HashMap<string, int> = (map_new)", '(map_put hm "a" 11)'], '(map_get hm "a")', "(== {x} 11)", "(== {x} 0)"),
    ("map_has", "bool", ["let hm: HashMap<string, int> = (map_new)", '(map_put hm "a" 11)'], '(map_has hm "a")', "(== {x} true)", "(== {x} false)"),
    ("map_length", "int", ["let hm: HashMap<string, int> = (map_new)", '(map_put hm "a" 1)', '(map_put hm "b" 2)'], "(map_length hm)", "(== {x} 2)", "(== {x} 0)"),
    ("map_remove", "int", ["let hm: HashMap<string, int> = (map_new)", '(map_put hm "a" 1)', '(map_put hm "b" 2)', '(map_remove hm "a")'], "(map_length hm)", "(== {x} 1)", "(== {x} 2)"),
    ("bytes_from_string+bstring_length", "int", ['let bs: bstring = (bytes_from_string "abc")'], "(bstring_length bs)", "(== {x} 3)", "(== {x} 0)"),
    ("string_from_bytes", "string", ['let bs: bstring = (bytes_from_string "hi")'], "(string_from_bytes bs)", '(== {x} "hi")', '(== {x} "ih")'),
]


def builtin_programs(entry):
    """the four programs of one builtin: {variant: (text, T(p), functions without a shadow block)}"""
    name, ty, pre, expr, tcond, fcond = entry[:6]
    extra = list(entry[6]) if len(entry) > 6 else []

    def fn_body(fname, with_shadow, cond):
        out = ["fn %s() -> %s {" % (fname, ty)]
        out += ["    " + l for l in pre]
        out.append("    return %s" % expr)
        out.append("}")
        if with_shadow:
            out += ["shadow %s {" % fname, "    assert %s" % cond.format(x="(%s)" % fname), "}"]
        return out

    def fn_ident(cond):
        out = ["fn ident(v: %s) -> %s {" % (ty, ty), "    return v", "}", "shadow ident {"]
        out += ["    " + l for l in pre]
        out.append("    let e: %s = %s" % (ty, expr))
        out.append("    assert %s" % cond.format(x="(ident e)"))
        out.append("}")
        return out

    def main(calls):
        out = ["fn main() -> int {"]
        for c in calls:
            out.append("    (println %s)" % c)
        out += ["    return 0", "}", "shadow main {", "    assert true", "}"]
        return out
    lit = {"int": "1", "float": "1.5", "bool": "true", "string": '"s"'}[ty]
    progs = {
        "body-false": ("\n".join(extra + fn_body("tested", True, fcond) + main(["(tested)"])) + "\n", {"tested": [False], "main": [True]}, []),
        "shadow-false": ("\n".join(extra + fn_ident(fcond) + main(["(ident %s)" % lit])) + "\n", {"ident": [False], "main": [True]}, []),
        "all-true": ("\n".join(extra + fn_body("tested", True, tcond) + fn_ident(tcond) + main(["(tested)", "(ident %s)" % lit])) + "\n",
                     {"tested": [True], "ident": [True], "main": [True]}, []),
        "no-shadow": ("\n".join(extra + fn_body("tested", False, tcond) + ["fn plain(v: int) -> int {", "    return (+ v 1)", "}"] + main(["(tested)", "(plain 1)"])) + "\n",
                      {"main": [True]}, ["tested", "plain"]),
    }
    return progs


# =====================================================================================================
# name dimension of "a function without a shadow block is always reported"
# =====================================================================================================
SPECIAL_NAMES = [
    # the exempt entry point and its neighbours
    "main_x", "mainx", "xmain", "Main", "MAIN", "_main", "m", "ma", "mai", "main_", "main1", "mainmain", "main_menu", "maintain",
    "mainframe_id", "maim", "nain", "mai_n", "xmainx",
    # extern-looking / keyword-looking names
    "extern_fn", "externx", "ext", "exter", "xextern", "c_getpid", "getpidx", "getpi", "ffi_call", "pub_fn", "shadowx", "shadow_",
    "fnx", "testx", "unsafe_x", "nl_main", "nl_abs", "nl_x",
    # builtins' prefixes and extensions, and the name prefixes the type checker / evaluator special-case
    "a", "ab", "abs_", "absx", "sqr", "sqrtx", "mi", "minx", "maxx", "ran", "rangex", "prin", "printx", "printlnx", "asser", "assertx",
    "at_", "atx", "str_", "str_lengthx", "str_len", "array_", "array_x", "array_lengthx", "cast_", "cast_intx", "is_", "is_digitx",
    "map_", "map_x", "mapx", "filterx", "reducex", "list_", "list_x", "list_int_x", "List_", "List_abc", "List_int_newx", "result_x", "bstr_x",
    "HashMap_x", "to_stringx", "int_to_stringx",
]
LONG_NAMES = [("long100", "L" + "o" * 98 + "g"), ("long255", "L" + "o" * 253 + "g"), ("long300", "L" + "o" * 298 + "g")]
PAIR_LENGTHS = [4, 8, 16, 31, 32, 63, 64]


def pair_names(n):
    stem = ("q" + "abcdefghij" * 7)[:n]
    return stem + "a", stem + "b"          # (the one WITH a block, the one without)


def _fn(name, k, shadow, pub=False):
    out = ["%sfn %s(v: int) -> int {" % ("pub " if pub else "", name), "    return (+ v %d)" % k, "}"]
    if shadow:
        out += ["shadow %s {" % name, "    assert (== (%s 1) %d)" % (name, k + 1), "}"]
    return out


def name_program(funcs, where, main_pos="last", with_extern=False):
    """funcs: [(name, has_shadow)] in file order.  where: 'main-file' | 'imported'.  -> files"""
    body = []
    for i, (n, sh_) in enumerate(funcs):
        body += _fn(n, i + 1, sh_, pub=(where == "imported"))
    calls = ["    (println (%s %d))" % (n, i) for i, (n, _) in enumerate(funcs)]
    mainf = ["fn main() -> int {"] + calls + ["    return 0", "}", "shadow main {", "    assert true", "}"]
    head = ["extern fn getpid() -> int"] if with_extern else []
    if where == "imported":
        return {"m1.nano": "\n".join(body) + "\n",
                "main.nano": "\n".join(['from "m1.nano" import %s' % ", ".join(n for n, _ in funcs)] + head + mainf) + "\n"}
    text = head + (mainf + body if main_pos == "first" else body + mainf)
    return {"main.nano": "\n".join(text) + "\n"}


# =====================================================================================================
# control-flow grid
# =====================================================================================================
CF_LOOPS = ["while", "for-range", "for-in-array", "while-in-for", "for-in-while"]
CF_EXITS = ["end", "break", "continue", "return"]
CF_ITERS = ["first", "middle", "last"]
CF_FOLLOWS = ["after", "loop-last-in-block", "in-if-arm", "in-else-arm", "in-match-arm"]
CF_ITER_VALUES = {"while": [1, 3, 4], "for-range": [0, 2, 3], "for-in-array": [5, 7, 8], "while-in-for": [1, 3, 4], "for-in-while": [0, 2, 3]}


def _add(var, n):
    return ("set", var, ("bin", "+", ("var", var), ("int", n)))


def cf_statements(loop, exit_kind, follows, in_function, uid):
    """statements that compute `acc` from `k` (both already declared): the loop of the cell, what follows it, wrapped as
    the cell says.  `return` is only used inside functions."""
    ex = {"end": [], "break": [("break",)], "continue": [("continue",)],
          "return": [("return", ("bin", "+", ("var", "acc"), ("int", 1000)))]}[exit_kind]

    def body(ivar):
        b = [_add("acc", 1)]
        if ex:
            b.append(("if", ("bin", "==", ("var", ivar), ("var", "k")), list(ex), None))
        b.append(_add("acc", 10))
        return b

    def while_loop(cname):
        # the counter is advanced first so that `continue` cannot skip it
        return [("let", cname, "int", True, ("int", 0)),
                ("while", ("bin", "<", ("var", cname), ("int", 4)), [_add(cname, 1)] + body(cname))]
    if loop == "while":
        lp = while_loop("c" + uid)
    elif loop == "for-range":
        lp = [("for", "i" + uid, ("int", 0), ("int", 4), body("i" + uid))]
    elif loop == "for-in-array":
        lp = [("let", "arr" + uid, ("array", "int"), False, ("arr", "int", [("int", v) for v in (5, 6, 7, 8)])),
              ("forin", "x" + uid, ("var", "arr" + uid), body("x" + uid))]
    elif loop == "while-in-for":
        lp = [("for", "o" + uid, ("int", 0), ("int", 2), while_loop("c" + uid) + [_add("acc", 7)])]
    elif loop == "for-in-while":
        lp = [("let", "w" + uid, "int", True, ("int", 0)),
              ("while", ("bin", "<", ("var", "w" + uid), ("int", 2)),
               [_add("w" + uid, 1), ("for", "i" + uid, ("int", 0), ("int", 4), body("i" + uid)), _add("acc", 7)])]
    else:
        raise ValueError(loop)
    after = [_add("acc", 100)]
    if follows == "after":
        return lp + after
    if follows == "loop-last-in-block":
        return [("if", ("bin", ">", ("var", "k"), ("int", -50)), lp, None)] + after
    if follows == "in-if-arm":
        return [("if", ("bin", ">", ("var", "k"), ("int", -50)), lp + after, [_add("acc", -1)])]
    if follows == "in-else-arm":
        return [("if", ("bin", "<", ("var", "k"), ("int", -50)), [_add("acc", -1)], lp + after)]
    if follows == "in-match-arm":
        return [("let", "u" + uid, ("union", "CU"), False, ("unionlit", "CU", "V0", [("a0", ("int", 1))])),
                ("match", ("var", "u" + uid), [("V0", "m" + uid, lp + after), ("V1", "n" + uid, [_add("acc", -1)])])]
    raise ValueError(follows)


def cf_cells():
    for loop in CF_LOOPS:
        for follows in CF_FOLLOWS:
            for exit_kind in CF_EXITS:
                for it in (["-"] if exit_kind == "end" else CF_ITERS):
                    yield loop, follows, exit_kind, it


def cf_program(cells, variant, falsify=None):
    """one program holding the given cells (each its own function + shadow block).  variant 'function': the loop is in
    the function, the block calls it with the exit iteration and with a value that never matches; 'in-shadow-block':
    the loop is written in the block.  falsify: None | 'first' | 'last' (applied to every cell's block; the reference
    model supplies the true values first).  -> (Program, {function: cell})"""
    prog = A.Program()
    prog.main.unions.append(("CU", [("V0", [("a0", "int")]), ("V1", [("a1", "int")])]))
    names = {}
    for n, cell in enumerate(cells):
        loop, follows, exit_kind, it = cell
        uid = "_%d" % n
        kval = 99 if exit_kind == "end" else CF_ITER_VALUES[loop][CF_ITERS.index(it)]
        if variant == "function":
            fname = "cf%d" % n
            body = [("let", "acc", "int", True, ("int", 0))] + cf_statements(loop, exit_kind, follows, True, uid) + [("return", ("var", "acc"))]
            f = A.Func(fname, [("k", "int")], "int", body)
            f.shadow = [("assert", ("bin", "==", ("call", fname, [("int", 99)]), ("int", 0))),
                        ("assert", ("bin", "==", ("call", fname, [("int", kval)]), ("int", 0)))]
        else:
            fname = "host%d" % n
            f = A.Func(fname, [("v", "int")], "int", [("return", ("bin", "+", ("var", "v"), ("int", 1)))])
            f.shadow = ([("assert", ("bin", "==", ("call", fname, [("int", 1)]), ("int", 0))),
                         ("let", "k", "int", False, ("int", kval)), ("let", "acc", "int", True, ("int", 0))]
                        + cf_statements(loop, exit_kind, follows, False, uid)
                        + [("assert", ("bin", "==", ("var", "acc"), ("int", 0)))])
        prog.main.funcs.append(f)
        names[fname] = cell
    mainf = A.Func("main", [], "int", [("print", ("call", fn, [("int", 2)]), True) for fn in names] + [("return", ("int", 0))],
                   shadow=[("assert", ("bool", True))])
    prog.main.funcs.append(mainf)
    # fill in the true values from the reference model, then falsify
    for f in prog.main.funcs:
        if f.name == "main":
            continue
        idx = [i for i, st_ in enumerate(f.shadow) if st_[0] == "assert"]
        for i in idx:
            lhs = f.shadow[i][1][2]
            it_ = ContInterp(prog, max_steps=200000)
            probe = A.Func("_probe", [], "int", f.shadow[:i] + [("return", lhs)])
            val = it_.call(probe, [])
            f.shadow[i] = ("assert", ("bin", "==", lhs, ("int", val)))
        if falsify:
            i = idx[0] if falsify == "first" else idx[-1]
            c = f.shadow[i][1]
            f.shadow[i] = ("assert", ("bin", "==", c[2], ("int", c[3][1] + 1)))
    return prog, names


# =====================================================================================================
# several shadow blocks for one function; output names x build history
# =====================================================================================================
def multi_block_programs():
    """-> [(label, text, T, n blocks, layout, false position)]"""
    out = []
    fdef = ["fn twice(x: int) -> int {", "    return (* x 2)", "}"]
    gdef = ["fn succ(x: int) -> int {", "    return (+ x 1)", "}"]
    mdef = ["fn main() -> int {", "    (println (+ (twice 3) (succ 1)))", "    return 0", "}", "shadow main {", "    assert true", "}"]

    def fblock(i, ok):
        return ["shadow twice {", "    assert (== (twice %d) %d)" % (i + 2, 2 * (i + 2) + (0 if ok else 1)), "}"]

    def gblock(i, ok):
        return ["shadow succ {", "    assert (== (succ %d) %d)" % (i, i + 1 + (0 if ok else 1)), "}"]
    for n in (2, 3):
        positions = ["none", "first", "last"] + (["middle"] if n == 3 else []) + ["other-function-first-block"]
        for layout in ("adjacent", "interleaved", "around-definitions"):
            for pos in positions:
                bad = {"none": -1, "first": 0, "middle": 1, "last": n - 1}.get(pos, -1)
                fb = [fblock(i, i != bad) for i in range(n)]
                gbad = pos == "other-function-first-block"
                gb = [gblock(i, not (gbad and i == 0)) for i in range(n)]
                if layout == "adjacent":
                    lines = fdef + sum(fb, []) + gdef + sum(gb, []) + mdef
                elif layout == "interleaved":
                    lines = fdef + gdef
                    for i in range(n):
                        lines += fb[i] + gb[i]
                    lines += mdef
                else:
                    lines = fdef + fb[0] + gdef + gb[0] + sum(fb[1:], []) + mdef + sum(gb[1:], [])
                T = {"twice": [i != bad for i in range(n)], "succ": [not (gbad and i == 0) for i in range(n)], "main": [True]}
                out.append(("multi-%d-%s-%s" % (n, layout, pos), "\n".join(lines) + "\n", T, n, layout, pos))
    return out


OUT_GOOD = """fn twice(x: int) -> int {
    return (* x 2)
}
shadow twice {
    assert (== (twice 2) 4)
}
fn main() -> int {
    (println (twice 3))
    return 0
}
shadow main {
    assert true
}
"""
OUT_BAD = OUT_GOOD.replace("(twice 2) 4", "(twice 2) 5")
# (class, -o name; @D = the absolute scratch directory)  - the source file is calc.nano
OUT_NAMES = [("source-name-without-extension", "calc"), ("dot-slash-source-name-without-extension", "./calc"), ("prefix-of-source-name-1", "c"),
             ("prefix-of-source-name-3", "cal"), ("prefix-with-dot", "calc."), ("source-name-plus-suffix", "calc.nano.bin"),
             ("source-stem-plus-suffix", "calc_app"), ("unrelated", "out.bin"), ("sub-directory", "sub/calc"), ("sub-directory-prefix", "./sub/c"),
             ("absolute", "@D/calc"), ("absolute-unrelated", "@D/abs_out")]


def out_name_scenario(plain, d, cls, name, src_arg):
    from ..run import run as sh
    os.makedirs(os.path.join(d, "sub"), exist_ok=True)
    name = name.replace("@D", d)
    path = name if os.path.isabs(name) else os.path.join(d, name)
    res = {"cls": cls, "name": name, "src": src_arg, "setup_ok": True}
    with open(os.path.join(d, "calc.nano"), "w") as f:
        f.write(OUT_GOOD)
    env = plain.fastcc_env({"TMPDIR": d})
    r0 = sh([plain.nanoc, src_arg, "-o", name], cwd=d, env=env, cpu=120)
    st0 = path_state(path)
    if r0.rc != 0 or st0[0] != "file" or not st0[1] or r0.timeout:
        res["setup_ok"] = False
        res["setup"] = (r0.errtext() + r0.text())[-300:]
        return res
    with open(os.path.join(d, "calc.nano"), "w") as f:
        f.write(OUT_BAD)
    r = sh([plain.nanoc, src_arg, "-o", name], cwd=d, env=env, cpu=120)
    res.update({"timeout": r.timeout, "rc": r.rc, "status": r.status, "refusal": None if r.rc == 0 else engines.classify_nanoc_failure(r),
                "before": st0[:3], "after": path_state(path)[:3], "stdout": r.out, "stderr": r.err,
                "source_still_there": os.path.exists(os.path.join(d, "calc.nano"))})
    return res


# =====================================================================================================
# observation and oracle
# =====================================================================================================
class Case:
    def __init__(self, idx, label, files, T, order, missing, intent, tags, prog=None):
        self.idx = idx
        self.label = label
        self.files = files
        self.T = T                  # {fn: [bool]}
        self.order = order          # main-file block order
        self.missing = missing      # functions without a block (not main)
        self.intent = intent
        self.tags = tags
        self.prog = prog
        self.kind = "sweep"
        self.imported = set(f.name for m in prog.modules for f in m.funcs) if prog is not None else set()


def nanoc_keep(plain, d):
    """run nanoc on d/main.nano WITHOUT touching what is at the -o path first"""
    from ..run import run as sh
    return sh([plain.nanoc, "main.nano", "-o", "main.bin"], cwd=d, env=plain.fastcc_env({"TMPDIR": d}), cpu=120)


def path_state(p):
    """(kind, executable-bit?, size, content head) of what is at p; kind None when nothing is there"""
    try:
        st = os.lstat(p)
    except OSError:
        return (None, False, 0, b"")
    if not stat.S_ISREG(st.st_mode):
        return ("other", False, 0, b"")
    with open(p, "rb") as f:
        head = f.read(64)
    return ("file", bool(st.st_mode & 0o111), st.st_size, head)


def stale_scenario(plain, d, variant, good_files, bad_files):
    """-> dict(variant, setup_ok, rc, cls, before, after)"""
    out = os.path.join(d, "main.bin")
    res = {"variant": variant, "setup_ok": True}
    try:
        os.unlink(out)
    except OSError:
        pass
    if variant == "earlier-build":
        engines.write_files(d, good_files)
        r0 = nanoc_keep(plain, d)
        st0 = path_state(out)
        if r0.rc != 0 or st0[0] != "file" or not st0[1]:
            res["setup_ok"] = False
            return res
    elif variant in ("unrelated-executable", "all-true-overwrites"):
        with open(out, "w") as f:
            f.write(STALE_SCRIPT)
        os.chmod(out, 0o755)
    elif variant == "empty-file":
        open(out, "w").close()
        os.chmod(out, 0o644)
    elif variant == "text-file":
        with open(out, "w") as f:
            f.write(STALE_TEXT)
        os.chmod(out, 0o644)
    res["before"] = path_state(out)
    engines.write_files(d, good_files if variant == "all-true-overwrites" else bad_files)
    r = nanoc_keep(plain, d)
    res["timeout"] = r.timeout
    res["rc"] = r.rc
    res["status"] = r.status
    res["cls"] = None if r.rc == 0 else engines.classify_nanoc_failure(r)
    res["after"] = path_state(out)
    res["stdout"] = r.out
    res["stderr"] = r.err
    return res


def observe(plain, d, files):
    engines.write_files(d, files)
    r, built = engines.build_native(plain, d)
    exists = os.path.exists(os.path.join(d, "main.bin"))
    return r, exists


def judge(case, r, exists):
    """-> (outcome string, [(key-suffix, message)])  - no side effects"""
    T = case.T
    failing = [f for f, a in T.items() if not all(a)]
    named = FAILED_RE.findall(r.text())
    named_set = set(n for n, _ in named)
    text = r.text() + r.errtext()
    viol = []
    cls = None if (r.rc == 0 and exists) else engines.classify_nanoc_failure(r)
    # missing-shadow diagnostics are printed by the type checker, before the shadow tests run
    rep = set(MISSING_RE.findall(r.errtext()))
    if cls not in ("type", "parse", "other") and not (r.sig and not rep):
        for fn in case.missing:
            if fn not in rep:
                viol.append(("missing-shadow-not-reported", "function '%s' has no shadow block and is not named in a \"missing a shadow test\" diagnostic (reported: %s)" % (fn, sorted(rep))))
    if failing:
        if r.rc == 0 or exists:
            return "false-assertion-built", viol + [("gate-open", "reference model: block(s) %s execute a false assertion (T=%s); nanoc exit=%s, file at -o %s" % (
                failing, {f: T[f] for f in failing}, r.status, "EXISTS" if exists else "absent"))]
        if cls == "crash":
            return "skip:false+evaluator-crash", viol
        if cls != "shadow":
            return "skip:false+refused-for-another-reason:%s" % cls, viol
        if not named_set:
            viol.append(("failed-line-missing", "nanoc refused the program but printed no \"Shadow test '<f>' FAILED\" line"))
        else:
            wrongly = sorted(named_set - set(failing))
            if wrongly:
                viol.append(("failed-names-wrong-function", "FAILED line names %s, whose block executes no false assertion; blocks with a false assertion: %s" % (wrongly, failing)))
            unnamed = [f for f in failing if f not in named_set]
            if unnamed:
                viol.append(("failing-test-not-named", "block(s) %s execute a false assertion but no FAILED line names them (named: %s)" % (unnamed, sorted(named_set))))
        return ("refused+named" if all(k.startswith("missing") for k, _ in viol) else "refused+misnamed"), viol
    # every executed assertion is true
    if r.rc == 0 and exists:
        return "built", viol
    if r.rc == 0 and not exists:
        return "exit0-no-file", viol + [("exit0-without-executable", "every shadow assertion holds, nanoc exits 0 but there is no file at -o")]
    if exists:
        return "nonzero-but-file", viol + [("nonzero-exit-with-executable", "nanoc exits %s but left a file at -o" % r.status)]
    if cls == "shadow":
        return "all-true-refused", viol + [("all-true-refused", "every executed shadow assertion is true in the reference model (%d assertions) but nanoc reports %s" % (
            sum(len(a) for a in T.values()), named))]
    return "skip:" + cls, viol


def run(ctx):
    plain = build.get("plain")
    n = ctx.n(300, 3000)
    n_multi = ctx.n(24, 240)
    with Scratch("c06") as sc:
        # ---------------- workload --------------------------------------------------------------------
        batch = sweep.gen_batch(ctx, n, features=SWEEP_FEATURES)
        ctx.require(len(batch) >= n * 0.6, "generator produced too few in-zone programs")
        mf = dict(SWEEP_FEATURES)
        mf["multifile"] = True
        mbatch = [b for b in sweep.gen_batch(ctx, n_multi * 4, features=mf, label="multi") if b[1].modules][:n_multi]
        ctx.require(len(mbatch) >= n_multi // 2, "generator produced too few multi-file programs")

        cases = []
        gen_skipped = {}
        originals = dict((i, prog) for i, prog, exp in batch)
        for i, prog, exp in batch:
            r = ctx.rng("perturb", i)
            plan = pick_plan(r)
            res = perturb(prog, r, plan)
            if res is None:
                plan = dict(count=0, missing=r.choice([0, 1]))
                res = perturb(prog, r, plan) or (copy.deepcopy(prog), {"classes": [], "nfalse_intended": 0, "removed": []})
            p2, intent = res
            T = truth(p2)
            if T is None:
                gen_skipped["left-model-zone"] = gen_skipped.get("left-model-zone", 0) + 1
                continue
            try:
                files = p2.files()
            except (TypeError, ValueError):
                # the generator left a hole (None) in a branch the model never executes: not a printable program
                gen_skipped["generator-unprintable"] = gen_skipped.get("generator-unprintable", 0) + 1
                continue
            cases.append(Case(i, "p%05d" % i, files, T, block_order(p2), list(intent["removed"]), intent, frozenset(prog.tags), p2))
        multi_cases = []
        for j, (i, prog, exp) in enumerate(mbatch):
            r = ctx.rng("perturb-multi", i)
            kind = ["imported", "imported", "main", "none", "missing-imported"][j % 5]
            if kind == "imported":
                plan = dict(count=1, module="imported", block="any", missing=0, wrap=r.choice(["plain", "plain", "for-all", "if-taken"]))
            elif kind == "main":
                plan = dict(count=1, block="any", missing=0)
            elif kind == "none":
                plan = dict(count=0, missing=0)
            else:
                plan = dict(count=0, missing=2, missing_in="imported")
            res = perturb(prog, r, plan)
            if res is None:
                continue
            p2, intent = res
            T = truth(p2)
            if T is None:
                continue
            try:
                files = p2.files()
            except (TypeError, ValueError):
                gen_skipped["generator-unprintable"] = gen_skipped.get("generator-unprintable", 0) + 1
                continue
            c = Case(i, "m%05d" % i, files, T, block_order(p2), list(intent["removed"]), intent, frozenset(prog.tags), p2)
            c.kind = kind
            multi_cases.append(c)
        # the hand-written witness and its controls
        fixed = [
            ("imported-witness", {"main.nano": WIT_MAIN, "m1.nano": WIT_M1}, {"twice": [False], "main": [True]}, {"twice"}),
            ("imported-all-true", {"main.nano": WIT_MAIN, "m1.nano": WIT_M1_OK}, {"twice": [True], "main": [True]}, {"twice"}),
            ("importing-file-block", {"main.nano": WIT_MAIN_CTRL, "m1.nano": WIT_M1_OK}, {"twice": [True], "local": [False], "main": [True]}, {"twice"}),
        ]
        for name, files, T, imp in fixed:
            c = Case(-1, "fixed-" + name, files, T, [], [], {"classes": [("plain", "imported" if not all(T.get("twice", [True])) else "main-file", "only", "int")], "nfalse_intended": 0, "removed": []}, frozenset(["fixed"]))
            c.kind = name
            c.imported = imp
            multi_cases.append(c)

        # ---------------- run ------------------------------------------------------------------------
        def do(c):
            d = sc.sub(c.label)
            r, exists = observe(plain, d, c.files)
            if r.timeout:
                r, exists = observe(plain, d, c.files)
            return c, r, exists

        results = pmap(do, cases + multi_cases)
        timeouts = sum(1 for _, r, _ in results if r.timeout)
        ctx.require(timeouts <= max(2, len(results) // 50), "too many nanoc runs hit the watchdog (%d)" % timeouts)

        hist = {}
        kinds = {}
        shapes = set()
        asserts_executed = 0
        false_executed = 0
        judged = 0
        pos_hist = {}
        missing_checked = 0
        named_exact = 0
        count_match = [0, 0]
        samples = []

        def count_class(T):
            nf = sum(1 for a in T.values() for v in a if not v)
            nb = sum(1 for a in T.values() if not all(a))
            return "0" if nf == 0 else "1" if nf == 1 else "k-in-one-block" if nb == 1 else "k-in-%s-blocks" % ("2" if nb == 2 else "3+")

        for c, r, exists in results:
            if r.timeout:
                hist["watchdog"] = hist.get("watchdog", 0) + 1
                continue
            outcome, viol = judge(c, r, exists)
            failing = [f for f, a in c.T.items() if not all(a)]
            # the known finding: every block that executes a false assertion belongs to an imported module
            if outcome == "false-assertion-built" and failing and c.imported and all(f in c.imported for f in failing):
                viol = [(k, m) for k, m in viol if k != "gate-open"]
                ctx.violation(K_IMPORTED, "%s: %s" % (c.label, "a false assertion in the shadow block of an imported module's function does not gate"),
                              dict(c.files))
                outcome = "imported-block-not-gating"
            hist[outcome] = hist.get(outcome, 0) + 1
            cc = count_class(c.T)
            kinds[cc] = kinds.get(cc, 0) + 1
            if not outcome.startswith("skip:"):
                judged += 1
                asserts_executed += sum(len(a) for a in c.T.values())
                false_executed += sum(1 for a in c.T.values() for v in a if not v)
                missing_checked += len(c.missing)
                pcs = tuple(c.intent["classes"]) if failing else (("untaken",) if any(x[0] == "if-untaken" for x in c.intent["classes"]) else ())
                for pc in c.intent["classes"]:
                    pos_hist["%s/%s-block/%s-assert" % (pc[0], pc[1], pc[2])] = pos_hist.get("%s/%s-block/%s-assert" % (pc[0], pc[1], pc[2]), 0) + 1
                shapes.add((pcs, cc, min(len(c.missing), 3), c.tags))
                if failing and outcome == "refused+named":
                    nm = FAILED_RE.findall(r.text())
                    if set(x for x, _ in nm) == set(failing):
                        named_exact += 1
                    for fn, cnt in nm:
                        count_match[1] += 1
                        if fn in c.T and int(cnt) == sum(1 for v in c.T[fn] if not v):
                            count_match[0] += 1
                if len(samples) < 4 and failing and outcome == "refused+named":
                    samples.append({"case": c.label, "classes": [list(x) for x in c.intent["classes"]], "T": {f: c.T[f] for f in failing},
                                    "nanoc_stdout": r.text()[-300:], "exit": r.status, "file_at_o": exists})
                if len(samples) < 6 and not failing and outcome == "built" and c.missing:
                    samples.append({"case": c.label, "removed_shadow_blocks": c.missing, "stderr_warnings": MISSING_RE.findall(r.errtext()),
                                    "exit": r.status, "file_at_o": exists})
            for key, msg in viol:
                files = dict(c.files)
                files["nanoc.stdout"] = r.out
                files["nanoc.stderr"] = r.err
                files["expected.txt"] = "T(p) = %r\nmissing shadow blocks: %r\nintent: %r\n" % (c.T, c.missing, c.intent)
                full = key
                if key in ("gate-open", "all-true-refused") and c.prog is not None:
                    full, small = cause_key(ctx, plain, sc, c, key)
                    if small is not None:
                        files.update({"reduced/" + k: v for k, v in small.files().items()})
                elif key == "gate-open":
                    full = "gate-open|%s" % c.kind
                ctx.violation(full, "%s: %s" % (c.label, msg), files)

        # ---------------- builtin coverage ---------------------------------------------------------------------
        bjobs = []
        for entry in BUILTINS:
            for variant, (text, T, missing) in builtin_programs(entry).items():
                bc = Case(-1, "builtin-%s-%s" % (re.sub(r"\W+", "_", entry[0]), variant), {"main.nano": text}, T, [], missing,
                          {"classes": [("plain", "builtin:" + variant, "only", entry[1])], "nfalse_intended": 0, "removed": list(missing)}, frozenset(["builtin"]))
                bc.kind = "builtin"
                bc.builtin = entry[0]
                bc.variant = variant
                bjobs.append(bc)
        bres = {}
        for c, r, exists in pmap(do, bjobs):
            bres.setdefault(c.builtin, {})[c.variant] = (c, r, exists)
        builtin_table = {}
        builtins_judged = 0
        for entry in BUILTINS:
            name = entry[0]
            row = {}
            c0, r0, e0 = bres[name]["all-true"]
            o0, v0 = judge(c0, r0, e0)
            if r0.timeout:
                builtin_table[name] = "watchdog"
                continue
            if o0 != "built":
                if o0 == "all-true-refused":
                    row["all-true"] = o0
                    ctx.violation("builtin|%s|all-true-refused" % name, "builtin %s: every assertion of the all-true program holds by the table, nanoc says %s" % (name, FAILED_RE.findall(r0.text())),
                                  {"main.nano": c0.files["main.nano"], "nanoc.stdout": r0.out, "nanoc.stderr": r0.err})
                    builtin_table[name] = row
                else:
                    # the pipeline does not support this builtin (type checker / C compiler): C04's subject, not the gate's
                    builtin_table[name] = "not-usable-here:" + o0
                continue
            row["all-true"] = "built"
            builtins_judged += 1
            for variant in ("body-false", "shadow-false", "no-shadow"):
                c, r, exists = bres[name][variant]
                if r.timeout:
                    row[variant] = "watchdog"
                    continue
                o, viol = judge(c, r, exists)
                row[variant] = o
                hist["builtin:" + o] = hist.get("builtin:" + o, 0) + 1
                for key, msg in viol:
                    ctx.violation("builtin|%s|%s|%s" % (name, variant, key), "builtin %s, %s: %s" % (name, variant, msg),
                                  {"main.nano": c.files["main.nano"], "nanoc.stdout": r.out, "nanoc.stderr": r.err,
                                   "expected.txt": "T(p) = %r\nfunctions without a shadow block: %r\n" % (c.T, c.missing)})
                if o.startswith("skip:"):
                    # the same program with the other constant built: a refusal for another reason is not expected
                    ctx.violation("builtin|%s|%s|refused-for-another-reason" % (name, variant), "builtin %s, %s: %s" % (name, variant, o),
                                  {"main.nano": c.files["main.nano"], "nanoc.stdout": r.out, "nanoc.stderr": r.err})
            builtin_table[name] = row

        # ---------------- control-flow grid ---------------------------------------------------------------------
        cf_stats = {"cells": 0, "programs_all_true": 0, "programs_one_false": 0, "outcomes": {}, "model_disagrees_with_intent": 0}
        cells = list(cf_cells())
        cf_jobs = []
        pr = ForInPrinter()
        for variant in ("function", "in-shadow-block"):
            vcells = [c for c in cells if not (variant == "in-shadow-block" and c[2] == "return")]
            cf_stats["cells"] += len(vcells)
            groups = {}
            for c in vcells:
                groups.setdefault((c[0], c[1]), []).append(c)
            todo = [("all-true", g, None) for g in groups.values()]
            for c in vcells:
                todo.append(("false-first", [c], "first"))
                todo.append(("false-last", [c], "last"))
            for truth_kind, g, fals in todo:
                prog_, names_ = cf_program(g, variant, fals)
                T_ = truth(prog_)
                ctx.require(T_ is not None, "control-flow cell left the reference model's zone: %s" % (g[0],))
                nfalse_blocks = sum(1 for a in T_.values() if not all(a))
                if (fals is None) != (nfalse_blocks == 0):
                    cf_stats["model_disagrees_with_intent"] += 1
                lab = "cf-%s-%s-%03d" % (variant[:2], truth_kind, len(cf_jobs))
                cc = Case(-1, lab, prog_.files(pr), T_, [], [], {"classes": [("control-flow", variant, truth_kind, "int")], "nfalse_intended": 0, "removed": []},
                          frozenset(["control-flow"]))
                cc.kind = "control-flow"
                cc.cf = (variant, truth_kind, g, names_)
                cf_jobs.append(cc)
        ctx.require(cf_stats["model_disagrees_with_intent"] == 0, "control-flow grid: the reference model does not see the intended truth values")
        for c, r, exists in pmap(do, cf_jobs):
            variant, truth_kind, g, names_ = c.cf
            cf_stats["programs_all_true" if truth_kind == "all-true" else "programs_one_false"] += 1
            if r.timeout:
                cf_stats["outcomes"]["watchdog"] = cf_stats["outcomes"].get("watchdog", 0) + 1
                continue
            o, viol = judge(c, r, exists)
            cf_stats["outcomes"][truth_kind + ":" + o] = cf_stats["outcomes"].get(truth_kind + ":" + o, 0) + 1
            if o.startswith("skip:"):
                viol = viol + [("refused-for-another-reason", o)]
            for key, msg in viol:
                # which cells: the blocks nanoc named (all-true) / the cell of the program (one false)
                named = [names_[x] for x, _ in FAILED_RE.findall(r.text()) if x in names_] or list(g)
                for cell in named[:6]:
                    ctx.violation("control-flow|%s|%s|%s|%s|%s|%s|%s" % (variant, cell[0], cell[2], cell[3], cell[1], truth_kind, key),
                                  "%s (%s; loop %s, exit %s at the %s iteration, %s): %s" % (c.label, variant, cell[0], cell[2], cell[3], cell[1], msg),
                                  {"main.nano": c.files["main.nano"], "nanoc.stdout": r.out, "nanoc.stderr": r.err, "expected.txt": "T(p) = %r\n" % (c.T,)})

        # ---------------- several shadow blocks for one function -------------------------------------------------
        mb_stats = {"programs": 0, "outcomes": {}}
        mb_jobs = []
        for label, text, T_, nblk, layout, pos in multi_block_programs():
            mc = Case(-1, label, {"main.nano": text}, T_, [], [], {"classes": [("multi-block", layout, pos, "int")], "nfalse_intended": 0, "removed": []}, frozenset(["multi-block"]))
            mc.kind = "multi-block"
            mc.mb = (nblk, layout, pos)
            mb_jobs.append(mc)
        for c, r, exists in pmap(do, mb_jobs):
            mb_stats["programs"] += 1
            if r.timeout:
                mb_stats["outcomes"]["watchdog"] = mb_stats["outcomes"].get("watchdog", 0) + 1
                continue
            o, viol = judge(c, r, exists)
            mb_stats["outcomes"][o] = mb_stats["outcomes"].get(o, 0) + 1
            if o.startswith("skip:"):
                viol = viol + [("refused-for-another-reason", o)]
            for key, msg in viol:
                ctx.violation("multi-block|%d-blocks|%s|false-in-%s|%s" % (c.mb[0], c.mb[1], c.mb[2], key), "%s: %s" % (c.label, msg),
                              {"main.nano": c.files["main.nano"], "nanoc.stdout": r.out, "nanoc.stderr": r.err, "expected.txt": "T(p) = %r\n" % (c.T,)})

        # ---------------- output names x build history ------------------------------------------------------------
        on_stats = {"scenarios": 0, "skipped": 0, "executable_left": 0, "removed": 0, "by_class": {}}

        def do_out(job):
            k, (cls, name), src_arg = job
            return out_name_scenario(plain, sc.sub("outname-%02d" % k), cls, name, src_arg)

        ojobs = [(k * 2 + j, on, src) for k, on in enumerate(OUT_NAMES) for j, src in enumerate(("calc.nano", "./calc.nano"))]
        for res in pmap(do_out, ojobs):
            if not res["setup_ok"] or res.get("timeout") or res.get("refusal") != "shadow":
                on_stats["skipped"] += 1
                continue
            on_stats["scenarios"] += 1
            left = res["after"][0] == "file" and res["after"][1]
            on_stats["by_class"][res["cls"]] = on_stats["by_class"].get(res["cls"], 0) + 1
            if not res["source_still_there"]:
                ctx.violation("output-name|%s|source-file-removed" % res["cls"], "nanoc calc.nano -o %s: the refused compile removed the SOURCE file" % res["name"], {"calc.nano": OUT_BAD})
            if left:
                on_stats["executable_left"] += 1
                ctx.violation("stale-executable-left-at-output-path|%s" % res["cls"],
                              "good build `nanoc %s -o %s`, then the same command on the program with a false assertion: exit %s, but the executable of the earlier build is still at the output path (%r)" % (
                                  res["src"], res["name"], res["status"], res["after"]),
                              {"calc.good.nano": OUT_GOOD, "calc.bad.nano": OUT_BAD, "nanoc.stdout": res["stdout"], "nanoc.stderr": res["stderr"]})
            else:
                on_stats["removed"] += 1

        # ---------------- names of un-shadowed functions -------------------------------------------------------
        from ..run import run as sh_run

        def name_run(job):
            label, files, unshadowed, must_not = job
            d = sc.sub("name-" + label)
            engines.write_files(d, files)
            # the report comes from the type checker; the C compiler is not needed for it (NANO_CC=/bin/true)
            r = sh_run([plain.nanoc, "main.nano", "-o", "main.bin"], cwd=d, env={"NANO_CC": "/bin/true", "TMPDIR": d}, cpu=60)
            if r.timeout:
                r = sh_run([plain.nanoc, "main.nano", "-o", "main.bin"], cwd=d, env={"NANO_CC": "/bin/true", "TMPDIR": d}, cpu=60)
            return job, r

        names_stats = {"names": 0, "names_not_accepted_as_function_names": [], "programs": 0, "unshadowed_functions_checked": 0,
                       "shadowed_or_exempt_functions_checked": 0, "by_placement": {}}

        def name_judge(job, r, placement):
            label, files, unshadowed, must_not = job
            if r.timeout:
                hist["names:watchdog"] = hist.get("names:watchdog", 0) + 1
                return False
            if r.rc != 0:
                return None          # nanoc does not accept the program (e.g. the name is reserved)
            rep = set(MISSING_RE.findall(r.errtext()))
            names_stats["programs"] += 1
            names_stats["by_placement"][placement] = names_stats["by_placement"].get(placement, 0) + 1
            ev_files = dict(files)
            ev_files["nanoc.stderr"] = r.err
            for nm, tag in unshadowed:
                names_stats["unshadowed_functions_checked"] += 1
                if nm not in rep:
                    ctx.violation("missing-shadow-name|not-reported|%s|%s" % (tag, placement.split("/")[0]),
                                  "%s: function '%s' has no shadow block and is not named in a \"missing a shadow test\" report (reported: %s)" % (label, nm[:80], sorted(x[:40] for x in rep)), ev_files)
            for nm, tag in must_not:
                names_stats["shadowed_or_exempt_functions_checked"] += 1
                if nm in rep:
                    ctx.violation("missing-shadow-name|wrongly-reported|%s|%s" % (tag, placement.split("/")[0]),
                                  "%s: '%s' has a shadow block / is extern / is main, but is reported as missing a shadow test" % (label, nm[:80]), ev_files)
            return True

        all_names = [(nm_, nm_) for nm_ in SPECIAL_NAMES] + [(nm_, tag) for tag, nm_ in LONG_NAMES]
        # phase 1: each name alone, first function of the main file
        jobs1 = [("alone-first-%03d" % i, name_program([(nm_, False)], "main-file", "last"), [(nm_, tag)], [("main", "main")]) for i, (nm_, tag) in enumerate(all_names)]
        accepted = []
        for (job, r), (nm_, tag) in zip(pmap(name_run, jobs1), all_names):
            ok = name_judge(job, r, "main-file/alone/first")
            if ok is None:
                names_stats["names_not_accepted_as_function_names"].append(tag)
            elif ok:
                accepted.append((nm_, tag))
        names_stats["names"] = len(accepted)
        # phase 2: the other placements
        jobs2 = []
        for i, (nm_, tag) in enumerate(accepted):
            jobs2.append(("main-file/alone/last", ("alone-last-%03d" % i, name_program([(nm_, False)], "main-file", "first"), [(nm_, tag)], [("main", "main")])))
            jobs2.append(("imported/alone/first", ("imp-alone-%03d" % i, name_program([(nm_, False)], "imported"), [(nm_, tag)], [("main", "main")])))
        for ci in range(0, len(accepted), 5):
            chunk = accepted[ci:ci + 5]
            for where in ("main-file", "imported"):
                for order in ("unshadowed-first", "unshadowed-last"):
                    funcs = []
                    for j, (nm_, tag) in enumerate(chunk):
                        funcs.append((nm_, False))
                        funcs.append(("good%d" % j, True))
                    if order == "unshadowed-last":
                        funcs = funcs[1:] + funcs[:1]
                    must_not = [("good%d" % j, "shadowed") for j in range(len(chunk))] + [("main", "main"), ("getpid", "extern")]
                    jobs2.append(("%s/among/%s" % (where, order), ("among-%s-%s-%03d" % (where, order, ci), name_program(funcs, where, "last", with_extern=True),
                                                                   list(chunk), must_not)))
        for n_len in PAIR_LENGTHS:
            wa, wb = pair_names(n_len)
            for where in ("main-file", "imported"):
                for k, funcs in enumerate(([(wa, True), (wb, False)], [(wb, False), (wa, True)], [(wa, False), (wb, False)])):
                    uns = [(nm, "common-prefix-%d" % n_len) for nm, sh_ in funcs if not sh_]
                    mn = [(nm, "common-prefix-%d" % n_len) for nm, sh_ in funcs if sh_] + [("main", "main")]
                    jobs2.append(("%s/pair/%s" % (where, ["shadowed-first", "unshadowed-first", "both-unshadowed"][k]),
                                  ("pair-%s-%d-%d" % (where, n_len, k), name_program(funcs, where), uns, mn)))
        rejected2 = 0
        for (placement, job), (_, r) in zip(jobs2, pmap(name_run, [j for _, j in jobs2])):
            if name_judge(job, r, placement) is None:
                rejected2 += 1
                ctx.note("name family: nanoc rejected program %s (exit %s): %s" % (job[0], r.status, r.errtext().strip()[-200:]))
        names_stats["programs_rejected_in_phase_2"] = rejected2

        # ---------------- stale file at the -o path ---------------------------------------------------------
        n_stale = ctx.n(6, 40)
        donors = [c for c, r, exists in results if c.kind == "sweep" and c.prog is not None and not r.timeout and not c.prog.modules
                  and any(not all(a) for a in c.T.values()) and engines.classify_nanoc_failure(r) == "shadow" and r.rc != 0 and not exists][:n_stale]
        stale_jobs = []
        for c in donors:
            try:
                good = originals[c.idx].files()
            except (TypeError, ValueError):
                continue
            for v in STALE_VARIANTS:
                stale_jobs.append((c, v, good))

        def do_stale(job):
            c, v, good = job
            d = sc.sub("stale-%s-%s" % (c.label, v))
            res = stale_scenario(plain, d, v, good, c.files)
            if res.get("timeout"):
                res = stale_scenario(plain, d, v, good, c.files)
            return c, res

        stale = {v: {"cases": 0, "refused_by_shadow_test": 0, "executable_at_path_afterwards": 0, "file_kept_unchanged": 0,
                     "file_removed": 0, "skipped": 0} for v in STALE_VARIANTS}
        stale["all-true-overwrites"] = {"cases": 0, "replaced_by_new_build": 0, "skipped": 0}
        for c, res in pmap(do_stale, stale_jobs):
            v = res["variant"]
            h = stale[v]
            if not res["setup_ok"] or res.get("timeout"):
                h["skipped"] += 1
                continue
            h["cases"] += 1
            before, after = res["before"], res["after"]
            files = dict(c.files)
            files["nanoc.stdout"] = res["stdout"]
            files["nanoc.stderr"] = res["stderr"]
            files["scenario.txt"] = "variant: %s\nat the -o path before nanoc: %r\nafter nanoc (exit %s): %r\nT(p) = %r\n" % (v, before, res["status"], after, c.T)
            if v == "all-true-overwrites":
                # counter-control: a successful build replaces whatever was at the path
                if res["rc"] == 0 and after[0] == "file" and after[1] and after[3] != before[3]:
                    h["replaced_by_new_build"] += 1
                elif res["cls"] in ("cc", "crash"):
                    h["skipped"] += 1
                    h["cases"] -= 1
                else:
                    ctx.violation("all-true-did-not-replace-output", "%s: every shadow assertion holds, a stale executable was at -o; nanoc exit %s, path now %r" % (c.label, res["status"], after[:3]), files)
                continue
            if res["cls"] != "shadow":
                h["skipped"] += 1
                h["cases"] -= 1
                continue
            h["refused_by_shadow_test"] += 1
            if after[0] is None:
                h["file_removed"] += 1
            elif after == before:
                h["file_kept_unchanged"] += 1
            if after[0] == "file" and after[1]:
                h["executable_at_path_afterwards"] += 1
                ctx.violation(K_STALE, "%s [%s]: nanoc refused the program (a shadow assertion is false, exit %s) but a regular file with an execute bit is at the -o path afterwards (%s)" % (
                    c.label, v, res["status"], "the file that was there before, untouched" if after == before else "size %d" % after[2]), files)
            elif after[0] == "file" and v in ("empty-file", "text-file") and after != before:
                # the controls: kept or removed are both fine, silently CHANGED content would not be
                ctx.violation("output-path-file-modified-by-refused-compile", "%s [%s]: a refused compile changed the non-executable file at the -o path: %r -> %r" % (c.label, v, before, after), files)

        n_false = sum(v for k, v in kinds.items() if k != "0")
        if not ctx.violations:
            ctx.require(sum(h["cases"] for h in stale.values()) >= len(STALE_VARIANTS) * 3, "too few stale-output scenarios ran: %s" % stale)
            ctx.require(cf_stats["outcomes"].get("all-true:built", 0) >= 40 and cf_stats["outcomes"].get("false-first:refused+named", 0) >= 300
                        and cf_stats["outcomes"].get("false-last:refused+named", 0) >= 300, "the control-flow grid did not run as planned: %s" % cf_stats)
            ctx.require(mb_stats["outcomes"].get("built", 0) >= 6 and mb_stats["outcomes"].get("refused+named", 0) >= 20, "the multi-block family did not run as planned: %s" % mb_stats)
            ctx.require(on_stats["scenarios"] >= 20, "the output-name family did not run as planned: %s" % on_stats)
            ctx.require(names_stats["names"] >= 60 and names_stats["unshadowed_functions_checked"] >= 400 and rejected2 <= 6,
                        "the name family did not run as planned: %s" % names_stats)
            for need in ("main_x", "mainx", "Main", "_main", "ma", "mai", "main_menu", "long255", "list_x", "List_abc"):
                ctx.require(need not in names_stats["names_not_accepted_as_function_names"], "nanoc does not accept '%s' as a function name" % need)
            ctx.require(builtins_judged >= 40, "too few builtins could be exercised (%d): %s" % (builtins_judged, builtin_table))
            for need in ("sqrt", "pow", "floor", "ceil", "round", "sin", "cos", "tan", "atan2", "abs", "min", "max", "str_length", "at", "array_length"):
                ctx.require(isinstance(builtin_table.get(need), dict), "builtin %s could not be exercised: %s" % (need, builtin_table.get(need)))
            ctx.require(judged >= len(cases) * 0.7, "too few programs reached a verdict (%d of %d): %s" % (judged, len(cases), hist))
            ctx.require(hist.get("built", 0) >= n // 12 and hist.get("refused+named", 0) >= n // 6,
                        "the run did not see enough of both sides of the gate: %s" % hist)
            ctx.require(missing_checked >= n // 20, "too few functions without a shadow block were observed")
        return ctx.finish({
            "evaluations": len(results) + sum(h["cases"] for h in stale.values()) + 4 * builtins_judged + names_stats["programs"] + cf_stats["programs_all_true"] + cf_stats["programs_one_false"] + mb_stats["programs"] + on_stats["scenarios"],
            "control_flow_grid": dict(cf_stats, loops=CF_LOOPS, exits=CF_EXITS, iterations=CF_ITERS, follows=CF_FOLLOWS,
                                      variants=["function", "in-shadow-block"], truth=["all-true", "false-first", "false-last"], exhaustive=True),
            "several_blocks_per_function": dict(mb_stats, blocks=[2, 3], layouts=["adjacent", "interleaved", "around-definitions"], exhaustive=True),
            "output_names_x_history": dict(on_stats, names=[c for c, _ in OUT_NAMES], source_spellings=["calc.nano", "./calc.nano"], exhaustive=True),
            "missing_shadow_name_family": dict(names_stats, pair_lengths=PAIR_LENGTHS, exhaustive=True),
            "builtin_coverage": {"builtins_listed": len(BUILTINS), "builtins_exercised": builtins_judged,
                                 "variants": ["body-false", "shadow-false", "all-true", "no-shadow"], "exhaustive": True, "table": builtin_table},
            "distinct_nontrivial": len(shapes),
            "rule": "distinct (position classes of the falsified assertions [wrapper, block position, assertion position, value type], count class "
                    "of false assertions in T(p), number of removed shadow blocks, generator feature set) among programs that reached a verdict",
            "programs": len(cases),
            "multi_file_programs": len(multi_cases),
            "programs_by_count_class": dict(sorted(kinds.items())),
            "position_classes": dict(sorted(pos_hist.items())),
            "outcomes": dict(sorted(hist.items())),
            "assertions_executed_in_model": asserts_executed,
            "false_assertions_executed_in_model": false_executed,
            "functions_without_shadow_block_checked": missing_checked,
            "refusals_naming_exactly_the_failing_blocks": named_exact,
            "failed_lines_with_count_equal_to_model": "%d/%d" % tuple(count_match),
            "generation_skipped": gen_skipped,
            "stale_output_scenarios": stale,
            "stale_output_reading": "after a compile refused because of a shadow test there is no regular file with any execute bit at the -o path; "
                                    "non-executable files (empty, text: the controls) may be kept or removed, but not modified",
            "samples": samples,
        }, assumptions=[
            "T(p) is computed by the reference model nlv/gen/ref.py with record-and-continue semantics for assert (what the documentation and eval.c do inside shadow blocks)",
            "a program refused for a reason other than shadow tests (C compiler failure, evaluator crash) is counted as skipped: those are C04's / C03's subject",
            "`main` is not required to have a shadow block (typechecker.c exempts it; the documentation says main 'usually' has one)",
            "the shadow assertions of generated programs only call functions that do not depend on mutable globals",
        ])


def cause_key(ctx, plain, sc, c, key):
    """reduce the program while the same disagreement persists; the key names the wrapper class, the compared type
    and the constructs left in the reduced program"""
    want_false = key == "gate-open"

    def still(p, e):
        T = truth(p)
        if T is None:
            return False
        has_false = any(not all(a) for a in T.values())
        if has_false != want_false:
            return False
        d = sc.sub("red-" + c.label)
        r, exists = observe(plain, d, p.files())
        if want_false:
            return r.rc == 0 and exists
        return (not exists) and engines.classify_nanoc_failure(r) == "shadow"
    sig, small = "not-reduced", None
    if sweep._REDUCTIONS[0] < sweep.MAX_REDUCTIONS:
        # only the first few disagreements of a run are reduced (a broken gate makes hundreds of programs fail)
        try:
            sig, small = sweep.reduced_key(c.prog, still)
        except Exception:
            sig, small = "not-reduced", None
    cls = ",".join(sorted(set("%s/%s" % (x[0], x[3]) for x in c.intent["classes"]))) or "-"
    return "%s|%s|%s" % (key, cls, sig), small
