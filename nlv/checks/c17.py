"""C17 - daemon execution is transparent and concurrent clients are isolated (DESIGN §4 C17).

A private `nano_vmd` (tsan flavor, hook H3 directory) is started for every round.  Two kinds of clients submit
modules at the same time:
  (a) the real `nano_vm --daemon x.nvm` binary (tsan flavor),
  (b) tools/vmd_client.py sessions that hold back the last payload byte and release it at a barrier / with jitter.
Oracle 1 (transparency + isolation): what a client observes - stdout bytes, error text, exit status - equals what
`nano_vm x.nvm` standalone (same flavor) gives for the same module.  Every output line of every module starts
with the module's own id, so a foreign line is attributable.
Oracle 2 (race detector): every ThreadSanitizer report in the daemon's log is a violation, keyed by the racing
location and the top in-repo frames of both access stacks (line numbers stripped).
Every round runs twice: yield hook off, and NLVERIF_YIELD_US on.
"""
import importlib.util
import os
import re
import shutil
import threading

from .. import build, core
from ..run import run as sh, pmap, Scratch

LEVEL = "exploration"
_VLOCK = threading.RLock()


def _repo_hash():
    """Content hash of the build-relevant files of the tree under test only (build.tree_hash also covers /verif/tools and
    probes, which other people edit while a check runs)."""
    import hashlib
    h = hashlib.sha256()
    for p in build._iter_files(build.REPO):
        try:
            with open(p, "rb") as f:
                h.update(p.encode() + b"\0" + hashlib.sha256(f.read()).digest())
        except OSError:
            h.update(p.encode() + b"\0?")
    return h.hexdigest()


def _violation(ctx, key, what, files=None):
    with _VLOCK:                                  # rounds may run in parallel lanes
        return ctx.violation(key, what, files)

_spec = importlib.util.spec_from_file_location("nlv_vmd_client", os.path.join(core.VERIF, "tools", "vmd_client.py"))
vc = importlib.util.module_from_spec(_spec)
_spec.loader.exec_module(vc)

YIELD_US = 2000


# ---------------------------------------------------------------------------------------------------------------
# Workload: hand-written program shapes.  Every output line starts with "<ID>:"; ints, strings, while loops,
# functions, mutable globals only.  `n` scales the amount of output.
# ---------------------------------------------------------------------------------------------------------------

def _p_counter(mid, n):
    return """
let mut G: int = %(seed)d
fn bump(x: int) -> int {
    set G (+ G x)
    return G
}
shadow bump { assert true }
fn main() -> int {
    let mut i: int = 0
    while (< i %(n)d) {
        (println (+ "%(id)s:bump " (+ (int_to_string i) (+ " -> " (int_to_string (bump i))))))
        set i (+ i 1)
    }
    (println (+ "%(id)s:final G=" (int_to_string G)))
    return 0
}
shadow main { assert true }
""" % {"id": mid, "n": n, "seed": sum(mid.encode()) * 1000}


def _p_strgrow(mid, n):
    return """
let mut S: string = ""
let mut TOTAL: int = 0
fn grow(piece: string) -> int {
    set S (+ S piece)
    set TOTAL (+ TOTAL (str_length piece))
    return (str_length S)
}
shadow grow { assert true }
fn tail(s: string, k: int) -> string {
    let len: int = (str_length s)
    if (<= len k) { return s } else { return (str_substring s (- len k) k) }
}
shadow tail { assert true }
fn main() -> int {
    let mut i: int = 0
    while (< i %(n)d) {
        let l: int = (grow (+ "<" (+ (int_to_string (* i 7)) ">")))
        (println (+ "%(id)s:len=" (+ (int_to_string l) (+ " tail=" (tail S 24)))))
        set i (+ i 1)
    }
    assert (== TOTAL (str_length S))
    (println (+ "%(id)s:total=" (int_to_string TOTAL)))
    return 0
}
shadow main { assert true }
""" % {"id": mid, "n": n}


def _p_fib(mid, n):
    return """
fn fib(n: int) -> int {
    if (< n 2) { return n } else { return (+ (fib (- n 1)) (fib (- n 2))) }
}
shadow fib { assert (== (fib 6) 8) }
fn main() -> int {
    let mut i: int = 0
    while (< i 19) {
        (println (+ "%(id)s:fib(" (+ (int_to_string i) (+ ")=" (int_to_string (fib i))))))
        set i (+ i 1)
    }
    let mut a: int = 0
    let mut b: int = 1
    set i 0
    while (< i %(n)d) {
        let c: int = (+ a b)
        set a b
        set b (%% c 1000000007)
        (println (+ "%(id)s:it " (+ (int_to_string i) (+ " " (int_to_string a)))))
        set i (+ i 1)
    }
    return 0
}
shadow main { assert true }
""" % {"id": mid, "n": n}


def _p_collatz(mid, n):
    return """
let mut LONGEST: int = 0
let mut ARG: int = 0
fn steps(start: int) -> int {
    let mut x: int = start
    let mut k: int = 0
    while (!= x 1) {
        if (== (%% x 2) 0) { set x (/ x 2) } else { set x (+ (* 3 x) 1) }
        set k (+ k 1)
    }
    if (> k LONGEST) {
        set LONGEST k
        set ARG start
    } else {}
    return k
}
shadow steps { assert (== (steps 1) 0) }
fn main() -> int {
    let mut i: int = 1
    while (<= i %(n)d) {
        (println (+ "%(id)s:collatz " (+ (int_to_string i) (+ " steps=" (+ (int_to_string (steps i)) (+ " longest=" (+ (int_to_string LONGEST) (+ "@" (int_to_string ARG)))))))))
        set i (+ i 1)
    }
    return 0
}
shadow main { assert true }
""" % {"id": mid, "n": n}


def _p_array(mid, n):
    return """
let mut SUM: int = 0
fn main() -> int {
    let mut a: array<int> = []
    let mut i: int = 0
    while (< i %(n)d) {
        set a (array_push a (* i (+ i 3)))
        set i (+ i 1)
    }
    (array_set a 3 -77)
    set i 0
    while (< i (array_length a)) {
        set SUM (+ SUM (at a i))
        (print "%(id)s:a[")
        (print i)
        (print "]=")
        (print (at a i))
        (print " sum=")
        (println SUM)
        set i (+ i 1)
    }
    return 0
}
shadow main { assert true }
""" % {"id": mid, "n": n}


def _p_primes(mid, n):
    return """
let mut COUNT: int = 0
fn is_prime(x: int) -> bool {
    if (< x 2) { return false } else {}
    let mut d: int = 2
    while (<= (* d d) x) {
        if (== (%% x d) 0) { return false } else {}
        set d (+ d 1)
    }
    return true
}
shadow is_prime { assert (is_prime 7) }
fn main() -> int {
    let mut x: int = 0
    while (< x %(n)d) {
        if (is_prime x) {
            set COUNT (+ COUNT 1)
            (println (+ "%(id)s:prime #" (+ (int_to_string COUNT) (+ " = " (int_to_string x)))))
        } else {
            (print "%(id)s:composite ")
            (print x)
            (print " prime? ")
            (println (is_prime x))
        }
        set x (+ x 1)
    }
    return 0
}
shadow main { assert true }
""" % {"id": mid, "n": n}


def _p_table(mid, n):
    return """
fn row(r: int, cols: int) -> string {
    let mut s: string = ""
    let mut c: int = 1
    while (<= c cols) {
        set s (+ s (+ " " (int_to_string (* r c))))
        set c (+ c 1)
    }
    return s
}
shadow row { assert (== (row 1 2) " 1 2") }
fn main() -> int {
    let mut r: int = 1
    while (<= r %(n)d) {
        (println (+ "%(id)s:row " (+ (int_to_string r) (+ ":" (row r 40)))))
        set r (+ r 1)
    }
    return 0
}
shadow main { assert true }
""" % {"id": mid, "n": n}


def _p_lcg(mid, n):
    # big output: n lines of ~60 bytes; three mutable globals carry the generator state
    return """
let mut X: int = %(seed)d
let mut CALLS: int = 0
let mut ACC: int = 0
fn next() -> int {
    set X (%% (+ (* X 1103515245) 12345) 2147483648)
    set CALLS (+ CALLS 1)
    set ACC (%% (+ ACC X) 1000003)
    return X
}
shadow next { assert true }
fn main() -> int {
    let mut i: int = 0
    while (< i %(n)d) {
        let v: int = (next)
        (println (+ "%(id)s:lcg call=" (+ (int_to_string CALLS) (+ " value=" (+ (int_to_string v) (+ " acc=" (+ (int_to_string ACC) " ................")))))))
        set i (+ i 1)
    }
    assert (== CALLS %(n)d)
    return 0
}
shadow main { assert true }
""" % {"id": mid, "n": n, "seed": sum(mid.encode()) + 17}


def _p_assert_end(mid, n):
    return """
let mut G: int = 1
fn step(i: int) -> int {
    set G (%% (+ (* G 31) i) 65521)
    return G
}
shadow step { assert true }
fn main() -> int {
    let mut i: int = 0
    while (< i %(n)d) {
        (println (+ "%(id)s:step " (+ (int_to_string i) (+ " g=" (int_to_string (step i))))))
        set i (+ i 1)
    }
    (println "%(id)s:about to fail an assertion")
    assert (== G -1)
    (println "%(id)s:NOT REACHED")
    return 0
}
shadow main { assert true }
""" % {"id": mid, "n": n}


def _p_oob_end(mid, n):
    return """
fn main() -> int {
    let a: array<int> = [10, 20, 30, 40]
    let mut i: int = 0
    while (< i %(n)d) {
        (println (+ "%(id)s:item " (+ (int_to_string i) (+ " = " (int_to_string (at a (%% i 4)))))))
        set i (+ i 1)
    }
    (println "%(id)s:about to index out of bounds")
    (println "%(id)s:oob next")
    (println (at a (+ i 1000)))
    (println "%(id)s:after the out-of-bounds access")
    return 0
}
shadow main { assert true }
""" % {"id": mid, "n": n}


def _p_evenodd(mid, n):
    return """
fn is_even(n: int) -> bool {
    if (== n 0) { return true } else { return (is_odd (- n 1)) }
}
fn is_odd(n: int) -> bool {
    if (== n 0) { return false } else { return (is_even (- n 1)) }
}
shadow is_even { assert (is_even 4) }
shadow is_odd { assert (is_odd 3) }
fn main() -> int {
    let mut i: int = 0
    while (< i %(n)d) {
        (print "%(id)s:even(")
        (print i)
        (print ")=")
        (print (is_even i))
        (print " odd=")
        (println (is_odd i))
        set i (+ i 1)
    }
    return 0
}
shadow main { assert true }
""" % {"id": mid, "n": n}


def _p_gcd(mid, n):
    return """
fn gcd(a: int, b: int) -> int {
    if (== b 0) { return a } else { return (gcd b (%% a b)) }
}
shadow gcd { assert (== (gcd 12 18) 6) }
fn main() -> int {
    let mut a: int = 1
    while (<= a %(n)d) {
        let mut b: int = 1
        let mut line: string = ""
        while (<= b 24) {
            set line (+ line (+ (int_to_string (gcd (* a 6) (* b 4))) ","))
            set b (+ b 1)
        }
        (println (+ "%(id)s:gcd row " (+ (int_to_string a) (+ " " line))))
        set a (+ a 1)
    }
    return 0
}
shadow main { assert true }
""" % {"id": mid, "n": n}


def _p_reverse(mid, n):
    return """
let mut LAST: string = "seed"
fn rev(s: string) -> string {
    let mut i: int = (- (str_length s) 1)
    let mut r: string = ""
    while (>= i 0) {
        set r (+ r (string_from_char (char_at s i)))
        set i (- i 1)
    }
    return r
}
shadow rev { assert (== (rev "abc") "cba") }
fn main() -> int {
    let mut i: int = 0
    while (< i %(n)d) {
        set LAST (rev (+ (int_to_string (* i 12345)) (+ "-" (str_substring LAST 0 12))))
        (println (+ "%(id)s:rev " (+ (int_to_string i) (+ " " LAST))))
        set i (+ i 1)
    }
    return 0
}
shadow main { assert true }
""" % {"id": mid, "n": n}


def _p_sort(mid, n):
    return """
let mut SWAPS: int = 0
fn main() -> int {
    let mut a: array<int> = []
    let mut i: int = 0
    let mut x: int = %(seed)d
    while (< i 48) {
        set x (%% (+ (* x 75) 74) 65537)
        set a (array_push a x)
        set i (+ i 1)
    }
    let mut pass: int = 0
    while (< pass %(n)d) {
        let mut j: int = 0
        while (< j 47) {
            if (> (at a j) (at a (+ j 1))) {
                let t: int = (at a j)
                (array_set a j (at a (+ j 1)))
                (array_set a (+ j 1) t)
                set SWAPS (+ SWAPS 1)
            } else {}
            set j (+ j 1)
        }
        (println (+ "%(id)s:pass " (+ (int_to_string pass) (+ " swaps=" (+ (int_to_string SWAPS) (+ " head=" (+ (int_to_string (at a 0)) (+ " last=" (int_to_string (at a 47))))))))))
        set pass (+ pass 1)
    }
    return 0
}
shadow main { assert true }
""" % {"id": mid, "n": n, "seed": sum(mid.encode())}


def _p_depth(mid, n):
    # ends in the VM's call-depth error after n lines
    return """
let mut DEPTH: int = 0
fn down(k: int) -> int {
    set DEPTH (+ DEPTH 1)
    if (== k 0) { return 0 } else { return (+ 1 (down (- k 1))) }
}
shadow down { assert (== (down 3) 3) }
fn main() -> int {
    let mut i: int = 0
    while (< i %(n)d) {
        set DEPTH 0
        (println (+ "%(id)s:down(" (+ (int_to_string i) (+ ")=" (+ (int_to_string (down i)) (+ " depth=" (int_to_string DEPTH)))))))
        set i (+ i 1)
    }
    (println "%(id)s:recursing too deep now")
    (println (+ "%(id)s:NOT REACHED " (int_to_string (down 100000))))
    return 0
}
shadow main { assert true }
""" % {"id": mid, "n": n}


def _p_longlines(mid, n):
    # big output: n lines of ~210 bytes
    return """
fn pad(s: string, width: int) -> string {
    let mut r: string = s
    while (< (str_length r) width) {
        set r (+ r (+ "." s))
    }
    return (str_substring r 0 width)
}
shadow pad { assert (== (str_length (pad "ab" 7)) 7) }
fn main() -> int {
    let mut i: int = 0
    while (< i %(n)d) {
        (println (+ "%(id)s:long " (+ (int_to_string i) (+ " " (pad (int_to_string (* (+ i 1) 7919)) 200)))))
        set i (+ i 1)
    }
    return 0
}
shadow main { assert true }
""" % {"id": mid, "n": n}


def _p_assert_nested(mid, n):
    return """
let mut BAL: int = 100
let mut OPS: int = 0
fn withdraw(x: int) -> int {
    set OPS (+ OPS 1)
    assert (>= BAL x)
    set BAL (- BAL x)
    return BAL
}
shadow withdraw { assert true }
fn deposit(x: int) -> int {
    set OPS (+ OPS 1)
    set BAL (+ BAL x)
    return BAL
}
shadow deposit { assert true }
fn main() -> int {
    let mut i: int = 0
    while (< i %(n)d) {
        if (== (%% i 3) 0) {
            (println (+ "%(id)s:deposit -> " (int_to_string (deposit (+ i 1)))))
        } else {
            (println (+ "%(id)s:withdraw -> " (int_to_string (withdraw (%% i 5)))))
        }
        set i (+ i 1)
    }
    (println (+ "%(id)s:ops=" (+ (int_to_string OPS) (+ " bal=" (int_to_string BAL)))))
    (println (+ "%(id)s:overdraw " (int_to_string (withdraw (+ BAL 1)))))
    (println "%(id)s:NOT REACHED")
    return 0
}
shadow main { assert true }
""" % {"id": mid, "n": n}


def _p_triangle(mid, n):
    # many small writes per line (print without newline)
    return """
fn main() -> int {
    let mut r: int = 0
    while (< r %(n)d) {
        (print "%(id)s:")
        let mut c: int = 0
        while (<= c (%% r 37)) {
            (print (%% (+ r c) 10))
            set c (+ c 1)
        }
        (println "|")
        set r (+ r 1)
    }
    return 0
}
shadow main { assert true }
""" % {"id": mid, "n": n}


def _p_ret(mid, n):
    # main returns a non-zero value (what becomes of it is whatever standalone does)
    return """
let mut G: int = 5
fn main() -> int {
    let mut i: int = 0
    while (< i %(n)d) {
        set G (+ (* G 3) 1)
        if (> G 1000000) { set G (%% G 997) } else {}
        (println (+ "%(id)s:g=" (int_to_string G)))
        set i (+ i 1)
    }
    return 42
}
shadow main { assert true }
""" % {"id": mid, "n": n}


def _p_nest(mid, n):
    # a heap value nested n levels deep (each node holds the previous one in its `kids` array), built in a loop and dropped
    # at the end: nothing recurses in nanolang, but releasing the value recurses once per level inside the VM (C stack of
    # whichever thread runs the session)
    return """
struct Node {
    val: int,
    kids: array<Node>
}
let mut BUILT: int = 0
fn build(n: int) -> Node {
    let empty: array<Node> = []
    let mut cur: Node = Node { val: 0, kids: empty }
    let mut i: int = 1
    while (< i n) {
        let mut ks: array<Node> = []
        set ks (array_push ks cur)
        set cur (Node { val: i, kids: ks })
        set BUILT (+ BUILT 1)
        if (== (%% i %(step)d) 0) {
            (println (+ "%(id)s:depth " (int_to_string i)))
        } else {}
        set i (+ i 1)
    }
    return cur
}
shadow build { assert true }
fn main() -> int {
    let top: Node = (build %(n)d)
    (println (+ "%(id)s:top " (int_to_string top.val)))
    (println (+ "%(id)s:built " (int_to_string BUILT)))
    return 0
}
shadow main { assert true }
""" % {"id": mid, "n": n, "step": max(1, n // 180)}


# (shape, quick-n, traits)   traits: big = >= 64 KiB of output, err = ends in a runtime error, glob = mutable globals
SHAPES = [
    (_p_counter, 420, {"glob"}), (_p_strgrow, 300, {"glob"}), (_p_fib, 260, set()), (_p_collatz, 330, {"glob"}),
    (_p_array, 280, {"glob"}), (_p_primes, 350, {"glob"}), (_p_table, 220, set()), (_p_lcg, 1500, {"glob", "big"}),
    (_p_assert_end, 240, {"glob", "err"}), (_p_oob_end, 200, {"err"}), (_p_evenodd, 210, set()), (_p_gcd, 230, set()),
    (_p_reverse, 270, {"glob"}), (_p_sort, 250, {"glob"}), (_p_depth, 200, {"glob", "err"}),
    (_p_longlines, 420, {"big"}), (_p_assert_nested, 310, {"glob", "err"}), (_p_triangle, 400, set()),
    (_p_ret, 205, {"glob"}), (_p_nest, 3000, {"glob", "deep"}),
]


class Mod:
    __slots__ = ("mid", "shape", "traits", "src", "path", "blob", "out", "err", "rc")


def _p_tiny(mid, n):
    # a very short session (hammer stage): a dozen lines, one mutable global
    return """
let mut T: int = %(seed)d
fn main() -> int {
    let mut i: int = 0
    while (< i %(n)d) {
        set T (%% (+ (* T 17) i) 9973)
        (println (+ "%(id)s:t " (+ (int_to_string i) (+ " " (int_to_string T)))))
        set i (+ i 1)
    }
    return 0
}
shadow main { assert true }
""" % {"id": mid, "n": n, "seed": sum(mid.encode())}


def make_modules(ctx, sc, fl, copies, tiny=False):
    """`copies` variants of every shape (different id, different size) -> compiled + standalone expectations.
    tiny=True: eight very short modules H00..H07 for the hammer stage instead."""
    mods = []
    k = 0
    for c in range(copies):
        for fn, n, traits in ([(_p_tiny, 6 + 3 * i, {"glob"}) for i in range(8)] if tiny else SHAPES):
            m = Mod()
            m.mid = ("H%02d" if tiny else "M%02d") % k
            m.shape = fn.__name__[3:]
            m.traits = traits
            m.src = fn(m.mid, n + (0 if tiny else 37 * c))
            mods.append(m)
            k += 1
    env = {"TSAN_OPTIONS": "halt_on_error=0:exitcode=0:log_path=%s" % os.path.join(sc.sub("tsan-standalone"), "t")}

    def prep(m):
        src = sc.file("mods/%s.nano" % m.mid, m.src)
        m.path = os.path.join(sc.path, "mods", m.mid + ".nvm")
        c = sh([fl.nano_virt, src, "--emit-nvm", "-o", m.path], cpu=60, env=env)
        if c.rc != 0 or not os.path.exists(m.path):
            return "nano_virt failed on %s (%s): %s" % (m.mid, m.shape, c.brief())
        m.blob = open(m.path, "rb").read()
        runs = [sh([fl.nano_vm, m.path], cpu=120, env=env, max_out=64 << 20) for _ in range(2)]
        a, b = runs
        if a.timeout or a.sig or b.timeout or b.sig:
            return "standalone run of %s (%s) ended abnormally: %s" % (m.mid, m.shape, a.brief())
        if (a.out, a.err, a.rc) != (b.out, b.err, b.rc):
            return "standalone run of %s (%s) is not deterministic" % (m.mid, m.shape)
        m.out, m.err, m.rc = a.out, a.err, a.rc
        return None

    for problem in pmap(prep, mods):
        ctx.require(problem is None, problem)
    for m in mods:
        # the workload's own promises (so that "foreign line" below means something)
        lines = m.out.split(b"\n")
        ctx.require(m.out.endswith(b"\n") and all(l.startswith(m.mid.encode() + b":") for l in lines[:-1]),
                    "module %s prints a line without its id" % m.mid)
        ctx.require(tiny or len(lines) > 150, "module %s prints only %d lines" % (m.mid, len(lines)))
        if "big" in m.traits:
            ctx.require(len(m.out) >= 65536, "module %s is meant to print >= 64 KiB, printed %d" % (m.mid, len(m.out)))
        if "err" in m.traits:
            ctx.require(m.rc != 0 and b"Runtime error" in m.err, "module %s is meant to end in a runtime error" % m.mid)
    return mods


# ---------------------------------------------------------------------------------------------------------------
# ThreadSanitizer log parsing
# ---------------------------------------------------------------------------------------------------------------

_FRAME = re.compile(r"^\s+#\d+\s+(\S+)\s+(\S+?)(?::\d+)*\s+\(")
_ACCESS = re.compile(r"^\s+(?:Previous\s+)?(?:[Aa]tomic\s+)?(?:[Rr]ead|[Ww]rite) of size \d+")


def parse_tsan(text):
    """-> [(key, report_text)].  key = tsan|<kind> on <location>|<fa>|<fb>: fa, fb = top in-repo frame (function name,
    no line number) of the two access stacks, sorted."""
    out = []
    for block in text.split("=================="):
        m = re.search(r"WARNING: ThreadSanitizer: ([^\n(]+)", block)
        if not m:
            continue
        kind = m.group(1).strip()
        stacks = []
        cur = None
        loc = ""
        for line in block.splitlines():
            lm = re.match(r"\s+Location is (global '([^']+)'|heap block|stack of|file descriptor|thread-local)", line)
            if lm:
                loc = lm.group(2) or lm.group(1).split()[0]
            if _ACCESS.match(line):
                cur = []
                stacks.append(cur)
                continue
            fm = _FRAME.match(line)
            if fm and cur is not None:
                if "src/" in fm.group(2) and "libsanitizer" not in fm.group(2):
                    cur.append(fm.group(1))
                continue
            # blank line or any other section header (mutex, thread creation, "As if synchronized via sleep")
            cur = None
        if kind != "data race" and not stacks:
            # other report kinds (lock-order-inversion, signal-unsafe call, ...): use every in-repo frame of the report
            fr = []
            for line in block.splitlines():
                fm = _FRAME.match(line)
                if fm and "src/" in fm.group(2) and "libsanitizer" not in fm.group(2):
                    fr.append(fm.group(1))
            stacks = [fr[:3]]
        # Key: racing location + innermost in-repo function of each of the two access stacks (sorted).  Deeper frames and
        # line numbers are left to the report text: the same race is reached through several callers / inlining
        # variants, and TSan sometimes cannot restore the older stack at all ("?"), none of which makes it another race.
        while len(stacks) < 2 and kind == "data race":
            stacks.append([])
        sk = sorted((s[0] if s else "?") for s in stacks[:2])
        key = "tsan|%s%s|%s" % (kind, (" on " + loc) if loc else "", "|".join(sk))
        out.append((key, block.strip()))
    return out


# ---------------------------------------------------------------------------------------------------------------
# Comparison
# ---------------------------------------------------------------------------------------------------------------

def classify_output(got, m, all_ids):
    """Why do the output bytes differ?  (used for the violation key; the verdict itself is got != expected)"""
    own = m.mid.encode() + b":"
    foreign = set()
    for line in got.split(b"\n"):
        if line and not line.startswith(own):
            for i in all_ids:
                if i.encode() + b":" in line:
                    foreign.add(i)
    if foreign or any(i.encode() + b":" in got for i in all_ids if i != m.mid):
        return "foreign-output"
    if m.out.startswith(got):
        return "truncated" if got else "empty"
    if got.startswith(m.out):
        return "extra-output"
    exp_lines = m.out.split(b"\n")
    it = iter(exp_lines)
    if all(any(l == e for e in it) for l in got.split(b"\n")):
        return "lines-missing"
    if sorted(got.split(b"\n")) == sorted(exp_lines):
        return "reordered"
    return "different-bytes"


def compare(ctx, m, kind, got_out, got_err, got_rc, all_ids, where, detail):
    """kind: 'py' (vmd_client.py session) or 'bin' (nano_vm --daemon).  Returns True if equal."""
    diffs = []
    if got_out != m.out:
        diffs.append("stdout:" + classify_output(got_out, m, all_ids))
    if got_err != m.err:
        # error text: standalone prints "Runtime error: <type>\n  <detail>\n" on stderr; the daemon sends the same text
        # as one ERROR frame which the client prints with a trailing newline - compared byte for byte, nothing normalised.
        diffs.append("stderr:" + ("foreign" if any(i.encode() + b":" in got_err for i in all_ids) else
                                  "missing" if not got_err else "unexpected" if not m.err else "different"))
    if got_rc != m.rc:
        diffs.append("exit:%s!=%s" % (got_rc, m.rc))
    if not diffs:
        return True
    key = "client!=standalone|%s|%s" % (kind, ",".join(diffs))
    first = 0
    while first < min(len(got_out), len(m.out)) and got_out[first] == m.out[first]:
        first += 1
    what = ("%s client of module %s (%s) observed something else than `nano_vm %s.nvm` standalone: %s\n%s\n"
            "stdout: got %d bytes, expected %d, first difference at byte %d\n got : %r\n want: %r\n"
            "stderr got : %r\nstderr want: %r\nexit got %r want %r\n%s"
            % ({"py": "vmd_client.py", "bin": "nano_vm --daemon"}[kind], m.mid, m.shape, m.mid, ", ".join(diffs), where,
               len(got_out), len(m.out), first, got_out[max(0, first - 80): first + 160], m.out[max(0, first - 80): first + 160],
               got_err[:400], m.err[:400], got_rc, m.rc, detail))
    _violation(ctx, key, what, {"module.nano": m.src, "module.nvm": m.blob, "expected.stdout": m.out, "got.stdout": got_out,
                              "expected.stderr": m.err, "got.stderr": got_err})
    return False


# ---------------------------------------------------------------------------------------------------------------
# One wave = one set of simultaneously released sessions against a live daemon
# ---------------------------------------------------------------------------------------------------------------

class Stats:
    def __init__(self):
        self.sessions = 0
        self.sessions_py = 0
        self.sessions_bin = 0
        self.bytes = 0
        self.max_status_executing = 0
        self.max_status_active = 0
        self.max_client_overlap = 0
        self.patterns = set()
        self.status_samples = 0
        self.pings = 0
        self.pongs = 0
        self.tsan = {}               # round kind -> number of reports
        self.tsan_distinct = {}
        self.rounds = []             # description of nontrivial rounds
        self.round_keys = set()
        self.waves = 0
        self.reruns = 0
        self.mismatches = 0
        self.client_tsan = 0
        self.hammer_sessions = 0
        self.lost = 0
        self.bad_events = 0
        self.stopped_early = False
        self.repo_hash = None
        self.tiny = []


def run_wave(ctx, st, dm, fl, client_bin, picks, mode, rng, n_bin, where, sc, preconnect=False):
    """picks: list of Mod.  The first n_bin are run by the real binary, the others by held python sessions.
    Returns (ok, trouble): trouble = client-side watchdog / connection problems (inconclusive material)."""
    all_ids = sorted(set(m.mid for m in picks))
    bins, pys = picks[:n_bin], picks[n_bin:]
    delays = [rng.uniform(0, 0.03) if rng.random() < 0.8 else rng.uniform(0.03, 0.15) for _ in pys]
    cenv = {"NLVERIF_VMD_DIR": dm.vmd_dir, "PATH": "/usr/bin:/bin",
            "TSAN_OPTIONS": "halt_on_error=0:exitcode=0:log_path=%s" % os.path.join(sc.sub("tsan-client"), "c")}

    def mk(m):
        return lambda: sh([client_bin, "--daemon", m.path], cpu=120, wall=120, env=cenv, max_out=64 << 20)

    family = "%s%s" % (mode, ",connections made first in one burst" if preconnect else "")
    reps, xres, ws = vc.run_wave(dm.vmd_dir, [m.blob for m in pys], mode=mode, delays=delays, timeout=120.0,
                                 extras=[mk(m) for m in bins], preconnect=preconnect, lost_grace=5.0, lost_samples=8)
    hung_bins = [m for m, r in zip(bins, xres) if r is not None and r.timeout]
    lost_bins = ()
    if hung_bins and dm.alive() and vc.nothing_in_service(dm.vmd_dir):
        # the watchdog only prompted the question; the verdict is the daemon's own statement that it serves nobody
        with _VLOCK:
            st.lost += len(hung_bins)
            st.bad_events += len(hung_bins)
        _violation(ctx, "session-lost|nano_vm --daemon|%s" % family,
                   "%d `nano_vm --daemon` client(s) (%s) were still waiting after 120 s although the daemon answers PING and reports "
                   "no session in service\n%s" % (len(hung_bins), " ".join(m.mid for m in hung_bins), where))
        xres = [None if (r is not None and r.timeout) else r for r in xres]
        lost_bins = tuple(hung_bins)
    trouble = []
    ok = True
    daemon_alive = dm.alive()
    with _VLOCK:                                    # lanes share `st`
        st.waves += 1
        return _account_wave(ctx, st, ws, pys, reps, bins, xres, all_ids, where, daemon_alive, trouble, ok, family,
                             [round(d, 3) for d in delays] if mode == "jitter" else "all at the barrier", lost_bins)


def _account_wave(ctx, st, ws, pys, reps, bins, xres, all_ids, where, daemon_alive, trouble, ok, family, schedule, lost_bins=()):
    for m, r in zip(pys, reps):
        if r.lost and daemon_alive:
            # logical verdict of the wave monitor (tools/vmd_client.py run_wave): the daemon itself says it serves no such session
            st.sessions += 1
            st.sessions_py += 1
            st.lost += 1
            st.bad_events += 1
            _violation(ctx, "session-lost|%s" % family,
                       "a complete, well-formed request of module %s (%s) got neither a reply nor a closed connection: %s\n%s\n"
                       "modules of the wave (arrival order): %s\nrelease delays (s): %s"
                       % (m.mid, m.shape, r.lost, where, " ".join(x.mid for x in pys), schedule),
                       {"module.nvm": m.blob, "wave.txt": "%s\nmodules: %s\ndelays: %s\n" % (where, " ".join(x.mid for x in pys), schedule)})
            continue
        if r.exc or r.timeout:
            trouble.append("py %s: exc=%s timeout=%s" % (m.mid, r.exc, r.timeout))
            if daemon_alive:
                continue
        st.sessions += 1
        st.sessions_py += 1
        st.bytes += r.nbytes
        detail = "frames=%d eof=%s reset=%s partial=%d frames_after_exit=%d" % (len(r.frames), r.eof, r.reset, r.partial, r.after_exit)
        if not compare(ctx, m, "py", r.out, r.err_text(), r.exit_code, all_ids, where, detail):
            ok = False
            st.mismatches += 1
            st.bad_events += 1
    for m, r in zip(bins, xres):
        if r is None and m in lost_bins:
            continue
        if r is None or r.timeout:
            trouble.append("bin %s: no result / watchdog" % m.mid)
            if daemon_alive or r is None:
                continue
        st.sessions += 1
        st.sessions_bin += 1
        st.bytes += len(r.out)
        rc = r.rc if not r.sig else -r.sig
        if not compare(ctx, m, "bin", r.out, r.err, rc, all_ids, where, "signal=%s" % r.sig):
            ok = False
            st.mismatches += 1
            st.bad_events += 1
    st.status_samples += ws["status_samples"]
    st.pings += ws["pings"]
    st.pongs += ws["pongs"]
    conc = ws["status_max_executing"]
    st.max_status_executing = max(st.max_status_executing, conc)
    st.max_status_active = max(st.max_status_active, ws["status_max_active"])
    st.max_client_overlap = max(st.max_client_overlap, vc.max_overlap(reps))
    st.patterns.add(vc.overlap_pattern(reps))
    if ws["pings"] != ws["pongs"] and daemon_alive:
        _violation(ctx, "ping-unanswered-during-wave", "a PING sent while %s was running got no PONG (%d of %d answered)"
                      % (where, ws["pongs"], ws["pings"]))
    return ok, trouble, conc


HAMMER_THREADS = 12
BAD_CAP = 3            # cost cap: after this many lost sessions / wrong results no further round is scheduled


def hammer(ctx, st, dm, rng, where, per_thread):
    """Dense arrivals: HAMMER_THREADS clients issue very short sessions back to back on the warm daemon, so that connections
    are accepted while other sessions are just finishing (descriptor numbers are recycled at once).  Same oracle as the
    waves: every session equals standalone, no foreign line.  Returns client-side trouble (watchdog / connect)."""
    tiny = st.tiny
    all_ids = [m.mid for m in tiny]
    plan = [[rng.choice(tiny) for _ in range(per_thread)] for _ in range(HAMMER_THREADS)]
    results = [[] for _ in range(HAMMER_THREADS)]

    def worker(w):
        for m in plan[w]:
            results[w].append((m, vc.exec_module(dm.vmd_dir, m.blob, 45.0)))
            if (results[w][-1][1].exc and not dm.alive()) or results[w][-1][1].timeout or st.bad_events >= BAD_CAP:
                break

    ths = [threading.Thread(target=worker, args=(w,), daemon=True) for w in range(HAMMER_THREADS)]
    for t in ths:
        t.start()
    for t in ths:
        t.join(600)
    trouble = []
    alive = dm.alive()
    hung = [(m, r) for w in range(HAMMER_THREADS) for m, r in results[w] if r.timeout and r.nbytes == 0]
    lost = bool(hung) and alive and vc.nothing_in_service(dm.vmd_dir)
    if lost:
        with _VLOCK:
            st.lost += len(hung)
            st.bad_events += len(hung)
        _violation(ctx, "session-lost|hammer", "%d short session(s) (%s) were still unanswered after 45 s although the daemon answers PING "
                   "and reports no session in service\n%s" % (len(hung), " ".join(m.mid for m, _ in hung[:8]), where))
    with _VLOCK:
        for w in range(HAMMER_THREADS):
            for m, r in results[w]:
                if lost and r.timeout and r.nbytes == 0:
                    continue
                if r.exc or r.timeout:
                    trouble.append("hammer %s: exc=%s timeout=%s" % (m.mid, r.exc, r.timeout))
                    if alive:
                        continue
                st.sessions += 1
                st.sessions_py += 1
                st.hammer_sessions += 1
                st.bytes += r.nbytes
                detail = "frames=%d eof=%s reset=%s partial=%d" % (len(r.frames), r.eof, r.reset, r.partial)
                if not compare(ctx, m, "py", r.out, r.err_text(), r.exit_code, all_ids, where, detail):
                    st.mismatches += 1
                    st.bad_events += 1
    return trouble


def run_round(ctx, st, fl, client_bin, sc, rno, picks, mode, yield_on, n_bin, lane):
    """Fresh daemon; wave 1 = `mode`, wave 2 (warm daemon, same multiset reshuffled) = the other mode."""
    kind = "yield" if yield_on else "plain"
    ddir = sc.sub("lane%d/r%03d-%s" % (lane, rno, kind))
    env = {"TSAN_OPTIONS": "halt_on_error=0:exitcode=0:history_size=7:log_path=%s" % os.path.join(ddir, "tsan"),
           # the daemon finds its FFI co-process `nano_cop` through PATH (vm_ffi_cop_start: execlp), as in an installation
           "PATH": fl.bin + os.pathsep + os.environ.get("PATH", "/usr/bin:/bin")}
    if yield_on:
        env["NLVERIF_YIELD_US"] = str(YIELD_US)
        env["NLVERIF_YIELD_SEED"] = str(ctx.rng("yieldseed", rno).randrange(1, 1 << 30))
    other = "jitter" if mode == "barrier" else "barrier"
    multiset = tuple(sorted(m.mid for m in picks))
    troubles = []
    for attempt in (0, 1):
        dm = vc.Daemon(fl.nano_vmd, ddir, env)
        died = None
        try:
            ctx.require(dm.start(), "could not start a private nano_vmd (tsan flavor) in %s: %s"
                        % (ddir, open(dm.log, "rb").read()[-500:]))
            pid = dm.pid
            troubles = []
            for wno, wmode in enumerate((mode, other)):
                rng = ctx.rng("wave", rno, kind, wno, attempt)
                order = list(picks)
                rng.shuffle(order)
                where = "round %d (%s, %d clients, %d real binaries), wave %d released by %s%s" % (
                    rno, kind, len(order), n_bin, wno, wmode, ", all connections made first in one burst" if wno == 1 else "")
                ok, trouble, conc = run_wave(ctx, st, dm, fl, client_bin, order, wmode, rng, n_bin, where, sc, preconnect=(wno == 1))
                troubles.extend(trouble)
                if conc >= 2:
                    rk = (multiset, wmode, kind)
                    with _VLOCK:
                        fresh = rk not in st.round_keys
                        st.round_keys.add(rk)
                    if fresh:
                        if len(st.rounds) < 6:
                            st.rounds.append({"modules": list(multiset), "release": wmode, "yield": kind,
                                              "status_max_executing": conc, "clients": len(order), "real_binaries": n_bin})
                if not dm.alive():
                    died = "rc=%s" % dm.returncode()
                    break
                if st.bad_events >= BAD_CAP:
                    break
            if not died and st.tiny and st.bad_events < BAD_CAP:
                troubles.extend(hammer(ctx, st, dm, ctx.rng("hammer", rno, kind, attempt),
                                       "round %d (%s), hammer stage: %d clients issuing short sessions back to back" % (rno, kind, HAMMER_THREADS),
                                       ctx.n(24, 40)))
                if not dm.alive():
                    died = "rc=%s" % dm.returncode()
            stuck = None
            if troubles and not died and dm.alive() and vc.proc_idle(dm.pid):
                # Not a slow machine: daemon and co-processes consume no CPU and all their threads sleep, yet a complete request is unanswered.
                stuck = "%s\n%s" % (vc.status(ddir, 10.0).active_clients(), vc.proc_report(dm.pid))
        finally:
            dm.stop()
        # TSan reports of this daemon instance
        log = ""
        for f in sorted(os.listdir(ddir)):
            if f.startswith("tsan."):
                log += open(os.path.join(ddir, f), errors="replace").read()
        reports = parse_tsan(log)
        seen = set()
        with _VLOCK:
            st.tsan[kind] = st.tsan.get(kind, 0) + len(reports)
            for key in set(k for k, _ in reports):
                st.tsan_distinct.setdefault(key, {"plain": 0, "yield": 0})[kind] += 1
        for key, text in reports:
            if key in seen:
                continue
            seen.add(key)
            _violation(ctx, key, "ThreadSanitizer report in nano_vmd during round %d (%s; modules %s)\n%s"
                          % (rno, kind, ",".join(multiset), text[:6000]), {"tsan_report.txt": text})
        if died:
            tail = open(dm.log, "rb").read()[-2000:].decode("utf-8", "replace")
            _violation(ctx, "daemon-died|" + died, "nano_vmd went away while serving well-formed modules in round %d (%s): %s\n%s"
                          % (rno, kind, died, tail), {"vmd.stderr": tail})
            return
        if not troubles or st.bad_events >= BAD_CAP:
            return
        if stuck is not None:
            _violation(ctx, "session-stuck|daemon-idle", "round %d (%s): %s -- while the daemon was idle (neither it nor its co-processes consumed CPU time over 6 s, all threads "
                       "sleeping) and reported active_clients=%s: these well-formed requests will never be answered"
                       % (rno, kind, "; ".join(troubles[:4]), stuck))
            return
        # client-side watchdog / connect trouble: not a verdict; re-run the round once
        with _VLOCK:
            st.reruns += 1
        for f in os.listdir(ddir):
            if f.startswith("tsan."):
                os.unlink(os.path.join(ddir, f))
    raise core.Inconclusive("client-side watchdog/connection trouble persisted after one re-run of round %d: %s" % (rno, troubles[:3]))


def run(ctx):
    fl = build.get("tsan")
    for b in (fl.nano_vmd, fl.nano_vm, fl.nano_virt):
        ctx.require(os.path.exists(b), "tsan flavor lacks %s" % b)
    with Scratch("c17") as sc:
        try:
            return _run(ctx, fl, sc)
        finally:
            _sweep(sc)


def _sweep(sc):
    """Belt and braces: no daemon of this run may survive (every Daemon.stop already killed its own)."""
    for dp, dn, fn in os.walk(sc.path):
        if "vmd.pid" in fn:
            vc.Daemon("/bin/false", dp).stop(grace=0.2)


def _run(ctx, fl, sc):
    copies = ctx.n(1, 2)
    mods = make_modules(ctx, sc, fl, copies)
    ctx.require(len(set(m.src for m in mods)) >= 16, "fewer than 16 distinct modules")
    # the real client binary, copied next to no nano_vmd: vmd_connect() lazily launches "<dir of exe>/nano_vmd" when it
    # cannot connect; a byte-identical copy in a directory without a daemon binary cannot leave a stray daemon behind
    client_bin = os.path.join(sc.sub("clientbin"), "nano_vm")
    shutil.copy2(fl.nano_vm, client_bin)

    st = Stats()
    st.repo_hash = _repo_hash()
    st.tiny = make_modules(ctx, sc, fl, 1, tiny=True)
    rounds = ctx.n(6, 60)
    sizes = [2, 8, 16, 32, 32, 24] if ctx.quick() else [2, 8, 16, 32, 64, 64, 48, 64, 24, 64]
    plans = []
    for rno in range(rounds):
        rng = ctx.rng("round", rno)
        k = sizes[rno % len(sizes)]
        if rno % 3 == 2:
            picks = [rng.choice(mods) for _ in range(k)]                # with repetitions (same module twice at once)
        else:
            pool = list(mods)
            rng.shuffle(pool)
            picks = [pool[i % len(pool)] for i in range(k)]              # as many different modules as possible
        if k >= 8 and not any("err" in m.traits for m in picks):
            picks[0] = rng.choice([m for m in mods if "err" in m.traits])
        if k >= 8 and not any("deep" in m.traits for m in picks):
            picks[2] = rng.choice([m for m in mods if "deep" in m.traits])
        if k >= 8 and not any("big" in m.traits for m in picks):
            picks[1] = rng.choice([m for m in mods if "big" in m.traits])
        n_bin = 0 if k == 2 and rno % 2 == 0 else max(1, min(12, k // 4))
        mode = "barrier" if rno % 2 == 0 else "jitter"
        plans.append((rno, picks, mode, n_bin))

    lanes = 1 if ctx.quick() else 2

    def lane_fn(lane):
        for rno, picks, mode, n_bin in plans:
            if rno % lanes != lane:
                continue
            for yield_on in (False, True):
                if st.bad_events >= BAD_CAP:
                    st.stopped_early = True                                # cost cap: enough evidence, report
                    return
                run_round(ctx, st, fl, client_bin, sc, rno, picks, mode, yield_on, n_bin, lane)

    errs = []

    def guarded(lane):
        try:
            lane_fn(lane)
        except BaseException as ex:                                       # re-raised in the main thread below
            errs.append(ex)

    ths = [threading.Thread(target=guarded, args=(l,)) for l in range(lanes)]
    for t in ths:
        t.start()
    for t in ths:
        t.join()
    if errs:
        raise errs[0]

    if ctx.violations and (_repo_hash() != st.repo_hash or not all(os.path.exists(b) for b in (fl.nano_vmd, fl.nano_vm, fl.nano_cop))):
        # what was observed cannot be attributed to one definite tree / build: not a verdict
        raise core.Inconclusive("/repo (or the cached build in %s) changed while the check was running; unattributable observations: %s"
                                % (fl.root, [v[0] for v in ctx.violations][:6]))
    conc = st.max_status_executing
    ctx.require(ctx.violations or st.sessions >= 20, "too few sessions (%d)" % st.sessions)
    ctx.require(ctx.violations or conc >= 2, "the daemon never reported two sessions in service at once (max %d): no concurrency observed" % conc)
    ctx.require(ctx.violations or len(st.round_keys) >= 2, "fewer than two rounds with observed concurrency")
    return ctx.finish({
        "evaluations": st.sessions,
        "distinct_nontrivial": len(st.round_keys),
        "rule": "distinct (module multiset, release mode, yield setting) waves in which the daemon itself reported >= 2 LOAD_EXEC "
                "sessions in service at one instant (STATUS active_clients minus the STATUS connection minus held connections "
                "not yet released); waves without observed concurrency are not counted",
        "lost_sessions": st.lost, "stopped_early_after_%d_bad_sessions" % BAD_CAP: st.stopped_early,
        "hammer_sessions_back_to_back": st.hammer_sessions, "hammer_clients": HAMMER_THREADS,
        "sessions": st.sessions, "sessions_vmd_client_py": st.sessions_py, "sessions_nano_vm_daemon_binary": st.sessions_bin,
        "rounds": rounds, "round_kinds": ["plain", "yield(NLVERIF_YIELD_US=%d)" % YIELD_US], "waves": st.waves,
        "daemon_instances": st.waves // 2, "reruns_after_client_trouble": st.reruns,
        "modules": len(mods), "module_shapes": [s[0].__name__[3:] for s in SHAPES],
        "modules_ending_in_runtime_error": sum(1 for m in mods if "err" in m.traits),
        "modules_with_mutable_globals": sum(1 for m in mods if "glob" in m.traits),
        "modules_64KiB_output": sum(1 for m in mods if "big" in m.traits),
        "modules_deeply_nested_heap_value": {m.mid: 3000 for m in mods if "deep" in m.traits},
        "expected_output_bytes_per_module": {m.mid: len(m.out) for m in mods[:len(SHAPES)]},
        "max_concurrency_status": conc, "max_active_clients_reported": st.max_status_active,
        "max_client_side_overlap": st.max_client_overlap, "status_samples": st.status_samples,
        "pings_during_waves": st.pings, "distinct_overlap_patterns": len(st.patterns),
        "bytes_streamed": st.bytes, "mismatching_sessions": st.mismatches,
        "tsan_reports_by_round_kind": st.tsan, "tsan_distinct_reports": st.tsan_distinct,
        "samples": st.rounds,
    }, assumptions=[
        "expected values are produced by `nano_vm x.nvm` of the same (tsan) flavor, run twice and required to agree",
        "the real client is a byte-identical copy of the flavor's nano_vm placed in a directory without nano_vmd, so that its "
        "lazy daemon launch cannot leave a process behind; it talks to the private daemon through NLVERIF_VMD_DIR (hook H3)",
        "python sessions concatenate all OUTPUT frames, render ERROR frames as `nano_vm --daemon` prints them (payload + newline) "
        "and take the EXIT_CODE frame as exit status",
        "interleavings are those the scheduler produced under barrier/jitter release and the H3 yield hook; absence of a TSan "
        "report is not a proof of race freedom",
        "overlap patterns use client-side timestamps",
    ])
