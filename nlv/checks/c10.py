"""C10 - stored and embedded bytecode modules run exactly like the in-memory module (DESIGN §4 C10).

E: (a) a field of nvm_deserialize(nvm_serialize(m)) that differs from the in-memory module m (header flags, entry
       point, code, string pool, function table, imports incl. parameter type arrays, debug entries), or a second
       serialisation that differs from the first;
   (b) `nano_virt p --run`, `nano_virt p --emit-nvm -o x.nvm && nano_vm x.nvm`, `nano_virt p -o w && ./w`
       disagreeing in stdout bytes or in the exit status.
O: (a) probes/codegen_probe.c (asan flavor): compiles every source in-process like nano_virt's main, keeps the
       in-memory module and compares it with its reloaded copy; a second mode builds synthetic modules through the
       nvm_* API (counts on the reallocation boundaries, 0-length functions, imports with 0..16 and more
       parameters, strings longer than 64 KiB, arbitrary flag words);
   (b) the three CLIs of the plain flavor, byte comparison of stdout and of the exit status (stderr is not
       compared: the three mains word their diagnostics differently).
W: repository sources (probe; three-way for those that are reproducible), generator programs (main returns a value in {0,1,3,7,42,255}; one in five gets a global
   whose initialiser prints), hand-written programs (initialisers that print, main returning 256 / -1 / 2^32+2,
   failing assertions in main and in an initialiser, > 64 KiB of output).
"""
import hashlib
import os
import re
import shutil

from .. import build, corpus, sweep, c10fam
from ..core import Inconclusive
from ..run import run as sh, pmap, Scratch

LEVEL = "exploration"

# the hook-enabled trees add fields to VmState (guard NANOLANG_VERIF); the wrapper's C file includes nanovm/vm.h and
# must be compiled with the same define as the objects it is linked with
WRAPPER_CC = "gcc -DNANOLANG_VERIF"

INIT_MARK = "C10-INIT"
MAIN_MARK = "MAIN-START"

INIT_SNIPPET = """fn c10_init_hook(x: int) -> int {
    (println "%s %%d")
    return (+ x 1)
}
shadow c10_init_hook {
    assert true
}
let c10_init_global: int = (c10_init_hook %%d)
""" % INIT_MARK


def _hand_programs():
    """name -> (files, init_out or None).  init_out: the bytes the global initialisers print (known exactly), used to
    recognise the 'initialisers run twice' cause; None = nothing is printed before main."""
    P = {}

    def prog(name, text, init_out=None, extra=None):
        files = {"main.nano": text}
        if extra:
            files.update(extra)
        P[name] = (files, init_out)

    prog("init_print_ret7", """fn noisy(x: int) -> int {
    (println "C10-INIT side effect")
    return (+ x 1)
}
shadow noisy { assert true }
let G: int = (noisy 4)
fn main() -> int {
    (println "MAIN-START")
    (println G)
    return 7
}
shadow main { assert true }
""", b"C10-INIT side effect\n")
    prog("init_print_two_globals", """fn tell(tag: string, x: int) -> int {
    (println (+ "C10-INIT " tag))
    return (* x 2)
}
shadow tell { assert true }
let A: int = (tell "first" 4)
let mut COUNTER: int = (tell "second" 5)
fn bump() -> int {
    set COUNTER (+ COUNTER 1)
    return COUNTER
}
shadow bump { assert true }
fn main() -> int {
    (println "MAIN-START")
    (println A)
    (println (bump))
    (println (bump))
    return 0
}
shadow main { assert true }
""", b"C10-INIT first\nC10-INIT second\n")
    prog("ret256", """fn main() -> int {
    (println "MAIN-START")
    (println "main returns 256")
    return 256
}
shadow main { assert true }
""")
    prog("ret_minus1", """fn main() -> int {
    (println "MAIN-START")
    (println "main returns -1")
    return (- 0 1)
}
shadow main { assert true }
""")
    prog("ret_2p32_plus2", """fn main() -> int {
    (println "MAIN-START")
    return 4294967298
}
shadow main { assert true }
""")
    prog("ret42_computed", """fn f(n: int) -> int {
    if (< n 2) { return n }
    return (+ (f (- n 1)) (f (- n 2)))
}
shadow f { assert (== (f 10) 55) }
fn main() -> int {
    (println "MAIN-START")
    (println (f 15))
    return (- (f 10) 13)
}
shadow main { assert true }
""")
    prog("assert_fails_in_main", """fn main() -> int {
    (println "MAIN-START")
    let x: int = 1
    (println "before the failing assertion")
    assert (== x 2)
    (println "after the failing assertion")
    return 0
}
shadow main { assert true }
""")
    prog("assert_fails_in_callee_ret3", """fn check(x: int) -> int {
    (println (+ "checking " (int_to_string x)))
    assert (< x 3)
    return x
}
shadow check { assert (== (check 1) 1) }
fn main() -> int {
    (println "MAIN-START")
    let mut i: int = 0
    while (< i 10) {
        (println (check i))
        set i (+ i 1)
    }
    return 3
}
shadow main { assert true }
""")
    prog("assert_fails_in_initialiser", """fn boom(x: int) -> int {
    (println "C10-INIT before failure")
    assert (== x 0)
    return x
}
shadow boom { assert (== (boom 0) 0) }
let G: int = (boom 3)
fn main() -> int {
    (println "MAIN-START")
    (println G)
    return 0
}
shadow main { assert true }
""", None)   # the initialiser fails: every way stops after its first run, nothing is duplicated
    prog("big_output_ret1", """fn main() -> int {
    (println "MAIN-START")
    let mut i: int = 0
    while (< i 4000) {
        (println (+ "line " (+ (int_to_string i) " ........................................")))
        set i (+ i 1)
    }
    return 1
}
shadow main { assert true }
""")
    prog("no_output_ret255", """fn main() -> int {
    return 255
}
shadow main { assert true }
""")
    prog("strings_and_structs_ret0", """struct P { name: string, n: int }
fn show(p: P) -> string {
    return (+ p.name (+ "=" (int_to_string p.n)))
}
shadow show { assert (== (show P { name: "a", n: 1 }) "a=1") }
fn main() -> int {
    (println "MAIN-START")
    let p: P = P { name: "", n: 0 }
    (println (show p))
    (println (show P { name: "caf\\u00e9 \\"quoted\\" \\\\ back", n: -5 }))
    (println "")
    (println "tab\\there")
    return 0
}
shadow main { assert true }
""")
    prog("import_module_ret7", """from "helper.nano" import twice
fn main() -> int {
    (println "MAIN-START")
    (println (twice 21))
    return 7
}
shadow main { assert true }
""", None, {"helper.nano": """fn twice(x: int) -> int {
    (println "in helper")
    return (* x 2)
}
shadow twice { assert (== (twice 2) 4) }
"""})
    return P


# repository programs whose output depends on the command line, the clock, the environment or on files, and those that
# start other programs, are left out of the three-way comparison (the match is textual and generous: 'time' also drops
# 'runtime'; a program that is left out here is still round-tripped by the probe)
REPO_DENY = re.compile(r"argc|argv|get_arg|time|timing|random|rand_|getenv|env_|std/env|clock|getpid|sleep|read_line|input|stdin|"
                       r"tmp|file_write|write_file|fs_|std/fs|mkdir|remove|pybridge|python|readline|nano_tools|process|spawn|"
                       r"system|exec|http|socket|curl|sqlite|sdl|opengl|audio|coverage|proptest|unsafe", re.I)


def _inject_init(text, k):
    """a global whose initialiser prints, placed in front of main"""
    at = text.rfind("\nfn main() -> int {")
    if at < 0:
        return None
    snippet = INIT_SNIPPET % (k, k)
    return text[:at + 1] + snippet + text[at + 1:]


def _phash(files):
    h = hashlib.sha256()
    for k in sorted(files):
        h.update(k.encode() + b"\0" + files[k].encode() + b"\0")
    return h.hexdigest()[:16]


# ------------------------------------------------------------------------------------------------ probe part

REC_RE = re.compile(r"^(REC path=(?P<path>\S+)|SYN i=(?P<i>\d+)) status=(?P<status>\w+)(?P<rest>.*)$")


def _kv(rest):
    return dict(m.groups() for m in re.finditer(r"(\w+)=(\S+)", rest))


def _run_probe_compile(asan, lines):
    data = ("\n".join(lines) + "\n").encode()
    return sh([asan.probe("codegen_probe"), "compile"], stdin=data, cpu=1200, wall=3600, san=True, cwd="/")


def probe_part(ctx, asan, sc, items, ev):
    """items: [(label, path, files-or-None)]"""
    chunks = [items[i::16] for i in range(16)]
    chunks = [c for c in chunks if c]

    def job(chunk):
        return chunk, _run_probe_compile(asan, [it[1] for it in chunk])

    stages = {}
    hashes = set()
    fields = 0
    ok = 0
    samples = []
    for chunk, r in pmap(job, chunks):
        if r.timeout:
            raise Inconclusive("codegen_probe compile: watchdog")
        recs = {}
        for line in r.text().splitlines():
            m = REC_RE.match(line)
            if m and m.group("path"):
                recs[m.group("path")] = (m.group("status"), _kv(m.group("rest")), line)
        rep = r.sanitizer_report()
        for label, path, files in chunk:
            if path not in recs:
                raise Inconclusive("codegen_probe printed no complete record for %s (rc=%s sig=%s): %s" % (label, r.rc, r.sig, r.errtext()[-300:]))
            status, kv, line = recs[path]
            src = files if files is not None else {os.path.basename(path): open(path, "rb").read()}
            replay = dict(src)
            replay["record.txt"] = line + "\n"
            replay["cmd.txt"] = "echo <path of the main source> | codegen_probe compile   # asan flavor, chdir()s to the file's directory\n"
            if status == "ok":
                ok += 1
                fields += int(kv.get("fields", 0))
                if int(kv.get("funcs", 0)) >= 1 and int(kv.get("code", 0)) >= 1:
                    hashes.add(kv["hash"])
                ev["module_imports_hist"]["0" if kv.get("imports") == "0" else "1+"] += 1
                if files is None:
                    ev["_repo_imports"][label] = int(kv.get("imports", 0))
                elif label.startswith("limit cell "):
                    ev["_limit_records"][label] = kv
                if len(samples) < 3:
                    samples.append({"source": label, "record": line[line.index("status="):].strip()})
            elif status == "skip":
                k = "not-accepted:" + kv.get("stage", "?")
                stages[k] = stages.get(k, 0) + 1
            elif status == "DIFF":
                key = "probe|%s|%s" % (kv.get("stage", "?"), kv.get("what", "?"))
                ctx.violation(key, "module compiled from %s: %s" % (label, line[line.index("status="):]), replay)
            elif status == "CRASH":
                if rep:
                    replay["sanitizer.txt"] = rep
                sig = ""
                if rep:
                    sig = "|" + re.sub(r"0x[0-9a-f]+", "", rep.splitlines()[0])[:100]
                ctx.violation("probe|crash|%s%s" % (kv.get("stage", "?"), sig),
                              "codegen_probe died while round-tripping the module of %s: %s\n%s" % (label, line, rep or r.errtext()[-600:]), replay)
            else:
                raise Inconclusive("unknown probe record: " + line)
    ev["modules_compared"] = ok
    ev["fields_compared"] = fields
    ev["sources_not_accepted"] = stages
    ev["distinct_module_hashes"] = len(hashes)
    ev["module_samples"] = samples
    return ok, hashes


def synth_part(ctx, asan, n, ev):
    seed = ctx.rng("synth").getrandbits(31)
    per = max(1, (n + 15) // 16)
    jobs = [(a, min(per, n - a)) for a in range(0, n, per)]

    def job(j):
        a, c = j
        return j, sh([asan.probe("codegen_probe"), "synth", str(seed), str(a), str(c)], cpu=1200, wall=3600, san=True, cwd="/")

    shapes = set()
    hashes = set()
    fields = 0
    ok = 0
    big_strings = many_params = 0
    samples = []
    for (a, c), r in pmap(job, jobs):
        if r.timeout:
            raise Inconclusive("codegen_probe synth: watchdog")
        rep = r.sanitizer_report()
        seen = set()
        for line in r.text().splitlines():
            m = REC_RE.match(line)
            if not m or m.group("i") is None:
                continue
            i = int(m.group("i"))
            seen.add(i)
            status, kv = m.group("status"), _kv(m.group("rest"))
            replay = {"record.txt": line + "\n", "cmd.txt": "codegen_probe synth %d %d 1   # asan flavor\n" % (seed, i)}
            if status == "ok":
                ok += 1
                fields += int(kv.get("fields", 0))
                shapes.add(kv.get("shape"))
                hashes.add(kv["hash"])
                sh_ = [int(x) for x in kv.get("shape", "0/0/0/0/0/0/0").split("/")]
                big_strings += sh_[5] > 65535
                many_params += sh_[6] >= 16
                if len(samples) < 3 and i % 5 == 1:
                    samples.append(line.strip())
            elif status == "DIFF":
                ctx.violation("synth|%s|%s" % (kv.get("stage", "?"), kv.get("what", "?")),
                              "synthetic module %d (seed %d): %s" % (i, seed, line[line.index("status="):]), replay)
            elif status == "skip":
                pass
            else:
                raise Inconclusive("unknown probe record: " + line)
        missing = [i for i in range(a, a + c) if i not in seen]
        if missing:
            if rep or r.sig or r.rc not in (0, None):
                sig = ("|" + re.sub(r"0x[0-9a-f]+", "", rep.splitlines()[0])[:100]) if rep else "|rc=%s sig=%s" % (r.rc, r.sig)
                ctx.violation("synth|crash" + sig, "codegen_probe died while building / round-tripping synthetic module %d (seed %d)\n%s" % (
                    missing[0], seed, rep or r.errtext()[-600:]),
                    {"cmd.txt": "codegen_probe synth %d %d 1   # asan flavor\n" % (seed, missing[0]), "stderr.txt": r.err[-4000:]})
            else:
                raise Inconclusive("codegen_probe synth printed no record for shapes %s" % missing[:5])
    ev["synthetic_modules"] = ok
    ev["synthetic_distinct_shapes"] = len(shapes)
    ev["synthetic_fields_compared"] = fields
    ev["synthetic_with_string_over_64KiB"] = big_strings
    ev["synthetic_with_import_of_16+_params"] = many_params
    ev["synthetic_samples"] = samples
    return ok, hashes


# ------------------------------------------------------------------------------------------------ CLI part

class Way:
    __slots__ = ("name", "build", "run")

    def __init__(self, name):
        self.name = name
        self.build = None
        self.run = None


def three_way(plain, cwd, main="main.nano", outdir=None, cpu=20):
    """-> {name: Way}.  Every command runs with cwd (the program's directory, or the copy of the repository's source
    trees for repository programs); x.nvm and w.bin are written into outdir."""
    outdir = outdir or cwd
    x, wb = os.path.join(outdir, "x.nvm"), os.path.join(outdir, "w.bin")
    for f in (x, wb):
        try:
            os.unlink(f)
        except OSError:
            pass
    ways = {}
    w = Way("run")
    w.run = sh([plain.nano_virt, main, "--run"], cwd=cwd, cpu=cpu)
    ways["run"] = w
    w = Way("nano_vm")
    w.build = sh([plain.nano_virt, main, "--emit-nvm", "-o", x], cwd=cwd, cpu=20)
    if w.build.rc == 0 and os.path.exists(x):
        w.run = sh([plain.nano_vm, x], cwd=cwd, cpu=cpu)
    ways["nano_vm"] = w
    w = Way("wrapper")
    for attempt in range(2):
        w.build = sh([plain.nano_virt, main, "-o", wb], cwd=cwd, cpu=60, env={"NANO_CC": WRAPPER_CC})
        if w.build.rc == 0 and os.path.exists(wb):
            w.run = sh([wb], cwd=cwd, cpu=cpu)
            break
    ways["wrapper"] = w
    return ways


def _watchdog(ways):
    for w in ways.values():
        for r in (w.run, w.build):
            if r is not None and (r.timeout or r.cpu_exceeded):
                return True
    return False


def classify(run, other, pair, init_out):
    """None when the two observations agree, else (key, description)"""
    a, b = run, other
    if a.sig or b.sig:
        if a.sig == b.sig:
            return None           # both killed by the same signal: buffered output is lost, nothing to compare
        return "cli|%s|signal" % pair, "--run: signal %s, status %s; %s: signal %s, status %s" % (a.sig, a.status, pair, b.sig, b.status)
    same_out = a.out == b.out
    same_st = a.status == b.status
    if same_out and same_st:
        return None
    run_failed = "runtime error" in a.errtext()
    if pair == "nano_vm" and same_out and b.status == 0 and a.status != 0 and not run_failed:
        return "cli|nano_vm-exit-status-ignored", "stdout identical; --run exits %d (the value main returned, mod 256), nano_vm exits 0" % a.status
    if pair == "wrapper" and same_st and init_out and a.out.startswith(init_out) and b.out == init_out + a.out:
        return "cli|wrapper-init-twice", ("exit status identical (%d); the wrapper's stdout is --run's stdout with the global initialisers' output %r printed twice"
                                          % (a.status, init_out[:80]))
    if same_out:
        cls = "exit-status-after-runtime-error" if run_failed else "exit-status"
        return "cli|%s|%s" % (pair, cls), "stdout identical; --run exits %d, %s exits %d" % (a.status, pair, b.status)
    if a.out.startswith(b.out):
        cls = "stdout-truncated"
    elif b.out.startswith(a.out):
        cls = "stdout-extra-tail"
    elif b.out.endswith(a.out):
        cls = "stdout-extra-head"
    else:
        cls = "stdout-differs"
    if not same_st:
        cls += "+exit-status"
    from ..engines import first_diff
    fd = first_diff(a.text(), b.text())
    return "cli|%s|%s" % (pair, cls), "--run: %d bytes, exit %d; %s: %d bytes, exit %d; first differing line %d: --run=%r %s=%r" % (
        len(a.out), a.status, pair, len(b.out), b.status, fd[0], fd[1], pair, fd[2])


CMD_TXT = ("# plain flavor, cwd = this directory\n"
           "nano_virt main.nano --run ; echo $?\n"
           "nano_virt main.nano --emit-nvm -o x.nvm && nano_vm x.nvm ; echo $?\n"
           "NANO_CC='%s' nano_virt main.nano -o w.bin && ./w.bin ; echo $?\n" % WRAPPER_CC)


def cli_part(ctx, plain, sc, cases, ev):
    """cases: [(label, files, init_out, where)]; where = None (files are written into a fresh directory that is the cwd)
    or (cwd, relative main path) for a repository program run inside the copy of the repository's source trees"""
    def job(c):
        idx, (label, files, init_out, where) = c
        d = sc.sub("cli/%05d" % idx)
        if where is None:
            for fn, text in files.items():
                with open(os.path.join(d, fn), "w") as f:
                    f.write(text)
            ways = three_way(plain, d)
            if _watchdog(ways):
                ways = three_way(plain, d)       # a watchdog is re-tried once before it is believed
            return c, ways, None
        cwd, main = where
        # repository programs are not written for this purpose: one whose own output is not reproducible
        # (clock, files left behind by the previous run, ...) cannot be compared
        first = sh([plain.nano_virt, main, "--run"], cwd=cwd, cpu=10)
        if first.timeout or first.cpu_exceeded:
            return c, None, "skip:repo-program-over-10s"
        ways = three_way(plain, cwd, main, outdir=d, cpu=10)
        if _watchdog(ways):
            return c, None, "inconclusive:watchdog"
        r = ways["run"].run
        if r.out != first.out or r.status != first.status:
            return c, None, "skip:repo-program-not-reproducible"
        return c, ways, None

    outcomes = {}
    exits = {}
    phashes = set()
    samples = []
    compared = 0
    n_repo = 0
    by_label = ev.setdefault("_outcome_by_label", {})
    for (idx, (label, files, init_out, where)), ways, skipped in pmap(job, list(enumerate(cases))):
        def bump(k, label=label):
            outcomes[k] = outcomes.get(k, 0) + 1
            by_label[label] = (by_label[label] + " " + k) if label in by_label else k
        if skipped:
            bump(skipped)
            continue
        if _watchdog(ways):
            bump("inconclusive:watchdog")
            continue
        r = ways["run"].run
        vmw, wrw = ways["nano_vm"], ways["wrapper"]
        cmd_txt = CMD_TXT
        if where is not None:
            cmd_txt = CMD_TXT.replace("main.nano", where[1]).replace(
                "cwd = this directory", "cwd = a directory holding copies of /repo's tests/ examples/language/ modules/ std/ stdlib/")
        if vmw.run is None:
            # the program is not accepted by the compiler: not a case of this property (but then no way may run it)
            if wrw.run is not None:
                ctx.violation("cli|wrapper|built-although-emit-nvm-refused", "%s: --emit-nvm fails (%s) but the wrapper was built" % (label, vmw.build.errtext()[-200:]),
                              dict(files, **{"cmd.txt": cmd_txt}))
            bump("skip:not-accepted")
            continue
        if wrw.run is None:
            err = wrw.build.errtext()
            cls = "cc" if "native compilation failed" in err else "other"
            ctx.violation("cli|wrapper|build-failed|" + cls, "%s: the module is written as .nvm but `nano_virt -o` cannot produce the wrapper: %s" % (label, err[-600:]),
                          dict(files, **{"cmd.txt": cmd_txt, "wrapper-build.stderr": wrw.build.err}))
            bump("wrapper-build-failed")
            continue
        compared += 1
        n_repo += where is not None
        exits[str(r.status)] = exits.get(str(r.status), 0) + 1
        agree = True
        for pair, w in (("nano_vm", vmw), ("wrapper", wrw)):
            c = classify(r, w.run, pair, init_out)
            if c is None:
                continue
            agree = False
            key, what = c
            bump(key)
            rf = dict(files)
            rf.update({"cmd.txt": cmd_txt, "run.stdout": r.out, "run.stderr": r.err, "run.status": "%s\n" % r.status,
                       pair + ".stdout": w.run.out, pair + ".stderr": w.run.err, pair + ".status": "%s\n" % w.run.status})
            ctx.violation(key, "%s: `nano_virt --run` vs %s: %s" % (label, "`nano_vm x.nvm`" if pair == "nano_vm" else "the wrapper executable", what), rf)
        if agree:
            bump("agree")
        if r.out or r.status:
            phashes.add(_phash(files))
        if len(samples) < 4 and (idx % 7 == 0 or r.status not in (0, 1)):
            samples.append({"program": label, "stdout_bytes": len(r.out),
                            "exit": {"run": r.status, "nano_vm": vmw.run.status, "wrapper": wrw.run.status},
                            "stdout_equal": {"nano_vm": vmw.run.out == r.out, "wrapper": wrw.run.out == r.out}})
    ev["three_way_compared"] = compared
    ev["three_way_repository_programs_compared"] = n_repo
    ev["three_way_outcomes"] = outcomes
    ev["run_exit_status_histogram"] = dict(sorted(exits.items(), key=lambda kv: int(kv[0])))
    ev["three_way_samples"] = samples
    return compared, phashes


# ------------------------------------------------------------------------------------------------ limit family

def measure(asan, sc, progs, sub):
    """compile {name: text} through the probe; -> {name: record fields} for the accepted ones"""
    lines = []
    names = {}
    for name, text in sorted(progs.items()):
        d = sc.sub("%s/%s" % (sub, name))
        with open(os.path.join(d, "main.nano"), "w") as f:
            f.write(text)
        names[os.path.join(d, "main.nano")] = name
        lines.append(os.path.join(d, "main.nano"))
    chunks = [lines[i::8] for i in range(8) if lines[i::8]]
    out = {}
    for r in pmap(lambda c: _run_probe_compile(asan, c), chunks):
        if r.timeout:
            raise Inconclusive("codegen_probe (calibration): watchdog")
        for line in r.text().splitlines():
            m = REC_RE.match(line)
            if m and m.group("path") in names and m.group("status") == "ok":
                out[names[m.group("path")]] = _kv(m.group("rest"))
    return out


# ------------------------------------------------------------------------------------------------ interleave family

def interleave_part(ctx, plain, sc, n, ev):
    progs = [("interleave fixed %s" % k, t, ["fixed"]) for k, t in sorted(c10fam.FIXED_INTERLEAVE.items())]
    for i in range(n):
        t, kinds = c10fam.interleave_program(ctx.rng("interleave", i), i)
        progs.append(("interleave program %d" % i, t, kinds))

    def job(item):
        idx, (label, text, kinds) = item
        d = sc.sub("il/%05d" % idx)
        with open(os.path.join(d, "main.nano"), "w") as f:
            f.write(text)
        b1 = sh([plain.nano_virt, "main.nano", "--emit-nvm", "-o", "x.nvm"], cwd=d, cpu=20)
        if b1.timeout:
            return item, "inconclusive:watchdog", None
        if b1.rc != 0 or not os.path.exists(os.path.join(d, "x.nvm")):
            return item, "skip:not-accepted", b1
        b2 = None
        for attempt in range(2):
            b2 = sh([plain.nano_virt, "main.nano", "-o", "w.bin"], cwd=d, cpu=60, env={"NANO_CC": WRAPPER_CC})
            if b2.rc == 0 and os.path.exists(os.path.join(d, "w.bin")):
                break
        else:
            return item, "wrapper-build-failed", b2
        cmds = {"run": [plain.nano_virt, "main.nano", "--run"], "nano_vm": [plain.nano_vm, "x.nvm"], "wrapper": [os.path.join(d, "w.bin")]}
        obs = {}
        for mode in ("pipe", "file"):
            for name, cmd in cmds.items():
                for attempt in range(2):
                    if mode == "pipe":
                        r = sh(cmd, cwd=d, cpu=20)
                    else:
                        r = c10fam.run_to_file(cmd, d, os.path.join(d, "%s.out" % name), os.path.join(d, "%s.err" % name), cpu=20)
                    if not (r.timeout or r.cpu_exceeded):
                        break
                else:
                    return item, "inconclusive:watchdog", None
                obs[(mode, name)] = r
        return item, None, obs

    outcomes = {}
    kinds_hist = {}
    hashes = set()
    compared = 0
    samples = []
    for (idx, (label, text, kinds)), skipped, obs in pmap(job, list(enumerate(progs))):
        def bump(k):
            outcomes[k] = outcomes.get(k, 0) + 1
        if skipped:
            bump(skipped)
            if skipped == "wrapper-build-failed":
                ctx.violation("interleave|wrapper|build-failed", "%s: `nano_virt -o` cannot produce the wrapper: %s" % (label, obs.errtext()[-500:]), {"main.nano": text})
            continue
        for k in kinds:
            k = re.sub(r"\d+$", "", k)
            kinds_hist[k] = kinds_hist.get(k, 0) + 1
        agree = True
        for mode in ("pipe", "file"):
            r = obs[(mode, "run")]
            compared += 1
            for pair in ("nano_vm", "wrapper"):
                o = obs[(mode, pair)]
                c = classify(r, o, pair, None)
                if c is None:
                    continue
                agree = False
                key = "interleave|%s|%s|%s" % (pair, mode, c[0].split("|", 2)[2] if c[0].count("|") >= 2 else c[0])
                bump(key)
                ctx.violation(key, "%s, stdout is a %s: `nano_virt --run` vs %s: %s\nsteps: %s" % (
                    label, mode, "`nano_vm x.nvm`" if pair == "nano_vm" else "the wrapper executable", c[1], " ".join(kinds)),
                    {"main.nano": text, "run.stdout": r.out, "run.stderr": r.err, "run.status": "%s\n" % r.status,
                     pair + ".stdout": o.out, pair + ".stderr": o.err, pair + ".status": "%s\n" % o.status,
                     "cmd.txt": CMD_TXT + "# stdout redirected to a %s\n" % ("regular file" if mode == "file" else "pipe (| cat)")})
        if agree:
            bump("agree")
        r = obs[("pipe", "run")]
        vm_prints = any(k.startswith("vm") for k in kinds) or kinds == ["fixed"]
        foreign = any(k in ("write1", "system1", "puts", "putchar") for k in kinds) or kinds == ["fixed"]
        if vm_prints and foreign and r.out:
            hashes.add(_phash({"main.nano": text}))
        if len(samples) < 2 and idx in (0, 5):
            samples.append({"program": label, "steps": kinds, "pipe_stdout_head": r.out[:160].decode("utf-8", "replace"), "exit": r.status,
                            "same_bytes_on_pipe_and_file": r.out == obs[("file", "run")].out})
    ev["interleave_programs"] = len(progs)
    ev["interleave_comparisons"] = compared
    ev["interleave_outcomes"] = outcomes
    ev["interleave_step_kinds"] = dict(sorted(kinds_hist.items()))
    ev["interleave_samples"] = samples
    return compared, hashes


# ------------------------------------------------------------------------------------------------ entry point

def run(ctx):
    asan = build.get("asan")
    plain = build.get("plain")
    ctx.require(os.path.exists(asan.probe("codegen_probe")), "codegen_probe was not built")
    n_mod = ctx.n(150, 3000)
    n_cli = ctx.n(60, 600)
    n_syn = ctx.n(200, 3000)
    n_il = ctx.n(40, 400)
    ev = {"module_imports_hist": {"0": 0, "1+": 0}, "_repo_imports": {}, "_limit_records": {}}
    with Scratch("c10") as sc:
        repo = corpus.repo_sources()
        ctx.rng("repo").shuffle(repo)
        repo = repo[: ctx.n(60, len(repo))]
        hand = _hand_programs()
        n_gen = max(n_mod - len(repo) - len(hand), n_cli - len(hand))
        batch = sweep.gen_batch(ctx, n_gen)
        ctx.require(len(batch) >= n_gen * 0.6, "generator produced too few in-zone programs (%d of %d)" % (len(batch), n_gen))

        gen_cases = []          # (label, files, init_out)
        unprintable = 0
        for i, prog, exp in batch:
            try:
                files = prog.files()
            except (TypeError, KeyError, IndexError, AttributeError):
                unprintable += 1         # the generator built a tree its printer cannot print: not a program at all
                continue
            init_out = None
            if i % 5 == 2:
                k = 100 + i
                t = _inject_init(files["main.nano"], k)
                if t is not None:
                    files = dict(files, **{"main.nano": t})
                    init_out = ("%s %d\n" % (INIT_MARK, k)).encode()
            gen_cases.append(("generated program %d%s" % (i, " (+printing initialiser)" if init_out else ""), files, init_out, None))
        ctx.require(unprintable <= max(2, len(batch) // 100), "the generator's printer failed on %d programs" % unprintable)
        ev["generator_programs_unprintable"] = unprintable
        hand_cases = [("hand-written %s" % name, files, init_out, None) for name, (files, init_out) in sorted(hand.items())]
        # limit family: calibrate (how many pool strings / imports / code bytes the fixed parts of a program cost), then
        # build one program per boundary value
        cal = measure(asan, sc, c10fam.calibration_programs(), "cal")
        limits, limit_notes = c10fam.limit_programs(cal)
        limit_cases = [("limit cell %s" % name, {"main.nano": text}, None, None) for name, text, _ in limits]
        limit_expect = {"limit cell %s" % name: exp for name, _, exp in limits}

        # ---- (a) probe ------------------------------------------------------------------------------
        items = [(os.path.relpath(p, build.REPO), p, None) for p in repo]
        for k, (label, files, _, _w) in enumerate(hand_cases + limit_cases + gen_cases):
            d = sc.sub("src/%05d" % k)
            for fn, text in files.items():
                with open(os.path.join(d, fn), "w") as f:
                    f.write(text)
            items.append((label, os.path.join(d, "main.nano"), files))
        items = items[: max(n_mod, len(repo) + len(hand_cases)) + len(limit_cases)]
        n_ok, mhashes = probe_part(ctx, asan, sc, items, ev)
        n_syn_ok, shashes = synth_part(ctx, asan, n_syn, ev)

        # ---- (b) CLI three-way ---------------------------------------------------------------------------
        cases = hand_cases + limit_cases + gen_cases[: n_cli - len(hand_cases)]
        n_own = len(cases)
        # repository programs (FFI imports, modules loaded by path: the three mains prepare those differently); they
        # run inside a copy of the repository's source trees, never in /repo
        rroot = sc.sub("rroot")
        for sub in ("tests", "examples/language", "modules", "std", "stdlib"):
            src = os.path.join(build.REPO, sub)
            if os.path.isdir(src):
                shutil.copytree(src, os.path.join(rroot, sub), symlinks=True, dirs_exist_ok=True)
        imports_of = ev.pop("_repo_imports")
        cand = []
        for p in repo:
            rel = os.path.relpath(p, build.REPO)
            if rel not in imports_of:
                continue
            text = open(p, errors="replace").read()
            if REPO_DENY.search(text):
                continue
            cand.append((0 if imports_of[rel] > 0 else 1, len(cand), rel, text))
        if ctx.quick():
            cand = sorted(cand)[:12]
        repo_cases = [("repository program %s" % rel, {os.path.basename(rel): text}, None, (rroot, rel)) for _, _, rel, text in cand]
        cases = cases + repo_cases
        n_cmp, phashes = cli_part(ctx, plain, sc, cases, ev)
        n_repo_cmp = ev["three_way_repository_programs_compared"]
        n_il_cmp, ihashes = interleave_part(ctx, plain, sc, n_il, ev)

        # limit cells: what the module of each cell measured, whether it sits on the boundary it was built for
        by_label = ev.pop("_outcome_by_label")
        recs = ev.pop("_limit_records")
        cells = {}
        hit = missed = 0
        for label, exp in limit_expect.items():
            kv = recs.get(label)
            name = label[len("limit cell "):]
            if kv is None:
                cells[name] = {"module": "not accepted by the compiler", "three_way": by_label.get(label, "?")}
                continue
            on = all(int(kv.get(k, -1)) == v for k, v in exp.items())
            if exp:
                hit += on
                missed += not on
            cells[name] = {"module": " ".join("%s=%s" % (k, kv.get(k)) for k in ("funcs", "strings", "imports", "maxfn", "maxlocals", "maxstr")),
                           "on_boundary": on if exp else None, "three_way": by_label.get(label, "?")}
        ev["limit_cells"] = cells
        ev["limit_cells_on_boundary"] = hit
        ev["limit_cells_off_boundary"] = missed
        if limit_notes:
            ev["limit_notes"] = limit_notes

        if not ctx.violations:
            ctx.require(n_ok >= 0.8 * len(items), "too few compiler-produced modules round-tripped (%d of %d)" % (n_ok, len(items)))
            ctx.require(n_syn_ok >= 0.95 * n_syn, "too few synthetic modules round-tripped (%d of %d)" % (n_syn_ok, n_syn))
            ctx.require(n_cmp - n_repo_cmp >= 0.8 * n_own, "too few programs compared three ways (%d of %d)" % (n_cmp - n_repo_cmp, n_own))
            ctx.require(n_repo_cmp >= 0.5 * len(repo_cases), "too few repository programs compared three ways (%d of %d)" % (n_repo_cmp, len(repo_cases)))
            ctx.require(ev["module_imports_hist"]["1+"] >= 5, "too few modules with an import table")
            nonzero = sum(v for k, v in ev["run_exit_status_histogram"].items() if k != "0")
            ctx.require(nonzero >= 5, "too few programs with a non-zero exit status")
            ctx.require(hit >= 0.8 * (hit + missed) and hit >= 20, "limit family: only %d of %d cells sit on their boundary" % (hit, hit + missed))
            c513 = cells.get("functions_512_plus_init", {})
            ctx.require("funcs=513" in str(c513.get("module")) and "agree" in str(c513.get("three_way")),
                        "limit family: the 513-entry function table (512 functions + __init__) was not produced and run: %s" % c513)
            ctx.require(n_il_cmp >= 0.8 * 2 * (n_il + len(c10fam.FIXED_INTERLEAVE)), "interleave family: too few comparisons (%d)" % n_il_cmp)
            ctx.require(ev["interleave_step_kinds"].get("system", 0) + ev["interleave_step_kinds"].get("write", 0) >= 10, "interleave family: too few foreign writers")

        cov = {
            "evaluations": n_ok + n_syn_ok + n_cmp + n_il_cmp,
            "distinct_nontrivial": len(mhashes | shashes) + len(phashes | ihashes),
            "rule": "distinct FNV-64 hashes of the serialised bytes of round-tripped modules (compiler-produced ones count only with "
                    ">= 1 function and non-empty code; synthetic ones all differ by construction of their shape/seed) + distinct "
                    "SHA-256 hashes of the source files of programs compared three ways that print something or exit non-zero "
                    "(interleave programs count only with >= 1 VM print and >= 1 foreign writer on fd 1)",
            "modules_from_sources": len(items),
            "three_way_programs": len(cases),
            "three_way_repository_programs": len(repo_cases),
        }
        cov.update(ev)
        cov["samples"] = ev["module_samples"] + ev["synthetic_samples"][:2] + ev["three_way_samples"] + ev["interleave_samples"]
        return ctx.finish(cov, assumptions=[
            "the probe drives lexer/parser/process_imports/type_check/codegen_compile exactly as src/nanovirt/main.c does and links the "
            "repository's own objects (asan flavor); the in-memory module is the one codegen_compile returned, untouched",
            "sources the front end does not accept are not cases of this property (counted under sources_not_accepted)",
            "stdout and exit status are compared, stderr is not; all runs get /dev/null as stdin",
            "repository programs are compared only when two consecutive --run executions print the same (they are not written to be "
            "reproducible) and when their text does not mention the command line, clock, environment or files",
            "the wrapper is compiled with NANO_CC='%s' because the hook-enabled tree changes sizeof(VmState)" % WRAPPER_CC,
            "a way that dies from the same signal in all runs is not compared on stdout (buffered output is lost)",
            "limit family: the boundary a cell sits on is MEASURED from the module the probe compiled (limit_cells), not assumed",
            "interleave family: foreign writers are libc's write/puts/putchar and the child of system(), resolved by the runners' own FFI; "
            "every runner is observed with stdout as a pipe and as a regular file; writes to fd 2 are present but stderr is not compared",
        ])
