"""C03 - compile-time shadow-test evaluation agrees with the compiled program (DESIGN §4 C03).

E: text printed by nanoc's tree-walking evaluator for a shadow block, or the PASSED/FAILED outcome of the block,
   differs from what the shipped binary prints / decides for the same calls.
O: `nanoc p -o p --verbose` is parsed: the shadow body of every function starts and ends with sentinel prints
   ('<<S f' ... '>>E f'), so the evaluator's output per block is cut out exactly; `main` of the same program
   performs the same calls between the same sentinels, and prints the truth value of every assertion ('A:f#k=').
   Oracle 1: per-block text equality evaluator vs binary.  Oracle 2: "all assertions true in the binary" must
   coincide with "shadow tests passed".  The reference model gives a third opinion that names the wrong side.
"""
import re

from .. import build, engines, sweep, census
from ..gen import gen
from ..run import pmap, Scratch

LEVEL = "exploration"

# constructs on which nanoc's evaluator is known to disagree (each is a census cell / witness listed in
# known_findings) are kept out of the sweep so that the rest keeps being explored
SWEEP_FEATURES = {"array_mut": False}

SEG_RE = re.compile(r"<<S (\w+)\n(.*?)>>E \1\n", re.S)


def segments(text):
    return {m.group(1): m.group(2) for m in SEG_RE.finditer(text)}


def strip_asserts(seg):
    """The binary's mirror of a shadow block brackets the repeated call of every assertion with the marker lines
    'A<' and 'A>f#k=<truth>' (the evaluator runs the same call inside `assert`, so its effects appear on both
    sides).  Returns (text without the two marker lines, [truth values])."""
    out = []
    truths = []
    for l in seg.split("\n"):
        if l == "A<":
            continue
        if l.startswith("A>") and (l.endswith("=true") or l.endswith("=false")):
            truths.append(l.endswith("=true"))
            continue
        out.append(l)
    return "\n".join(out), truths


def neutral(prog):
    import copy
    p = copy.deepcopy(prog)
    for f in p.all_funcs():
        if f.shadow:
            f.shadow = [("assert", ("bool", True))]
    return p


def run(ctx):
    plain = build.get("plain")
    with Scratch("c03") as sc:
        # ---- census: evaluator vs binary per feature --------------------------------------
        def do_cell(c):
            name, text, exp = c
            return c, engines.observe(plain, sc.sub("census/" + name), census.files(name), vm=False, verbose=True)

        census_out = {}
        for (name, text, exp), o in pmap(do_cell, list(sweep.census_cells())):
            cls = None
            if not o.built:
                cls = engines.classify_nanoc_failure(o.nanoc)
                if cls == "crash":
                    census_out[name] = "evaluator-crash"
                    ctx.violation("census|%s|interp" % name, "census feature '%s': nanoc crashes while evaluating the shadow block: %s" % (name, o.nanoc.errtext().strip()[-200:]),
                                  {"main.nano": text, "nanoc.stderr": o.nanoc.err})
                elif cls == "shadow":
                    census_out[name] = "shadow-failed"
                    ctx.violation("census|%s|interp" % name, "census feature '%s': shadow test fails at compile time", {"main.nano": text, "nanoc.stdout": o.nanoc.out})
                else:
                    census_out[name] = "skip:" + cls
                continue
            mi = re.search(r"<<S\n(.*?)>>E\n", o.nanoc.text(), re.S)
            mn = re.search(r"<<S\n(.*?)>>E\n", o.native.text(), re.S)
            I = mi.group(1) if mi else None
            N = mn.group(1) if mn else None
            if I == N and I is not None:
                census_out[name] = "equal"
            else:
                census_out[name] = "differ"
                ctx.violation("census|%s|interp" % name, "census feature '%s': evaluator printed %r, compiled binary printed %r (specification: %r)" % (name, I, N, exp),
                              {"main.nano": text, "nanoc.stdout": o.nanoc.out, "native.stdout": o.native.out})
        ctx.require(sum(1 for v in census_out.values() if v == "equal") >= 20, "census: too few comparable cells")

        # ---- grouping table: every (outer, inner) operator pair, evaluator vs binary -----------
        from .c02 import nesting_programs, NEST_TRIPLES
        group_cells = 0

        def do_nest(c):
            name, text, exp, ncell = c
            return c, engines.observe(plain, sc.sub("nest/" + name), {"main.nano": text}, vm=False, verbose=True)

        from .. import tables
        bt = [t[:4] for t in tables.builtin_tables(shadow_driven=True)] + [t[:4] for t in tables.hashmap_tables(shadow_driven=True)]
        for (name, text, exp, ncell), o in pmap(do_nest, nesting_programs(shadow_driven=True) + bt):
            if not o.built:
                ctx.violation("group|%s|build" % name, "grouping table %s does not compile: %s" % (name, engines.classify_nanoc_failure(o.nanoc)),
                              {"main.nano": text, "nanoc.stderr": o.nanoc.err, "nanoc.stdout": o.nanoc.out})
                continue
            mi = re.search(r"<<S\n(.*?)>>E\n", o.nanoc.text(), re.S)
            mn = re.search(r"<<S\n(.*?)>>E\n", o.native.text(), re.S)
            if not mi or not mn:
                ctx.violation("group|%s|truncated" % name, "grouping table %s: %s output has no complete segment" % (name, "evaluator" if not mi else "binary"),
                              {"main.nano": text, "nanoc.stdout": o.nanoc.out, "native.stdout": o.native.out})
                continue
            il, nl_ = mi.group(1).splitlines(), mn.group(1).splitlines()
            if len(il) != ncell or len(nl_) != ncell:
                ctx.violation("group|%s|line-count" % name, "grouping table %s: evaluator printed %d lines, binary %d, expected %d" % (name, len(il), len(nl_), ncell),
                              {"main.nano": text, "nanoc.stdout": o.nanoc.out, "native.stdout": o.native.out})
                continue
            group_cells += ncell
            for a, b, w in [(a, b, w) for a, b, w in zip(il, nl_, exp.splitlines()) if a != b][:50]:
                if name.startswith("hm_"):
                    ctx.violation("hashmap|%s" % name, "hashmap table %s: evaluator printed '%s', binary printed '%s' (specification: '%s')" % (name, a, b, w), {"main.nano": text})
                    break
                if name.startswith("bt_"):
                    ctx.violation("btable|%s" % w.split()[0], "builtin table cell '%s': evaluator printed '%s', binary printed '%s'" % (w, a, b), {"main.nano": text})
                    continue
                form, outer, inner, pos, t = w.split()[:5]
                ctx.violation("group|%s|%s|%s|%s" % (form, outer, inner, pos),
                              "grouping: %s form, outer %s, inner %s (position %s), operands %s: evaluator printed '%s', binary printed '%s' (specification: '%s')" % (
                                  form, outer, inner, pos, NEST_TRIPLES[int(t)], a, b, w), {"main.nano": text})
        ctx.require(group_cells > 3500, "grouping / builtin tables incomplete (%d cells)" % group_cells)

        # ---- sweep ----------------------------------------------------------------------------
        n = ctx.n(200, 4000)
        batch = sweep.gen_batch(ctx, n, features=SWEEP_FEATURES)
        ctx.require(len(batch) >= n * 0.6, "generator produced too few in-zone programs")

        def do_prog(item):
            i, prog, exp = item
            return item, engines.observe(plain, sc.sub("p%05d" % i), prog.files(), vm=False, verbose=True)

        hist = {}
        blocks = asserts = 0
        fsets = set()
        samples = []
        for (i, prog, exp), o in pmap(do_prog, batch):
            if not o.built:
                cls = engines.classify_nanoc_failure(o.nanoc)
                hist["nanoc:" + cls] = hist.get("nanoc:" + cls, 0) + 1
                if cls in ("shadow", "crash"):
                    # a program whose assertions all hold in the reference model was refused: ask the compiler itself
                    d2 = sc.sub("n%05d" % i)
                    o2 = engines.observe(plain, d2, neutral(prog).files(), vm=False)
                    native_truths = None
                    if o2.built:
                        native_truths = [t for seg in segments(o2.native.text()).values() for t in strip_asserts(seg)[1]]
                    if o2.built and all(native_truths):
                        def still(p, e, _i=i, _cls=cls):
                            # the reduced program must still be one whose assertions all hold in the model
                            if any(sf is not None or not all(a) for _, a, sf in e["shadow"].values()):
                                return False
                            o3 = engines.observe(plain, sc.sub("red%05d" % _i), p.files(), vm=False)
                            if o3.built:
                                return False
                            if engines.classify_nanoc_failure(o3.nanoc) != _cls:
                                return False
                            o4 = engines.observe(plain, sc.sub("red%05d" % _i), neutral(p).files(), vm=False)
                            return o4.built
                        sig, small = sweep.reduced_key(prog, still)
                        files = {"original/" + k: v for k, v in prog.files().items()}
                        files.update({"reduced/" + k: v for k, v in small.files().items()})
                        files["nanoc.stdout"] = o.nanoc.out
                        files["nanoc.stderr"] = o.nanoc.err
                        what = ("nanoc refuses program %d (%s) although every shadow assertion is true in the compiled binary (%d assertions) and in the reference model\n%s"
                                % (i, "shadow test FAILED" if cls == "shadow" else "evaluator crashed", len(native_truths), (o.nanoc.text() + o.nanoc.errtext())[-400:]))
                        ctx.violation("sweep|%s|%s" % ("refused-correct" if cls == "shadow" else "evaluator-crash", sig), what, files)
                continue
            si = segments(o.nanoc.text())
            sn = segments(o.native.text())
            sm = segments(exp["stdout"])
            ok_prog = True
            imported = set(f.name for m in prog.modules for f in m.funcs)
            for fname, mseg in sm.items():
                blocks += 1
                nseg, truths = strip_asserts(sn.get(fname, ""))
                mseg2, mtruths = strip_asserts(mseg)
                iseg = si.get(fname)
                asserts += len(truths)
                if iseg is None and fname in imported:
                    hist["block-of-imported-module-not-evaluated"] = hist.get("block-of-imported-module-not-evaluated", 0) + 1
                    blocks -= 1
                    continue
                if iseg is None:
                    ok_prog = False
                    ctx.violation("sweep|block-missing", "program %d: no evaluator output for shadow block %s" % (i, fname), {"main.nano": prog.files()["main.nano"], "nanoc.stdout": o.nanoc.out})
                    continue
                if iseg != nseg:
                    ok_prog = False
                    blame = "evaluator" if nseg == mseg2 else "binary" if iseg == mseg2 else "both differ from the model"
                    d = engines.first_diff(iseg, nseg)

                    def still(p, e, _i=i, _f=fname, _blame=blame):
                        o3 = engines.observe(plain, sc.sub("red%05d" % _i), p.files(), vm=False, verbose=True)
                        if not o3.built:
                            return False
                        a = segments(o3.nanoc.text()).get(_f)
                        b = strip_asserts(segments(o3.native.text()).get(_f, ""))[0]
                        m = strip_asserts(segments(e["stdout"]).get(_f, ""))[0]
                        if a is None or a == b:
                            return False
                        bl = "evaluator" if b == m else "binary" if a == m else "both differ from the model"
                        return bl == _blame
                    sig, small = sweep.reduced_key(prog, still)
                    files = {"original/" + k: v for k, v in prog.files().items()}
                    files.update({"reduced/" + k: v for k, v in small.files().items()})
                    files.update({"evaluator.segment": iseg, "binary.segment": nseg, "model.segment": mseg2})
                    ctx.violation("sweep|interp!=native|%s" % sig, "program %d, shadow block %s: evaluator and binary print different text (%s): line %d evaluator=%r binary=%r" % (
                        i, fname, blame, d[0], d[1], d[2]), files)
                if not all(truths):
                    ok_prog = False
                    ctx.violation("sweep|passed-but-native-false", "program %d: shadow tests passed at compile time but assertion(s) of block %s are false in the binary: %s" % (i, fname, truths),
                                  {"main.nano": prog.files()["main.nano"], "native.stdout": o.native.out})
            hist["compared" if ok_prog else "differ"] = hist.get("compared" if ok_prog else "differ", 0) + 1
            if ok_prog and len(sm) >= 2:
                fsets.add(frozenset(prog.tags))
            if len(samples) < 2 and sm:
                fn0 = sorted(sm)[0]
                samples.append({"index": i, "block": fn0, "evaluator_segment": si.get(fn0, "")[:300], "binary_segment": strip_asserts(sn.get(fn0, ""))[0][:300]})
        ctx.require(blocks >= n, "too few shadow blocks compared (%d)" % blocks)
        return ctx.finish({
            "evaluations": len(batch) + len(census_out) + group_cells,
            "grouping_cells_compared": group_cells,
            "distinct_nontrivial": len(fsets) + sum(1 for v in census_out.values() if v == "equal"),
            "rule": "distinct feature sets of programs with >= 2 shadow blocks whose evaluator text equalled the binary's, plus census cells compared equal",
            "programs": len(batch),
            "shadow_blocks_compared": blocks,
            "assertions_compared": asserts,
            "outcomes": hist,
            "census": census_out,
            "feature_histogram": sweep.feature_histogram(batch),
            "samples": samples,
        }, assumptions=[
            "shadow blocks of generated programs only call functions that do not touch mutable globals, so compile-time and run-time calls see the same state",
            "the evaluator's output is recognised in nanoc --verbose stdout by the sentinel lines '<<S f' / '>>E f'",
            "reference model nlv/gen/ref.py gives the third opinion",
        ])


def replay(ctx, path):
    """re-run the stored program: evaluator segments vs binary segments"""
    plain = build.get("plain")
    files = sweep.replay_files(path)
    with Scratch("c03r") as sc:
        o = engines.observe(plain, sc.sub("p"), files, vm=False, verbose=True)
        if not o.built:
            print("replay %s: nanoc did not produce a binary (%s)" % (path, engines.classify_nanoc_failure(o.nanoc)))
            print("VIOLATION property=C03 replay=%s" % path)
            return 1
        si, sn = segments(o.nanoc.text()), segments(o.native.text())
        if not si:
            import re as _re
            mi = _re.search(r"<<S\n(.*?)>>E\n", o.nanoc.text(), _re.S)
            mn = _re.search(r"<<S\n(.*?)>>E\n", o.native.text(), _re.S)
            si, sn = {"t": mi.group(1) if mi else None}, {"t": mn.group(1) if mn else None}
        bad = [f for f in si if si[f] != strip_asserts(sn.get(f) or "")[0]]
        print("replay %s: %d block(s), differing: %s" % (path, len(si), bad))
        if bad:
            print("VIOLATION property=C03 replay=%s" % path)
        return 1 if bad else 0
