"""C08 - out-of-range operations stop the program and never yield a value (DESIGN §4 C08).

E: a run in which an array access outside [0,len), a pop of an empty array or a non-existent tuple/struct/union
   field is followed by any later output marker, or ends with exit status 0, or produces an ASan/UBSan report.
O: one access per process.  Every test program prints `C08:BEFORE i=<index>`, performs the access with the index
   received through a function parameter, prints `C08:VALUE` + the value (or the length for writes) and
   `C08:AFTER`.  Required for an out-of-range cell: `C08:VALUE` and `C08:AFTER` absent, exit status != 0 (a signal
   counts), no sanitizer report.  `C08:BEFORE` is not required (abort() loses buffered stdout).  In-range controls
   of the same (engine, op, kind, construction, length) must print value + AFTER and exit 0, else the cells that
   depend on them are skipped and counted (guards against vacuity).
Engines: native (asan nanoc + fastcc with ASan/UBSan), vm (asan nano_virt --run), nano_vm (asan nano_vm on the .nvm
   emitted by nano_virt), eval (the access inside a shadow block: asan nanoc must exit != 0 and write no binary).
Construction kinds of the array: literal, built by array_push, the typed empty literal that never held an element,
   pushed then emptied by pops, pushed then emptied by removals (the native runtime allocates struct storage on the
   first push: an array that never held an element is a different object from an emptied one).
Placement grid (VM engines nano_virt --run, nano_vm, the stand-alone executable from `nano_virt -o`; native and the
   evaluator where the program shape is supported): the access sits in main's callee (main grid), in a nested call
   chain, a loop body, a match arm, a call argument, a cond branch, in a function called from a top-level `let`
   initialiser, or is the initialiser itself - a trap while the initialisers run must also keep main from running.
Element kinds: int, string, bool, struct, float, u8 (byte buffers), nested arrays, enum constants (held in array<int>).
Value-less placements (r2): statement position with the value discarded, argument of a discarded call, inside a void
   helper, inside a helper whose result the caller drops - for at / array_get / array_pop (+ set / remove in the void
   helper); their controls are doubled by a value-checked control in the main placement.  enum_index: the index is an
   enum-typed value (ordinal >= length).
Capacity band: lengths 0,1,5,7,8,9,15,16,17 x EVERY index from the length to one past the next capacity of the store
   (8/16/32 slots), one compiled program per family, the index arrives through the environment (C08_IDX).
Assembler level: TUPLE_GET / STRUCT_GET / STRUCT_SET / UNION_FIELD k with k >= count through probes/c08_asm_probe.c
   (repo's asm_assemble) into the real nano_vm (verifier on) and in-process with the verifier skipped.
"""
import os
import re

from .. import build, engines
from ..run import run as sh, pmap, Scratch, ASAN_ENV

LEVEL = "fault_enumeration"

KINDS = ("int", "string", "bool", "struct")
# every element type an array can hold: + float, u8 (byte buffers), nested arrays, enum constants (array<Enum> is not
# readable - the type checker sees its elements as structs - so enum values are stored the way programs do it, in array<int>)
NEW_KINDS = ("float", "u8", "nested", "enum")
ALL_KINDS = KINDS + NEW_KINDS
CONS = ("literal", "pushed")
OPS = ("at", "array_set", "array_remove_at", "array_pop")
ENGINES = ("native", "vm", "nano_vm", "eval")
PLACE_ENGINES = ("native", "vm", "nano_vm", "wrap", "eval")
LENGTHS = tuple(range(0, 9))
I64MAX = (1 << 63) - 1
I64MIN = -(1 << 63)

TYPE = {"int": "int", "string": "string", "bool": "bool", "struct": "P", "float": "float", "u8": "u8",
        "nested": "array<int>", "enum": "int"}
DECL = {"struct": "struct P { x: int, y: int }\n", "enum": "enum Color { Red, Green, Violet }\n"}
U8_SRC = "abcdefghijklmnopqrstuvwxyz"
ENUMS = ("Color.Red", "Color.Green", "Color.Violet")


# ---------------------------------------------------------------------------------------------------------
# the grid
# ---------------------------------------------------------------------------------------------------------
# construction kinds: "literal" [e0, e1, ...]; "pushed" [] + n pushes; "never" the typed empty literal that never held
# an element; "emptied_pop" / "emptied_remove": n pushes, then emptied again by n in-range pops / removals at index 0
EMPTIED = ("emptied_pop", "emptied_remove")
# where the access sits (VM engines; the program shape around the access):
# discard = statement position, value thrown away; discard_arg = argument of a call whose value is thrown away;
# helper_void = in a void helper function; helper_discard = in a helper that returns the value, which the caller drops;
# enum_index = the index is an enum-typed parameter (ordinal >= length)
PLACES = ("main", "nested", "loop", "match", "arg", "cond", "global_call", "global_direct",
          "discard", "discard_arg", "helper_void", "helper_discard", "enum_index")
VALUE_OPS = ("at", "array_get", "array_pop")
GLOBAL_PLACES = ("global_call", "global_direct")


class Cell:
    """one access = one process.  n = elements constructed; prepops / prerem = in-range pops / removals at index 0
    done before the access; repush = elements pushed after that (controls of emptied arrays); idx = index used by the
    access (None for array_pop); cls = index class; control = the access is in range; place = where the access sits."""
    __slots__ = ("engine", "op", "kind", "cons", "n", "idx", "cls", "prepops", "prerem", "repush", "control", "group",
                 "place", "env")

    def __init__(self, engine, op, kind, cons, n, idx, cls, prepops=0, control=False, group=None, place="main",
                 prerem=0, repush=0, env=False):
        # env: the index reaches the program through the environment (C08_IDX), so that one compiled program serves a
        # whole family of indices (capacity-band grid)
        self.env = env
        self.engine, self.op, self.kind, self.cons, self.n = engine, op, kind, cons, n
        self.idx, self.cls, self.prepops, self.control = idx, cls, prepops, control
        self.prerem, self.repush, self.place = prerem, repush, place
        # group = the family (place, op, kind, construction, length) whose in-range controls vouch for this cell
        self.group = group

    def ident(self):
        return (self.engine, self.place, self.op, self.kind, self.cons, self.n, self.prepops, self.prerem, self.repush,
                self.idx, self.env)

    def name(self):
        pre = ""
        if self.prepops:
            pre += "-%dpops" % self.prepops
        if self.prerem:
            pre += "-%drem" % self.prerem
        if self.repush:
            pre += "+%dpush" % self.repush
        return "%s%s|%s|%s|%s|n=%d%s|i=%s" % (self.engine, ("@band" if self.env else "") if self.place == "main" else "@" + self.place, self.op,
                                              self.kind, self.cons, self.n, pre, "-" if self.idx is None else self.idx)

    def content(self):
        """element labels in the array at the moment of the access"""
        c = list(range(self.n))
        if self.prepops:
            c = c[:len(c) - self.prepops]
        c = c[self.prerem:]
        return c + [0] * self.repush

    def live_len(self):
        return len(self.content())


def oob_indices(n):
    """(class, index) for an array of length n - the grid of the design"""
    out = [("neg", -1), ("len", n), ("len+1", n + 1), ("2^31", 1 << 31)]
    for k in range(max(n, 1)):            # n == 0: 2^32 itself
        out.append(("2^32+k", (1 << 32) + k))
    out += [("int64max", I64MAX), ("int64min", I64MIN)]
    return out


def applicable(place, op, cons):
    if place == "arg" and op == "array_set":
        return False                      # array_set yields no value that could be passed on
    if place == "global_direct":
        return op != "array_set" and cons in ("literal", "never")
    if place in ("discard", "discard_arg", "helper_discard"):
        return op in VALUE_OPS            # the others are statements anyway (main grid)
    if place == "enum_index":
        return op != "array_pop"
    return True


def family(engine, place, op, kind, cons, n):
    """fault cells + controls of one (place, op, kind, construction, length)"""
    cells = []
    grp = (place, op, kind, cons, n)
    # the one-element arrays that vouch for the empty literal (no index of it is in range)
    never_ctl = ("literal",) if place == "global_direct" else CONS

    def C(*a, **kw):
        cells.append(Cell(engine, op, kind, *a, group=grp, place=place, **kw))

    if cons in EMPTIED:
        pk = {"prepops": n} if cons == "emptied_pop" else {"prerem": n}
        if op == "array_pop":
            C(cons, n, None, "empty", **pk)
            C(cons, n, None, "ctl", control=True, repush=1, **pk)
        else:
            for cls, i in oob_indices(0):
                C(cons, n, i, cls, **pk)
            C(cons, n, 0, "ctl", control=True, repush=1, **pk)
        return cells
    if op == "array_pop":
        # n elements, popped n times (each pop in range), then the pop on the empty array
        C(cons, n, None, "empty", prepops=n)
        if n == 0:
            for cc in never_ctl:
                C(cc, 1, None, "ctl", control=True)
        else:
            C(cons, n + 1, None, "ctl", prepops=n, control=True)
        return cells
    if place == "enum_index":
        # the index is an enum constant (ordinals 0..2); only ordinal 0 serves as control: what an in-range enum index
        # yields is a value question (C01/C02), not this property's
        for o in range(n, 3):
            C(cons, n, o, "ord>=len")
        C(cons if n else "pushed", max(n, 1), 0, "ctl", control=True)
        return cells
    for cls, i in oob_indices(n):
        C(cons, n, i, cls)
    if n == 0:
        for cc in never_ctl:
            C(cc, 1, 0, "ctl", control=True)
    else:
        for i in sorted(set([0, n - 1])):
            C(cons, n, i, "ctl", control=True)
    return cells


VALUELESS_PLACES = ("discard", "discard_arg", "helper_void", "helper_discard")


def with_value_twins(cells):
    """placements that throw the value away print nothing an in-range control could be checked against: such a
    control would also pass on an engine that does not implement the operation at all.  Every control of these
    placements is therefore accompanied by the same in-range access in the main placement, whose value IS checked."""
    out = list(cells)
    for c in cells:
        if c.control and c.place in VALUELESS_PLACES:
            out.append(Cell(c.engine, c.op, c.kind, c.cons, c.n, c.idx, "ctl", prepops=c.prepops, control=True,
                            group=c.group, place="main", prerem=c.prerem, repush=c.repush))
    return out


def grid(engine):
    """main placement: all cells (faults + controls) of one engine"""
    cells = []
    for op in OPS:
        for kind in ALL_KINDS:
            for n in LENGTHS:
                for cons in (("never",) if n == 0 else CONS):
                    cells += family(engine, "main", op, kind, cons, n)
            for cons in EMPTIED:
                if op == "array_pop" and cons == "emptied_pop":
                    continue              # = the pushed arrays emptied by pops above
                for m in (1, 3):
                    cells += family(engine, "main", op, kind, cons, m)
    return cells


def place_grid(engine):
    """the other placements: lengths 0 (never pushed) and 3 (literal, pushed), every index class"""
    places = [p for p in PLACES if p != "main" or engine == "wrap"]
    if engine == "eval":
        places = [p for p in places if p not in GLOBAL_PLACES]      # globals are not evaluated by shadow tests
    cells = []
    for place in places:
        for op in OPS + ("array_get",):
            if op == "array_get" and place not in ("discard", "discard_arg", "helper_void", "helper_discard"):
                continue
            for kind in (("int",) if place == "enum_index" else KINDS):
                variants = (("literal", 3), ("pushed", 3), ("never", 0))
                if place == "enum_index":
                    variants = (("literal", 1), ("literal", 2), ("pushed", 2), ("never", 0))
                for cons, n in variants:
                    if applicable(place, op, cons):
                        cells += with_value_twins(family(engine, place, op, kind, cons, n))
    return cells


BAND_LENGTHS = (0, 1, 5, 7, 8, 9, 15, 16, 17)      # around the growth boundaries of the array stores (8, 16, 32)
BAND_OPS = ("at", "array_get", "array_set", "array_remove_at")


def band_indices(n):
    """every index from the length to one past the next capacity (stores start at 8 slots and double); a full store
    (n == capacity) may or may not have grown already, so its band runs to one past the doubled capacity"""
    cap = 8
    while cap < n:
        cap *= 2
    out = []
    hi = cap + 1 if n < cap else 2 * cap + 1
    for i in range(n, hi + 1):
        if i == n:
            cls = "len"
        elif i < cap:
            cls = "in-cap"
        elif i == cap:
            cls = "cap"
        elif n < cap:
            cls = "cap+1"
        elif i < 2 * cap:
            cls = "in-2cap"
        else:
            cls = "2cap" if i == 2 * cap else "2cap+1"
        out.append((cls, i))
    return out


def band_grid(engine):
    """capacity band: one program per (op, kind, construction, length) that takes the index from the environment, run
    once per index in [length, next capacity + 1]; controls: index 0 and length-1"""
    cells = []
    for op in BAND_OPS:
        for kind in ALL_KINDS:
            for n in BAND_LENGTHS:
                for cons in (("never",) if n == 0 else CONS):
                    grp = ("band", op, kind, cons, n)
                    for cls, i in band_indices(n):
                        cells.append(Cell(engine, op, kind, cons, n, i, cls, group=grp, env=True))
                    if n == 0:
                        for cc in CONS:
                            cells.append(Cell(engine, op, kind, cc, 1, 0, "ctl", control=True, group=grp, env=True))
                    else:
                        for i in sorted(set([0, n - 1])):
                            cells.append(Cell(engine, op, kind, cons, n, i, "ctl", control=True, group=grp, env=True))
    return cells


def fam_key(c):
    return (c.engine, c.op, c.kind, c.cons, c.n)


# ---------------------------------------------------------------------------------------------------------
# programs
# ---------------------------------------------------------------------------------------------------------
def elem_src(kind, j):
    if kind == "int":
        return str(10 + j)
    if kind == "string":
        return '"s%d"' % j
    if kind == "bool":
        return "true" if j % 2 == 0 else "false"
    if kind == "float":
        return "%d.5" % (10 + j)
    if kind == "u8":
        return "(at SRC %d)" % j
    if kind == "nested":
        return "[%s]" % ", ".join(str(10 + j + t) for t in range(j % 3 + 1))
    if kind == "enum":
        return ENUMS[j % 3]
    return "P { x: %d, y: %d }" % (10 + j, 100 + j)


def elem_out(kind, j):
    if kind == "int" or kind == "struct":
        return str(10 + j)
    if kind == "string":
        return "s%d" % j
    if kind == "float":
        return "%d.5" % (10 + j)
    if kind == "u8":
        return str(ord(U8_SRC[j]))
    if kind == "nested" or kind == "enum":
        return str(j % 3 + 1) if kind == "nested" else str(j % 3)
    return "true" if j % 2 == 0 else "false"


def _new(kind, old):
    """(source, printed form) of the value array_set stores; differs from the old element where that is known"""
    if kind == "int":
        return "77", "77"
    if kind == "string":
        return '"new"', "new"
    if kind == "bool":
        return ("false", "false") if (old is not None and old % 2 == 0) else ("true", "true")
    if kind == "float":
        return "77.25", "77.25"
    if kind == "u8":
        return "(at SRC 25)", str(ord(U8_SRC[25]))
    if kind == "nested":
        return "[1, 2, 3, 4, 5]", "5"
    if kind == "enum":
        return ("Color.Red", "0") if (old is not None and old % 3 == 2) else ("Color.Violet", "2")
    return "P { x: 77, y: 78 }", "77"


def new_src(kind, old):
    return _new(kind, old)[0]


def new_out(kind, old):
    return _new(kind, old)[1]


def val_expr(kind, v):
    if kind == "struct":
        return v + ".x"
    if kind == "nested":
        return "(array_length %s)" % v
    return v


def literal_src(kind, n):
    """source of an array holding elements 0..n-1 written in one expression"""
    if kind == "u8" and n > 0:
        return '(bytes_from_string "%s")' % U8_SRC[:n]
    return "[%s]" % ", ".join(elem_src(kind, j) for j in range(n))


def idx_src(i):
    if i == I64MIN:
        return "(- -9223372036854775807 1)"
    return str(i)


def _global_direct(cell):
    """the access is the initialiser expression of a top-level `let`; the array is another global"""
    T, k = TYPE[cell.kind], cell.kind
    L = []
    if k in DECL:
        L.append(DECL[k])
    L.append("let mut GA: array<%s> = %s" % (T, literal_src(k, cell.n)))
    for p in range(cell.prepops):
        L.append("let GP%d: %s = (array_pop GA)" % (p, T))
    content = cell.content()
    i = cell.idx
    exp = []
    if cell.op == "at":
        L.append("let G: %s = (at GA %s)" % (T, idx_src(i)))
        show = "    (println %s)" % val_expr(k, "G")
        if cell.control:
            exp = [elem_out(k, content[i])]
    elif cell.op == "array_pop":
        L.append("let G: %s = (array_pop GA)" % T)
        show = "    (println %s)" % val_expr(k, "G")
        if cell.control:
            exp = [elem_out(k, content[-1])]
    else:
        L.append("let G: array<%s> = (array_remove_at GA %s)" % (T, idx_src(i)))
        show = "    (println (array_length G))"
        if cell.control:
            exp = [str(len(content) - 1)]
    L += ["fn main() -> int {", '    (println "C08:MAIN")', '    (println "C08:VALUE")', show, '    (println "C08:AFTER")',
          "    return 0", "}", "shadow main { assert true }"]
    return "\n".join(L) + "\n", [], exp


ENV_ARG = '(string_to_int (getenv "C08_IDX"))'


def program(cell):
    """source text, the values the in-range pre-pops print, the lines a control prints between C08:VALUE and C08:AFTER.
    For env cells the text does not depend on the index (one program per family)."""
    if cell.place == "global_direct":
        return _global_direct(cell)
    T = TYPE[cell.kind]
    k = cell.kind
    place = cell.place
    op = cell.op
    ix = "c" if place == "enum_index" else "i"
    src_line = '    let SRC: array<u8> = (bytes_from_string "%s")' % U8_SRC
    L = []
    if k in DECL:
        L.append(DECL[k])
    if place == "enum_index" and k != "enum":
        L.append(DECL["enum"])
    if place == "match":
        L.append("union U {\n A { v: int },\n B { w: int }\n}\n")
    if place in ("arg", "discard_arg"):
        L.append("fn idv(x: %s) -> %s {\n    return x\n}\nshadow idv { assert true }" % (T, T))
        L.append("fn idn(x: int) -> int {\n    return x\n}\nshadow idn { assert true }")
    content = cell.content()
    n = len(content)
    i = cell.idx
    old = content[i] if (cell.control and not cell.env and i is not None) else None
    if cell.env and k == "bool":
        old = 0        # family-constant text: store `false`, which differs from element 0 (the control every family has)
    read = {"at": "(at a %s)" % ix, "array_get": "(array_get a %s)" % ix, "array_pop": "(array_pop a)"}.get(op)
    if place == "helper_void":
        body = read or ("(array_set a i %s)" % new_src(k, old) if op == "array_set" else "(array_remove_at a i)")
        L.append("fn touch(a: array<%s>, i: int) -> void {\n%s    %s\n}\nshadow touch { assert true }" % (
            T, (src_line + "\n") if (k == "u8" and op == "array_set") else "", body))
    if place == "helper_discard":
        L.append("fn pick(a: array<%s>, i: int) -> %s {\n    return %s\n}\nshadow pick { assert true }" % (T, T, read))
    L.append("fn t(%s: %s) -> int {" % (ix, "Color" if place == "enum_index" else "int"))
    if k == "u8":
        L.append(src_line)
    if cell.cons == "literal":
        L.append("    let mut a: array<%s> = %s" % (T, literal_src(k, cell.n)))
    else:
        L.append("    let mut a: array<%s> = []" % T)
        for j in range(cell.n):
            L.append("    set a (array_push a %s)" % elem_src(k, j))
    L.append('    (println "C08:START")')       # nanoc --verbose prefixes the first line with "Testing t... "
    L.append('    (println (+ "C08:LEN=" (int_to_string (array_length a))))')
    pre = []
    for p in range(cell.prepops):
        L.append("    let p%d: %s = (array_pop a)" % (p, T))
        L.append('    (println "C08:PRE")')
        L.append("    (println %s)" % val_expr(k, "p%d" % p))
        pre.append(elem_out(k, cell.n - 1 - p))
    for p in range(cell.prerem):
        L.append("    (array_remove_at a 0)")
    for p in range(cell.repush):
        L.append("    set a (array_push a %s)" % elem_src(k, 0))
    if cell.prerem or cell.repush:
        L.append('    (println (+ "C08:NOW=" (int_to_string (array_length a))))')
    if place == "enum_index":
        L.append('    (println "C08:BEFORE i=%d")' % i)
    else:
        L.append('    (println (+ "C08:BEFORE i=" (int_to_string i)))')
    core, exp = [], []
    extra = cell.control or cell.env          # lines that check what an in-range access did
    wrap_v = (lambda e: "(idv %s)" % e) if place == "arg" else (lambda e: "(cond ((== i i) %s) (else %s))" % (e, elem_src(k, 0))) \
        if place == "cond" else (lambda e: e)
    wrap_n = (lambda e: "(idn %s)" % e) if place == "arg" else (lambda e: "(cond ((== i i) %s) (else -5))" % e) \
        if place == "cond" else None
    if place in ("discard", "discard_arg", "helper_void", "helper_discard"):
        # the value (if any) is thrown away: nothing but the markers is printed
        stmt = {"discard": read, "discard_arg": "(idv %s)" % read,
                "helper_void": "(touch a %s)" % ("0" if op == "array_pop" else "i"),
                "helper_discard": "(pick a %s)" % ("0" if op == "array_pop" else "i")}[place]
        core.append(stmt)
        core.append('(println "C08:VALUE")')
    elif op in ("at", "array_get"):
        core.append("let v: %s = %s" % (T, wrap_v(read)))
        core.append('(println "C08:VALUE")')
        core.append("(println %s)" % val_expr(k, "v"))
        if cell.control:
            exp = [elem_out(k, content[i])]
    elif op == "array_set":
        if place == "cond":
            core.append("if (== i i) {\n        (array_set a i %s)\n    } else {\n        (println \"C08:ELSE\")\n    }" % new_src(k, old))
        else:
            core.append("(array_set a %s %s)" % (ix, new_src(k, old)))
        core.append('(println "C08:VALUE")')
        core.append("(println (array_length a))")
        if extra:
            core.append("let w: %s = (at a %s)" % (T, ix))
            core.append("(println %s)" % val_expr(k, "w"))
        if cell.control:
            exp = [str(n), new_out(k, old)]
    elif op == "array_remove_at":
        if wrap_n:
            core.append("let m: int = %s" % wrap_n("(array_length (array_remove_at a i))"))
            core.append('(println "C08:VALUE")')
            core.append("(println m)")
            if cell.control:
                exp = [str(n - 1)]
        else:
            core.append("(array_remove_at a %s)" % ix)
            core.append('(println "C08:VALUE")')
            core.append("(println (array_length a))")
            if extra and n - 1 > 0:
                core.append("let w: %s = (at a 0)" % T)
                core.append("(println %s)" % val_expr(k, "w"))
            if cell.control:
                exp = [str(n - 1)]
                if n - 1 > 0:
                    rest = content[:i] + content[i + 1:]
                    exp.append(elem_out(k, rest[0]))
    else:
        core.append("let v: %s = %s" % (T, wrap_v(read)))
        core.append('(println "C08:VALUE")')
        core.append("(println %s)" % val_expr(k, "v"))
        if cell.control:
            exp = [elem_out(k, content[-1])]
    if place == "loop":
        L.append("    let mut j: int = 0")
        L.append("    while (< j 1) {")
        L += ["        " + c for c in core]
        L.append("        set j (+ j 1)")
        L.append("    }")
    elif place == "match":
        L.append("    let u: U = U.A { v: 1 }")
        L.append("    match u {")
        L.append("        A(x) => {")
        L += ["            " + c for c in core]
        L.append("        },")
        L.append('        B(y) => { (println "C08:WRONGARM") }')
        L.append("    }")
    else:
        L += ["    " + c for c in core]
    L.append('    (println "C08:AFTER")')
    L.append("    return 0")
    L.append("}")
    if cell.env:
        arg = ENV_ARG
    elif place == "enum_index":
        arg = ENUMS[i]
    else:
        arg = "0" if i is None else idx_src(i)
    entry = "t"
    if place == "nested":
        L.append("shadow t { assert true }")
        L.append("fn mid(i: int) -> int {\n    return (t i)\n}\nshadow mid { assert true }")
        L.append("fn outer(i: int) -> int {\n    let r: int = (mid i)\n    return r\n}")
        entry = "outer"
    if cell.engine == "eval":
        L.append("shadow %s {\n    (%s %s)\n}" % (entry, entry, arg))
        L.append("fn main() -> int {\n    return 0\n}")
    elif place == "global_call":
        L.append("shadow t { assert true }")
        L.append("let G: int = (t %s)" % arg)
        L.append('fn main() -> int {\n    (println "C08:MAIN")\n    return G\n}')
    else:
        L.append("shadow %s { assert true }" % entry)
        L.append("fn main() -> int {\n    return (%s %s)\n}" % (entry, arg))
    L.append("shadow main { assert true }")
    return "\n".join(L) + "\n", pre, exp


# ---------------------------------------------------------------------------------------------------------
# running one cell
# ---------------------------------------------------------------------------------------------------------
# the VM's own diagnostics start with "runtime error:" - a UBSan report is "<file>:<line>:<col>: runtime error:"
SAN_RE = re.compile(r"(ERROR: AddressSanitizer|ERROR: LeakSanitizer|\S+:\d+:\d+: runtime error:|AddressSanitizer:DEADLYSIGNAL|"
                    r"ERROR: UndefinedBehaviorSanitizer|==\d+==\s*AddressSanitizer|AddressSanitizer: )")


def san_report(r):
    t = r.errtext()
    m = SAN_RE.search(t)
    return t[m.start():m.start() + 3000] if m else None


# the native runtime reports an index error through assert() -> abort(): with handle_abort=1 ASan would dress the
# SIGABRT up as an "AddressSanitizer: ABRT" report; here the process is simply left to die from the signal
NATIVE_ENV = {"ASAN_OPTIONS": ASAN_ENV["ASAN_OPTIONS"].replace("handle_abort=1", "handle_abort=0")}


class Out:
    __slots__ = ("cell", "lines", "rc", "sig", "san", "timeout", "skip", "stderr", "binary", "text", "src")

    def __init__(self, cell):
        self.cell = cell
        self.lines = []
        self.rc = self.sig = None
        self.san = None
        self.timeout = False
        self.skip = None          # reason the cell could not be executed on this engine
        self.stderr = ""
        self.binary = None        # eval: did nanoc leave a binary
        self.text = ""
        self.src = ""


def execute(flavor, sc, cell, seq):
    src, pre, exp = program(cell)
    o = Out(cell)
    o.src = src
    d = sc.sub("%s/%s%05d" % (cell.engine, "" if cell.place == "main" else "p", seq))
    engines.write_files(d, {"main.nano": src})
    r = None
    if cell.engine in ("native", "eval"):
        # --verbose: without it nanoc discards what shadow blocks print
        rb, built = engines.build_native(flavor, d, san=True, verbose=(cell.engine == "eval"))
        if cell.engine == "eval":
            r = rb
            o.binary = os.path.exists(os.path.join(d, "main.bin"))
        else:
            if rb.timeout:
                o.skip = "nanoc-timeout"
            elif not built:
                o.skip = "build:" + engines.classify_nanoc_failure(rb)
                o.stderr = rb.errtext()[-1500:]
                if san_report(rb):
                    o.skip = "build:nanoc-sanitizer"
            if o.skip:
                return o
            r = sh([os.path.join(d, "main.bin")], cwd=d, cpu=10, san=True, env=NATIVE_ENV)
    elif cell.engine == "vm":
        r = engines.run_vm(flavor, d, san=True)
    elif cell.engine == "wrap":
        # stand-alone executable with the VM embedded; its generated main() must see the same VmState layout as the
        # flavor's objects, hence -DNANOLANG_VERIF
        rb = sh([flavor.nano_virt, "main.nano", "-o", "main.w"], cwd=d, cpu=60, san=True,
                env=flavor.fastcc_env({"TMPDIR": d, "NLV_FASTCC_EXTRA": "-D" + build.GUARD}))
        if rb.timeout:
            o.skip = "wrap-timeout"
        elif rb.rc != 0 or not os.path.exists(os.path.join(d, "main.w")):
            o.skip = "wrap-build-failed"
            o.stderr = rb.errtext()[-1500:]
        if o.skip:
            return o
        r = sh([os.path.join(d, "main.w")], cwd=d, cpu=10, san=True)
    else:
        rb = sh([flavor.nano_virt, "main.nano", "--emit-nvm", "-o", "main.nvm"], cwd=d, cpu=20, san=True)
        if rb.timeout:
            o.skip = "emit-timeout"
        elif rb.rc != 0 or not os.path.exists(os.path.join(d, "main.nvm")):
            o.skip = "emit-failed"
            o.stderr = rb.errtext()[-1500:]
        if o.skip:
            return o
        r = sh([flavor.nano_vm, "main.nvm"], cwd=d, cpu=10, san=True)
    o.rc, o.sig, o.timeout = r.rc, r.sig, r.timeout
    o.san = san_report(r)
    o.text = r.text()
    o.stderr = r.errtext()[-1500:]
    o.lines = o.text.split("\n")
    return o


def execute_family(flavor, sc, cells, seq):
    """env cells of one family: build once, one process per index (C08_IDX)"""
    c0 = cells[0]
    src = program(c0)[0]
    d = sc.sub("%s/b%05d" % (c0.engine, seq))
    engines.write_files(d, {"main.nano": src})
    outs = []
    skip = None
    err = ""
    if c0.engine == "native":
        rb, built = engines.build_native(flavor, d, san=True)
        if rb.timeout:
            skip = "nanoc-timeout"
        elif not built:
            skip = "build:nanoc-sanitizer" if san_report(rb) else "build:" + engines.classify_nanoc_failure(rb)
            err = rb.errtext()[-1500:]
    elif c0.engine == "nano_vm":
        rb = sh([flavor.nano_virt, "main.nano", "--emit-nvm", "-o", "main.nvm"], cwd=d, cpu=20, san=True)
        if rb.timeout:
            skip = "emit-timeout"
        elif rb.rc != 0 or not os.path.exists(os.path.join(d, "main.nvm")):
            skip = "emit-failed"
            err = rb.errtext()[-1500:]
    for c in cells:
        o = Out(c)
        o.src = src
        outs.append(o)
        if skip:
            o.skip, o.stderr = skip, err
            continue
        env = {"C08_IDX": str(c.idx)}
        for attempt in (0, 1):                         # a watchdog is re-run once before it is believed
            if c.engine == "native":
                e2 = dict(NATIVE_ENV)
                e2.update(env)
                r = sh([os.path.join(d, "main.bin")], cwd=d, cpu=10, san=True, env=e2)
            elif c.engine == "nano_vm":
                r = sh([flavor.nano_vm, "main.nvm"], cwd=d, cpu=10, san=True, env=env)
            elif c.engine == "vm":
                r = sh([flavor.nano_virt, "main.nano", "--run"], cwd=d, cpu=10, san=True, env=env)
            else:
                try:
                    os.unlink(os.path.join(d, "main.bin"))
                except OSError:
                    pass
                e2 = flavor.fastcc_env({"TMPDIR": d})
                e2.update(env)
                r = sh([flavor.nanoc, "main.nano", "-o", "main.bin", "--verbose"], cwd=d, cpu=120, san=True, env=e2)
                o.binary = os.path.exists(os.path.join(d, "main.bin"))
            if not r.timeout:
                break
        o.rc, o.sig, o.timeout = r.rc, r.sig, r.timeout
        o.san = san_report(r)
        o.text = r.text()
        o.stderr = r.errtext()[-1500:]
        o.lines = o.text.split("\n")
    return outs


def section(lines, a, b=None):
    """lines after the first exact line `a` up to (not including) the first later line `b`"""
    if a not in lines:
        return None
    k = lines.index(a) + 1
    out = []
    for l in lines[k:]:
        if b is not None and l == b:
            break
        out.append(l)
    return out


def judge(o):
    """-> (verdict, detail).  verdict for faults: 'stopped' | 'sanitizer' | 'continued' | 'value' | 'exit0' |
    'binary' (eval only: exit != 0 but a binary was written).  For controls: 'ok' | 'control-failed:<why>'."""
    c = o.cell
    _, pre, exp = program(c)
    has_value = "C08:VALUE" in o.lines
    # a fault during global initialisation must also keep main from running
    has_after = "C08:AFTER" in o.lines or (not c.control and "C08:MAIN" in o.lines)
    status0 = (o.rc == 0 and not o.sig)
    if c.control:
        if o.san:
            return "control-failed:sanitizer", o.san[:300]
        if not status0:
            return "control-failed:status", "rc=%s sig=%s" % (o.rc, o.sig)
        if not has_after or not has_value:
            return "control-failed:markers", ""
        got = [l for l in section(o.lines, "C08:VALUE", "C08:AFTER")]
        if got != exp:
            return "control-failed:value", "expected %r got %r" % (exp, got)
        if setup_ok(o) is not True:
            return "control-failed:setup", ""
        if c.place in GLOBAL_PLACES and "C08:MAIN" not in o.lines:
            return "control-failed:main-not-reached", ""
        if c.engine == "eval" and not o.binary:
            return "control-failed:no-binary", ""
        return "ok", ""
    if o.san:
        return "sanitizer", o.san[:600]
    if has_after:
        return "continued", ""
    if has_value:
        return "value", ""
    if status0:
        return "exit0", ""
    if c.engine == "eval" and o.binary:
        return "binary", ""
    return "stopped", ""


def setup_ok(o):
    """for a cell whose stdout survived: the lines before the access are as constructed (length, pre-pops, length after
    the removals / re-push, index as written).  None = cannot tell (stdout lost)."""
    c = o.cell
    if c.place == "global_direct":
        return True                        # nothing is printed before the initialisers run
    _, pre, exp = program(c)
    bl = [l for l in o.lines if l.startswith("C08:BEFORE")]
    if not bl:
        return None
    want_i = 0 if c.idx is None else c.idx
    if bl[0] != "C08:BEFORE i=%d" % want_i:
        return False
    if "C08:LEN=%d" % c.n not in o.lines:
        return False
    if (c.prerem or c.repush) and "C08:NOW=%d" % c.live_len() not in o.lines:
        return False
    got_pre = []
    for k, l in enumerate(o.lines):
        if l == "C08:PRE" and k + 1 < len(o.lines):
            got_pre.append(o.lines[k + 1])
    return got_pre == pre


def san_kind(rep):
    """short, address-free class of a sanitizer report"""
    m = re.search(r"AddressSanitizer: ([A-Za-z-]+)", rep or "")
    if m:
        return "asan-" + m.group(1)
    m = re.search(r"runtime error: (.*)", rep or "")
    if m:
        t = re.sub(r"'[^']*'", "T", m.group(1))
        t = re.sub(r"0x[0-9a-f]+|\d+", "N", t)
        return "ubsan-" + re.sub(r"[^A-Za-z]+", "-", t).strip("-")[:48]
    return "report"


# ---------------------------------------------------------------------------------------------------------
# assembler level: field / variant / tuple index >= count
# ---------------------------------------------------------------------------------------------------------
ASM_OPS = ("TUPLE_GET", "STRUCT_GET", "STRUCT_SET", "UNION_FIELD")
ASM_COUNTS = (0, 1, 2, 3, 4)


def asm_ks(count):
    ks = []
    for cls, k in (("count", count), ("count+1", count + 1), ("255", 255), ("256", 256), ("65535", 65535)):
        if k >= count and k not in [x[1] for x in ks]:
            ks.append((cls, k))
    return ks


def asm_program(op, count, k, control):
    L = ['.string "C08:BEFORE"', '.string "C08:VALUE"', '.string "C08:AFTER"', ".function main 0 1 0",
         "  PUSH_STR 0", "  PRINTLN"]
    for j in range(count):
        L.append("  PUSH_I64 %d" % (10 + j))
    if op == "TUPLE_GET":
        L.append("  TUPLE_NEW %d" % count)
    elif op == "UNION_FIELD":
        L.append("  UNION_CONSTRUCT 0 1 %d" % count)
    else:
        L.append("  STRUCT_LITERAL 0 %d" % count)
    exp = []
    if op == "STRUCT_SET":
        L += ["  PUSH_I64 77", "  STRUCT_SET %d" % k, "  PUSH_STR 1", "  PRINTLN"]
        if control:
            L += ["  STRUCT_GET %d" % k, "  PRINTLN"]
            exp = ["77"]
        else:
            L += ["  POP"]
    else:
        L += ["  %s %d" % (op, k), "  PUSH_STR 1", "  PRINTLN", "  PRINTLN"]
        if control:
            exp = [str(10 + k)]
    L += ["  PUSH_STR 2", "  PRINTLN", "  PUSH_I64 0", "  RET", ".end", ".entry 0"]
    return "\n".join(L) + "\n", exp


def asm_cells():
    cells = []
    for op in ASM_OPS:
        for count in ASM_COUNTS:
            for cls, k in asm_ks(count):
                cells.append((op, count, k, cls, False))
            for k in sorted(set([0, count - 1])) if count > 0 else []:
                cells.append((op, count, k, "ctl", True))
    return cells


def asm_execute(flavor, sc, cell, seq):
    """-> {runner: (verdict, detail, Result)} for runner in nano_vm (verifier on, the real binary) and
    probe (in-process vm_execute, verifier skipped)"""
    op, count, k, cls, control = cell
    src, exp = asm_program(op, count, k, control)
    d = sc.sub("asm/%04d" % seq)
    engines.write_files(d, {"case.nasm": src})
    out = {}
    ra = sh([flavor.probe("c08_asm_probe"), "asm", "case.nasm", "case.nvm"], cwd=d, cpu=10, san=True)
    runs = []
    if ra.rc == 0 and os.path.exists(os.path.join(d, "case.nvm")):
        runs.append(("nano_vm", sh([flavor.nano_vm, "case.nvm"], cwd=d, cpu=10, san=True)))
    else:
        out["nano_vm"] = ("skip:assemble", ra.errtext()[-300:], ra)
    runs.append(("probe", sh([flavor.probe("c08_asm_probe"), "run", "case.nasm"], cwd=d, cpu=10, san=True)))
    for runner, r in runs:
        lines = r.text().split("\n")
        rep = san_report(r)
        has_v, has_a = "C08:VALUE" in lines, "C08:AFTER" in lines
        ok0 = (r.rc == 0 and not r.sig)
        if r.timeout:
            v = ("skip:timeout", "")
        elif runner == "nano_vm" and "verification failed" in r.errtext():
            v = ("skip:verifier-refused", r.errtext()[-200:])
        elif runner == "probe" and r.rc in (4, 5):
            v = ("skip:assemble", r.errtext()[-200:])
        elif control:
            got = section(lines, "C08:VALUE", "C08:AFTER")
            if rep:
                v = ("control-failed:sanitizer", rep[:300])
            elif not ok0 or not has_a or got != exp:
                v = ("control-failed", "rc=%s sig=%s got=%r expected=%r" % (r.rc, r.sig, got, exp))
            else:
                v = ("ok", "")
        elif rep:
            v = ("sanitizer:" + san_kind(rep), rep[:600])
        elif has_a:
            v = ("continued", "")
        elif has_v:
            v = ("value", "")
        elif ok0:
            v = ("exit0", "")
        else:
            v = ("stopped", "")
        out[runner] = (v[0], v[1], r)
    return src, out


# ---------------------------------------------------------------------------------------------------------
# char_at: observed, not judged (strings are outside the property's statement; docs/STDLIB.md contradicts itself:
# "Bounds-checked - I terminate" in one place, "or 0 if the index is out of bounds" in another)
# ---------------------------------------------------------------------------------------------------------
def char_at_program(engine, n, i):
    s = "abcdefgh"[:n]
    L = ["fn t(i: int) -> int {",
         '    let s: string = "%s"' % s,
         '    (println "C08:START")',
         '    (println (+ "C08:BEFORE i=" (int_to_string i)))',
         "    let v: int = (char_at s i)",
         '    (println "C08:VALUE")',
         "    (println v)",
         '    (println "C08:AFTER")',
         "    return 0",
         "}"]
    if engine == "eval":
        L += ["shadow t {\n    (t %s)\n}" % idx_src(i), "fn main() -> int {\n    return 0\n}"]
    else:
        L += ["shadow t { assert true }", "fn main() -> int {\n    return (t %s)\n}" % idx_src(i)]
    L.append("shadow main { assert true }")
    return "\n".join(L) + "\n"


# ---------------------------------------------------------------------------------------------------------
# the check
# ---------------------------------------------------------------------------------------------------------
CLASSES = ["neg", "len", "len+1", "2^31", "2^32+k", "int64max", "int64min"]


def _with_controls(cells, chosen):
    groups = set(c.group for c in chosen)
    return chosen + [c for c in cells if c.control and c.group in groups]


def native_sample(ctx, cells):
    """quick tier, native, main placement: (1) two random lengths 1..8 per (op, kind, literal|pushed) with three index
    classes each (rotating so that every class is hit equally often); (2) EVERY (op, kind) on the empty literal that
    never held an element, three rotating classes; (3) every (op, kind) on one emptied array (by pops / by removals,
    alternating); plus the controls of the chosen families."""
    rng = ctx.rng("native-sample")
    by_group = {}
    for c in cells:
        if not c.control:
            by_group.setdefault(c.group, []).append(c)
    chosen = []
    j = 0

    def pick(grp, k):
        nonlocal j
        faults = by_group[grp]
        if grp[1] == "array_pop":
            return list(faults)
        out = []
        for t in range(k):
            cands = [c for c in faults if c.cls == CLASSES[(3 * j + t) % 7]]
            out.append(rng.choice(cands))
        j += 1
        return out

    for op in OPS:
        for kind in ALL_KINDS:
            old_kind = kind in KINDS          # the four new element kinds get a thinner sample
            for cons in CONS:
                ns = [n for n in LENGTHS if ("main", op, kind, cons, n) in by_group]
                for n in rng.sample(ns, 2 if (op != "array_pop" and old_kind) else 1):
                    chosen += pick(("main", op, kind, cons, n), 3 if old_kind else 2)
            chosen += pick(("main", op, kind, "never", 0), 3 if old_kind else 2)
            if old_kind:
                es = [g for g in by_group if g[:3] == ("main", op, kind) and g[3] in EMPTIED]
                es.sort()
                chosen += pick(es[(j + KINDS.index(kind)) % len(es)], 2)
    return _with_controls(cells, chosen)


def thin_new_kinds(cells, lengths):
    """main grid, the four new element kinds: only the given lengths (and arrays emptied after one push)"""
    return [c for c in cells if c.kind in KINDS or
            (c.group[4] in lengths if c.group[3] not in EMPTIED else c.group[4] == 1)]


def band_sample(ctx, engine, cells):
    """quick tier: per (op, kind) two whole families - one whose length is not a capacity (0,1,5,7,9,15,17: the band
    has indices strictly inside the spare part of the store) and one that fills its store (8, 16) - with rotating
    construction; every index of the chosen families is run"""
    rng = ctx.rng("band-sample", engine)
    fams = {}
    for c in cells:
        if not c.control:
            fams.setdefault(c.group, []).append(c)
    chosen = []
    j = 0
    for op in BAND_OPS:
        for kind in ALL_KINDS:
            for lens in ((0, 1, 5, 7, 9, 15, 17), (8, 16)):
                n = lens[(j + rng.randrange(len(lens))) % len(lens)]
                cons = "never" if n == 0 else CONS[j % 2]
                chosen += fams[("band", op, kind, cons, n)]
            j += 1
    return _with_controls(cells, chosen)


def place_sample(ctx, engine, cells, quick):
    """the placement grid is sampled per (place, op[, kind]) with rotating construction and index classes; thorough
    runs all of it on vm / nano_vm / native / eval (the wrapper executable costs a C link per cell and stays sampled)"""
    if not quick and engine != "wrap":
        return cells
    rng = ctx.rng("place-sample", engine)
    per_kind = engine in ("vm", "nano_vm", "eval") or not quick
    take = {"vm": 2, "nano_vm": 2, "eval": 1, "native": 2, "wrap": 1 if quick else 4}[engine]
    strata = {}
    for c in cells:
        if not c.control:
            strata.setdefault((c.place, c.op, c.kind if per_kind else None), []).append(c)
    chosen = []
    j = 0
    for key in sorted(strata, key=str):
        faults = strata[key]
        for t in range(take):
            want = CLASSES[(2 * j + 3 * t) % 7]
            cands = [c for c in faults if c.cls == want] or faults
            cons = sorted(set(c.cons for c in cands))
            cc = cons[(j + t) % len(cons)]
            chosen.append(rng.choice([c for c in cands if c.cons == cc]))
        j += 1
    return _with_controls(cells, chosen)


def describe(o):
    out = o.text
    if o.cell.engine == "eval":        # nanoc --verbose: keep the lines of the shadow block only
        out = "\n".join(l for l in o.lines if "C08:" in l or re.match(r"^(-?\d+|true|false|void|s\d|new)?$", l))
    return "rc=%s sig=%s\n--- stdout (tail)\n%s\n--- stderr (tail)\n%s" % (o.rc, o.sig, out[-500:], o.stderr[-700:])


def key_for(c, observed):
    eng = (c.engine + ("@band" if c.env else "")) if c.place == "main" else "%s@%s" % (c.engine, c.place)
    if c.engine in ("vm", "nano_vm", "wrap"):
        return "%s|%s|%s|%s" % (eng, c.op, c.cls, observed)
    if c.engine == "native":
        # the never-pushed / emptied arrays go through other runtime paths than arrays that hold elements
        extra = "" if c.cons in CONS else ":" + c.cons
        return "%s|%s|%s%s|%s|%s" % (eng, c.op, c.kind, extra, c.cls, observed)
    return "%s|%s|%s|%s|%s" % (eng, c.op, c.cons, c.cls, observed)


ENGINE_TEXT = {"wrap": "the stand-alone executable from nano_virt -o (embedded VM)", "vm": "nano_virt --run", "nano_vm": "nano_vm on the .nvm emitted by nano_virt", "native": "the compiled binary",
               "eval": "nanoc's evaluator (shadow block)"}
OBS_TEXT = {"continued": "the program keeps running (the statements after the access print, C08:AFTER is reached)",
            "value": "the access yields a value the program goes on to use (C08:VALUE printed)",
            "exit0": "the run ends with exit status 0", "binary": "nanoc fails but still writes a binary"}


def run(ctx):
    asan = build.get("asan")
    ctx.require(os.path.exists(asan.probe("c08_asm_probe")), "probe c08_asm_probe missing from the asan flavor")
    with Scratch("c08") as sc:
        # plan keys: "<engine>" = main placement (the design's grid), "<engine>@place" = the placement grid
        plan = {}
        full = {}
        for eng in ENGINES:
            cells = grid(eng)
            full[eng] = cells
            if eng == "native" and ctx.quick():
                cells = native_sample(ctx, cells)
            elif ctx.quick():
                cells = thin_new_kinds(cells, (0, 1, 5, 8))
            elif eng == "native":
                cells = thin_new_kinds(cells, (0, 1, 2, 5, 8))
            plan[eng] = cells
        for eng in PLACE_ENGINES:
            cells = place_grid(eng)
            full[eng + "@place"] = cells
            plan[eng + "@place"] = place_sample(ctx, eng, cells, ctx.quick())
        for eng in ENGINES:
            cells = band_grid(eng)
            full[eng + "@band"] = cells
            plan[eng + "@band"] = band_sample(ctx, eng, cells) if ctx.quick() else cells
        PK = list(plan)
        uniq = {}
        for pk in PK:
            for c in plan[pk]:
                uniq.setdefault(c.ident(), c)

        jobs = [(c, k) for k, c in enumerate(uniq.values()) if not c.env]
        fams = {}
        for c in uniq.values():
            if c.env:
                fams.setdefault(fam_key(c), []).append(c)
        jobs += [(fc, k) for k, fc in enumerate(fams.values())]
        # expensive engines first so that the pool drains evenly
        order = {"native": 0, "eval": 1, "wrap": 2, "nano_vm": 3, "vm": 4}
        jobs.sort(key=lambda t: (order[(t[0][0] if isinstance(t[0], list) else t[0]).engine], not isinstance(t[0], list)))

        def do(job):
            c, k = job
            if isinstance(c, list):
                return execute_family(asan, sc, c, k)
            o = execute(asan, sc, c, k)
            if o.timeout or (o.skip or "").endswith("timeout"):
                o = execute(asan, sc, c, k)          # a watchdog is re-run once before it is believed
            return [o]

        results = {}
        n_proc_cells = 0
        for outs in pmap(do, jobs):
            for o in outs:
                results[o.cell.ident()] = o
                n_proc_cells += 1

        hist = {}
        nonstop = {}              # every cell that was not stopped, by violation key (known or not)
        ctl_hist = {}
        skipped = {}
        evaluated = {e: 0 for e in PK}
        executed = {e: 0 for e in PK}
        distinct = set()
        controls_ok = {e: 0 for e in PK}
        controls_all = {e: 0 for e in PK}
        place_hist = {}
        timeouts = 0
        samples = []
        # controls
        ctl_verdict = {}
        for pk in PK:
            seen = set()
            for c in plan[pk]:
                ident = c.ident()
                if not c.control or ident in seen:
                    continue
                seen.add(ident)
                o = results[ident]
                controls_all[pk] += 1
                if o.skip:
                    v = "skip:" + o.skip
                elif o.timeout:
                    v = "skip:timeout"
                    timeouts += 1
                else:
                    v = judge(o)[0]
                ctl_verdict[ident] = v
                if v == "ok":
                    controls_ok[pk] += 1
                hk = "%s|%s|%s|%s|%s" % (c.name().split("|")[0], c.op, c.kind, c.cons, v)
                ctl_hist[hk] = ctl_hist.get(hk, 0) + 1
        # faults
        for pk in PK:
            cells = plan[pk]
            groups = {}
            for c in cells:
                if c.control:
                    groups.setdefault(c.group, []).append(c.ident())
            seen = set()
            for c in cells:
                if c.control or c.ident() in seen:
                    continue
                seen.add(c.ident())
                executed[pk] += 1
                eng = c.engine
                tag = c.name().split("|")[0]
                o = results[c.ident()]
                cids = list(dict.fromkeys(groups.get(c.group, [])))
                cv = [ctl_verdict[i] for i in cids]
                # per placement of the controls (the cell's own + the value-checked twins in the main placement): all
                # must pass; the empty literal has no index in range: one of the one-element arrays has to behave
                vouched = bool(cv)
                for pl in set(i[1] for i in cids):
                    sub = [ctl_verdict[i] for i in cids if i[1] == pl]
                    vouched = vouched and (any(v == "ok" for v in sub) if c.cons == "never" else all(v == "ok" for v in sub))
                reason = None
                if o.skip:
                    reason = o.skip
                    if reason.endswith("timeout"):
                        timeouts += 1
                elif o.timeout:
                    reason = "timeout"
                    timeouts += 1
                elif not vouched:
                    bad = [v for v in cv if v != "ok"]
                    reason = "control:" + (bad[0] if bad else "none")
                elif setup_ok(o) is False:
                    reason = "setup-differs"
                if reason:
                    sk = "%s|%s|%s|%s|%s" % (tag, c.op, c.kind, c.cons, reason)
                    skipped[sk] = skipped.get(sk, 0) + 1
                    continue
                verdict, detail = judge(o)
                if verdict == "sanitizer":
                    verdict = "sanitizer:" + san_kind(o.san)
                evaluated[pk] += 1
                distinct.add(c.ident())
                hk = "%s|%s|%s|%s" % (tag, c.op, c.cls, verdict)
                hist[hk] = hist.get(hk, 0) + 1
                if c.place != "main" or c.engine == "wrap" or c.env:
                    ph = "%s|%s" % (tag, verdict)
                    place_hist[ph] = place_hist.get(ph, 0) + 1
                if verdict == "stopped":
                    if len(samples) < 10 and (len(samples) < 3 or tag not in [x["engine"] for x in samples]):
                        samples.append({"engine": tag, "cell": c.name(), "rc": o.rc, "signal": o.sig,
                                        "stderr_tail": o.stderr.strip()[-160:]})
                    continue
                what = ("%s: `%s` on an array<%s> (%s, length %d at the access, access placed: %s) with %s is not stopped: %s\n"
                        "cell %s, index class %s\n%s" % (
                            ENGINE_TEXT[eng], c.op, TYPE[c.kind], c.cons, c.live_len(), c.place,
                            "no element left" if c.idx is None else "index %d" % c.idx,
                            OBS_TEXT.get(verdict, "sanitizer report: " + (o.san or "")[:300]),
                            c.name(), c.cls, describe(o)))
                files = {"main.nano": o.src, "stdout.txt": o.text, "stderr.txt": o.stderr,
                         "cmd.txt": {"vm": "nano_virt main.nano --run", "nano_vm": "nano_virt main.nano --emit-nvm -o main.nvm && nano_vm main.nvm",
                                     "wrap": "nano_virt main.nano -o main.w && ./main.w   # NANO_CC=tools/fastcc, -DNANOLANG_VERIF",
                                     "native": "nanoc main.nano -o main.bin && ./main.bin   # asan flavor, NANO_CC=tools/fastcc",
                                     "eval": "nanoc main.nano -o main.bin --verbose   # must fail and write no binary"}[eng] + "\n"}
                key = key_for(c, verdict)
                nonstop[key] = nonstop.get(key, 0) + 1
                ctx.violation(key, what, files)

        # ---- assembler level ----------------------------------------------------------------------
        acells = asm_cells()
        asm_hist = {}
        asm_ctl = {}
        asm_eval = 0
        asm_res = pmap(lambda t: (t[1], asm_execute(asan, sc, t[1], t[0])), list(enumerate(acells)))
        for (op, count, k, cls, control), (src, out) in asm_res:
            if control:
                for runner, (v, d, r) in out.items():
                    asm_ctl[(runner, op, count)] = asm_ctl.get((runner, op, count), True) and v == "ok"
        verifier_note = set()
        for (op, count, k, cls, control), (src, out) in asm_res:
            if control:
                continue
            for runner, (v, d, r) in out.items():
                vouch = asm_ctl.get((runner, op, count if count > 0 else 1), False)
                if v.startswith("skip:") or not vouch:
                    hk = "asm|%s|%s|%s" % (runner, op, v if v.startswith("skip:") else "skip:control")
                    skipped[hk] = skipped.get(hk, 0) + 1
                    if v == "skip:verifier-refused":
                        verifier_note.add(op)
                    continue
                asm_eval += 1
                distinct.add(("asm", runner, op, count, k))
                hk = "asm|%s|%s|%s|%s" % (runner, op, cls, v)
                asm_hist[hk] = asm_hist.get(hk, 0) + 1
                if v != "stopped":
                    nonstop["asm|%s|%s|%s|%s" % (runner, op, cls, v)] = nonstop.get("asm|%s|%s|%s|%s" % (runner, op, cls, v), 0) + 1
                    ctx.violation("asm|%s|%s|%s|%s" % (runner, op, cls, v),
                                  "%s %d on an object with %d field(s) is not stopped (%s, %s): %s\nrc=%s sig=%s\n%s\n%s" % (
                                      op, k, count, runner, "verifier skipped" if runner == "probe" else "verifier on", v,
                                      r.rc, r.sig, r.text()[-300:], r.errtext()[-500:]),
                                  {"case.nasm": src, "cmd.txt": "c08_asm_probe asm case.nasm case.nvm && nano_vm case.nvm\nc08_asm_probe run case.nasm\n"})

        # ---- char_at: observed only -----------------------------------------------------------------
        ca_jobs = []
        for eng in ("native", "vm", "eval"):
            for n in (0, 1, 3):
                for cls, i in oob_indices(n):
                    if cls == "2^32+k" and i != (1 << 32):
                        continue
                    ca_jobs.append((eng, n, cls, i))
        if ctx.quick():
            ca_jobs = [j for j in ca_jobs if j[0] != "native" or j[1] == 3]

        def do_ca(t):
            k, (eng, n, cls, i) = t
            d = sc.sub("char_at/%03d" % k)
            engines.write_files(d, {"main.nano": char_at_program(eng, n, i)})
            if eng == "vm":
                r = engines.run_vm(asan, d, san=True)
            else:
                rb, built = engines.build_native(asan, d, san=True, verbose=(eng == "eval"))
                if eng == "eval":
                    r = rb
                elif not built:
                    return (eng, cls, "not-built")
                else:
                    r = sh([os.path.join(d, "main.bin")], cwd=d, cpu=10, san=True, env=NATIVE_ENV)
            lines = r.text().split("\n")
            rep = san_report(r)
            if rep:
                return (eng, cls, "sanitizer:" + san_kind(rep))
            if "C08:AFTER" in lines:
                val = section(lines, "C08:VALUE", "C08:AFTER")
                return (eng, cls, "continued value=%s exit=%s" % ("/".join(val or []), r.status))
            return (eng, cls, "stopped exit=%s" % r.status)

        ca_hist = {}
        for eng, cls, v in pmap(do_ca, list(enumerate(ca_jobs))):
            ca_hist["%s|%s" % (eng, v)] = ca_hist.get("%s|%s" % (eng, v), 0) + 1
            if v.startswith("sanitizer"):
                ctx.note("char_at out of range (%s, %s): %s - outside C08's statement, recorded only" % (eng, cls, v))

        # ---- implicit accesses: for-in / map / filter / reduce over a shrinking array, array_slice bounds -----------
        import sys as _sys
        from . import c08_implicit
        imp = c08_implicit.run_all(_sys.modules[__name__], ctx, asan, sc, pmap)
        timeouts += imp["timeouts"]
        distinct |= set(("implicit",) + d for d in imp["distinct"])
        nonstop.update(imp["not_stopped_by_key"])

        n_proc = n_proc_cells + 2 * len(acells) + len(ca_jobs) + imp["processes"]
        if not ctx.violations:
            ctx.require(timeouts == 0, "%d cell(s) hit the watchdog twice" % timeouts)
            for pk, lo in (("vm", 0.9), ("nano_vm", 0.9), ("eval", 0.4), ("native", 0.5),
                           ("vm@place", 0.8), ("nano_vm@place", 0.8), ("wrap@place", 0.6),
                           ("vm@band", 0.8), ("nano_vm@band", 0.8), ("native@band", 0.6)):
                ctx.require(evaluated[pk] >= lo * executed[pk],
                            "%s: only %d of %d fault cells could be evaluated (controls failed / not built)" % (pk, evaluated[pk], executed[pk]))
            for place in GLOBAL_PLACES:
                for e in ("vm", "nano_vm", "wrap"):
                    ctx.require(place_hist.get("%s@%s|stopped" % (e, place), 0) >= 3,
                                "fewer than 3 cells evaluated for %s with the access in placement %s" % (e, place))
            ctx.require(asm_eval >= 100, "too few assembler-level cells evaluated (%d)" % asm_eval)
            for e in ("native", "vm", "nano_vm"):
                ctx.require(imp["evaluated"][e] >= 150, "implicit-access family: only %d cells evaluated on %s" % (imp["evaluated"][e], e))
        grid_sizes = {e: sum(1 for c in {c.ident(): c for c in full[e]}.values() if not c.control) for e in full}
        return ctx.finish({
            "evaluations": n_proc,
            "distinct_nontrivial": len(distinct),
            "rule": "distinct (engine, placement, op, element kind, construction, length, pre-pops/removals, index) out-of-range cells that "
                    "were executed (one process each) AND whose in-range controls of the same (engine, placement, op, kind, construction, "
                    "length) printed the expected value + AFTER and exited 0, plus distinct (runner, opcode, field count, k) assembler cells "
                    "whose control passed",
            "exhaustive": True,
            "explanation": ("main grid = lengths 0..8 x indices {-1, len, len+1, 2^31, 2^32+k for every k<len (2^32 for len 0), 2^63-1, -2^63} x "
                            "{at, array_set, array_remove_at} x {int,string,bool,struct} x construction {literal, built by array_push, typed empty "
                            "literal never pushed (length 0), pushed 1|3 then emptied by pops, pushed 1|3 then emptied by removals}, plus "
                            "array_pop on an array of every length 0..8 emptied by in-range pops / removals; enumerated completely on " +
                            ("vm, nano_vm and the evaluator; native is a stratified sample of %d fault cells that contains every (op, kind) on the "
                             "never-pushed empty literal" % executed["native"]
                             if ctx.quick() else "all four engines") +
                            ".  placement grid (access in: nested call chain, loop body, match arm, call argument, cond branch, function called "
                            "from a global initialiser, global initialiser itself; + main for the wrapper executable) x ops x kinds x "
                            "{literal 3, pushed 3, never pushed} x all index classes: " +
                            ("sampled per (placement, op, kind) with rotating construction / index class" if ctx.quick()
                             else "complete on vm, nano_vm, native, evaluator (no global placements: shadow tests do not run initialisers); "
                                  "the wrapper executable (one C link per cell) is sampled, 4 cells per (placement, op, kind)") +
                            ".  r2 additions: element kinds float, u8, nested array, enum constant in the main grid (" +
                            ("lengths 0,1,5,8 in this tier" if ctx.quick() else "all lengths; natively 0,1,2,5,8") +
                            "); placements discard / discard_arg / helper_void / helper_discard (+ op array_get) and enum-typed "
                            "index; capacity band = lengths 0,1,5,7,8,9,15,16,17 x every index in [length, next capacity + 1] "
                            "(full stores: up to twice the capacity + 1) x {at, array_get, array_set, array_remove_at} x 8 kinds x "
                            "{literal, pushed}, " + ("two whole families per (op, kind) and engine" if ctx.quick() else "complete on all four engines") +
                            ".  assembler level = {TUPLE_GET, STRUCT_GET, STRUCT_SET, UNION_FIELD} x field counts 0..4 x k in {count, count+1, 255, 256, 65535}"),
            "grid_fault_cells": grid_sizes,
            "fault_cells_executed": executed,
            "fault_cells_evaluated": evaluated,
            "controls": {e: "%d/%d passed" % (controls_ok[e], controls_all[e]) for e in PK},
            "placement_outcomes": dict(sorted(place_hist.items())),
            "outcomes": dict(sorted(hist.items())),
            "not_stopped_by_key": dict(sorted(nonstop.items())),
            "control_outcomes": dict(sorted((k, v) for k, v in ctl_hist.items() if not k.endswith("|ok"))),
            "skipped": dict(sorted(skipped.items())),
            "asm_cells_evaluated": asm_eval,
            "asm_outcomes": dict(sorted(asm_hist.items())),
            "asm_verifier": "nano_vm runs nvm_verify before executing (accepted every case except: %s); the probe runner skips it" % (sorted(verifier_note) or "none"),
            "char_at_observed_only": dict(sorted(ca_hist.items())),
            "implicit_access": {k: v for k, v in imp.items() if k not in ("distinct", "not_stopped_by_key")},
            "samples": samples,
        }, assumptions=[
            "a run-time error is observed as: no C08:VALUE / C08:AFTER line, exit status != 0 or death by signal, no ASan/UBSan report; "
            "C08:BEFORE is not required because abort() loses buffered stdout",
            "the native engine is nanoc (asan flavor) + tools/fastcc with -fsanitize=address,undefined; SIGABRT from the runtime's assert() "
            "is left as a signal (handle_abort=0) and counts as stopping",
            "the evaluator is observed through nanoc --verbose (shadow output is discarded otherwise); 'no binary' = main.bin does not exist",
            "cells whose in-range control does not behave on an engine (e.g. array literals of structs do not compile natively, the evaluator "
            "cannot pop/remove from literal arrays or array_set pushed ones: census / C03 findings) are skipped and counted, not judged",
            "the wrapper executable (nano_virt -o) is linked through tools/fastcc with the flavor's sanitizer flags and -DNANOLANG_VERIF "
            "(its generated main() must see the flavor's VmState layout)",
            "global placements: a fault while the global initialisers run must also keep main from running (a C08:MAIN line counts like "
            "C08:AFTER); natively a global initialiser that calls a function may not compile (census global_fn_init): skipped and counted",
            "capacity-band cells take the index from the environment (getenv + string_to_int) so that one compiled program serves a "
            "family; each index still runs in its own process",
            "array<Enum> cannot be read back (the type checker treats its elements as structs), so the enum element kind stores enum "
            "constants in array<int>; arrays of enum-typed indices are covered by the enum_index placement",
            "implicit accesses (for x in a, map/filter/reduce, array_slice): reference = the semantics stated in src/eval.c and shared by the "
            "three engines (length taken once, every element read bounds-checked at its turn; array_slice clamps); a loop that ends early "
            "without reading out of range is recorded as 'ended-early', not as a violation; string iteration has no array-indexing "
            "builtin beyond char_at (observed only)",
            "char_at is outside the statement of C08 (strings) and docs/STDLIB.md contradicts itself; it is recorded, not judged",
        ])
