"""C08 - out-of-range operations stop the program and never yield a value (DESIGN §4 C08).

E: a run in which an array access outside [0,len), a pop of an empty array or a non-existent tuple/struct/union
   field is followed by any later output marker, or ends with exit status 0, or produces an ASan/UBSan report.
O: one access per process.  Every test program prints `C08:BEFORE i=<index>`, performs the access with the index
   received through a function parameter, prints `C08:VALUE` + the value (or the length for writes) and
   `C08:AFTER`.  Required for an out-of-range cell: `C08:VALUE` and `C08:AFTER` absent, exit status != 0 (a signal
   counts), no sanitizer report.  `C08:BEFORE` is not required (abort() loses buffered stdout).  In-range controls
   of the same (engine, op, kind, construction, length) must print value + AFTER and exit 0, else the cells that
   depend on them are skipped and counted (guards against vacuity).
Engines: native (asan nanoc + fastcc with ASan/UBSan), vm (asan nano_virt --run), nano_vm (asan nano_vm on the .nvm
   emitted by nano_virt), eval (the access inside a shadow block: asan nanoc must exit != 0 and write no binary).
Assembler level: TUPLE_GET / STRUCT_GET / STRUCT_SET / UNION_FIELD k with k >= count through probes/c08_asm_probe.c
   (repo's asm_assemble) into the real nano_vm (verifier on) and in-process with the verifier skipped.
"""
import os
import re

from .. import build, engines
from ..run import run as sh, pmap, Scratch, ASAN_ENV

LEVEL = "fault_enumeration"

KINDS = ("int", "string", "bool", "struct")
CONS = ("literal", "pushed")
OPS = ("at", "array_set", "array_remove_at", "array_pop")
ENGINES = ("native", "vm", "nano_vm", "eval")
LENGTHS = tuple(range(0, 9))
I64MAX = (1 << 63) - 1
I64MIN = -(1 << 63)

TYPE = {"int": "int", "string": "string", "bool": "bool", "struct": "P"}


# ---------------------------------------------------------------------------------------------------------
# the grid
# ---------------------------------------------------------------------------------------------------------
class Cell:
    """one access = one process.  n = elements constructed; prepops = pops done (in range) before the access;
    idx = index used by the access (None for array_pop); cls = index class; control = the access is in range."""
    __slots__ = ("engine", "op", "kind", "cons", "n", "idx", "cls", "prepops", "control", "group")

    def __init__(self, engine, op, kind, cons, n, idx, cls, prepops=0, control=False, group=None):
        self.engine, self.op, self.kind, self.cons, self.n = engine, op, kind, cons, n
        self.idx, self.cls, self.prepops, self.control = idx, cls, prepops, control
        # group = the (op, kind, cons, length at the moment of the access) whose controls vouch for this cell
        self.group = group

    def ident(self):
        return (self.engine, self.op, self.kind, self.cons, self.n, self.prepops, self.idx)

    def name(self):
        return "%s|%s|%s|%s|n=%d%s|i=%s" % (self.engine, self.op, self.kind, self.cons, self.n,
                                              ("-%dpops" % self.prepops) if self.prepops else "",
                                              "-" if self.idx is None else self.idx)

    def live_len(self):
        return self.n - self.prepops


def oob_indices(n):
    """(class, index) for an array of length n - the grid of the design"""
    out = [("neg", -1), ("len", n), ("len+1", n + 1), ("2^31", 1 << 31)]
    for k in range(max(n, 1)):            # n == 0: 2^32 itself
        out.append(("2^32+k", (1 << 32) + k))
    out += [("int64max", I64MAX), ("int64min", I64MIN)]
    return out


def grid(engine):
    """all cells (faults + controls) of one engine"""
    cells = []
    for op in OPS:
        for kind in KINDS:
            for cons in CONS:
                for n in LENGTHS:
                    if n == 0 and cons == "pushed":
                        continue                      # zero pushes is the literal []
                    grp = (op, kind, cons, n)
                    if op == "array_pop":
                        # n elements, popped n times (each pop in range), then the pop on the empty array
                        cells.append(Cell(engine, op, kind, cons, n, None, "empty", prepops=n, group=grp))
                        # control: n+1 elements, n pops, the access pops the last one
                        ccons = "pushed" if n == 0 else cons
                        cells.append(Cell(engine, op, kind, ccons, n + 1, None, "ctl", prepops=n, control=True, group=grp))
                        continue
                    for cls, i in oob_indices(n):
                        cells.append(Cell(engine, op, kind, cons, n, i, cls, group=grp))
                    if n == 0:
                        # controls for the empty array (no index is in range): the one-element arrays of both
                        # constructions, index 0; one of them has to behave
                        for cc in CONS:
                            cells.append(Cell(engine, op, kind, cc, 1, 0, "ctl", control=True, group=grp))
                    else:
                        for i in sorted(set([0, n - 1])):
                            cells.append(Cell(engine, op, kind, cons, n, i, "ctl", control=True, group=grp))
    return cells


# ---------------------------------------------------------------------------------------------------------
# programs
# ---------------------------------------------------------------------------------------------------------
def elem_src(kind, j):
    if kind == "int":
        return str(10 + j)
    if kind == "string":
        return '"s%d"' % j
    if kind == "bool":
        return "true" if j % 2 == 0 else "false"
    return "P { x: %d, y: %d }" % (10 + j, 100 + j)


def elem_out(kind, j):
    if kind == "int" or kind == "struct":
        return str(10 + j)
    if kind == "string":
        return "s%d" % j
    return "true" if j % 2 == 0 else "false"


def new_src(kind, i):
    if kind == "int":
        return "77"
    if kind == "string":
        return '"new"'
    if kind == "bool":
        return "false" if (i is not None and i >= 0 and i % 2 == 0) else "true"
    return "P { x: 77, y: 78 }"


def new_out(kind, i):
    if kind == "int" or kind == "struct":
        return "77"
    if kind == "string":
        return "new"
    return "false" if (i is not None and i >= 0 and i % 2 == 0) else "true"


def val_expr(kind, v):
    return v + ".x" if kind == "struct" else v


def idx_src(i):
    if i == I64MIN:
        return "(- -9223372036854775807 1)"
    return str(i)


def program(cell):
    """source text + the lines a control must print between C08:VALUE and C08:AFTER"""
    T = TYPE[cell.kind]
    k = cell.kind
    L = []
    if k == "struct":
        L.append("struct P { x: int, y: int }\n")
    L.append("fn t(i: int) -> int {")
    if cell.cons == "literal":
        L.append("    let mut a: array<%s> = [%s]" % (T, ", ".join(elem_src(k, j) for j in range(cell.n))))
    else:
        L.append("    let mut a: array<%s> = []" % T)
        for j in range(cell.n):
            L.append("    set a (array_push a %s)" % elem_src(k, j))
    L.append('    (println "C08:START")')       # nanoc --verbose prefixes the first line with "Testing t... "
    L.append('    (println (+ "C08:LEN=" (int_to_string (array_length a))))')
    pre = []
    for p in range(cell.prepops):
        L.append("    let p%d: %s = (array_pop a)" % (p, T))
        L.append('    (println "C08:PRE")')
        L.append("    (println %s)" % val_expr(k, "p%d" % p))
        pre.append(elem_out(k, cell.n - 1 - p))
    L.append('    (println (+ "C08:BEFORE i=" (int_to_string i)))')
    exp = []
    n = cell.live_len()
    i = cell.idx
    if cell.op == "at":
        L.append("    let v: %s = (at a i)" % T)
        L.append('    (println "C08:VALUE")')
        L.append("    (println %s)" % val_expr(k, "v"))
        if cell.control:
            exp = [elem_out(k, i)]
    elif cell.op == "array_set":
        L.append("    (array_set a i %s)" % new_src(k, i))
        L.append('    (println "C08:VALUE")')
        L.append("    (println (array_length a))")
        if cell.control:
            L.append("    let w: %s = (at a i)" % T)
            L.append("    (println %s)" % val_expr(k, "w"))
            exp = [str(n), new_out(k, i)]
    elif cell.op == "array_remove_at":
        L.append("    (array_remove_at a i)")
        L.append('    (println "C08:VALUE")')
        L.append("    (println (array_length a))")
        if cell.control:
            exp = [str(n - 1)]
            if n - 1 > 0:
                L.append("    let w: %s = (at a 0)" % T)
                L.append("    (println %s)" % val_expr(k, "w"))
                exp.append(elem_out(k, 1 if i == 0 else 0))
    else:
        L.append("    let v: %s = (array_pop a)" % T)
        L.append('    (println "C08:VALUE")')
        L.append("    (println %s)" % val_expr(k, "v"))
        if cell.control:
            exp = [elem_out(k, cell.n - 1 - cell.prepops)]
    L.append('    (println "C08:AFTER")')
    L.append("    return 0")
    L.append("}")
    arg = "0" if i is None else idx_src(i)
    if cell.engine == "eval":
        L.append("shadow t {\n    (t %s)\n}" % arg)
        L.append("fn main() -> int {\n    return 0\n}")
    else:
        L.append("shadow t { assert true }")
        L.append("fn main() -> int {\n    return (t %s)\n}" % arg)
    L.append("shadow main { assert true }")
    return "\n".join(L) + "\n", pre, exp


# ---------------------------------------------------------------------------------------------------------
# running one cell
# ---------------------------------------------------------------------------------------------------------
# the VM's own diagnostics start with "runtime error:" - a UBSan report is "<file>:<line>:<col>: runtime error:"
SAN_RE = re.compile(r"(ERROR: AddressSanitizer|ERROR: LeakSanitizer|\S+:\d+:\d+: runtime error:|AddressSanitizer:DEADLYSIGNAL|"
                    r"ERROR: UndefinedBehaviorSanitizer|==\d+==\s*AddressSanitizer|AddressSanitizer: )")


def san_report(r):
    t = r.errtext()
    m = SAN_RE.search(t)
    return t[m.start():m.start() + 3000] if m else None


# the native runtime reports an index error through assert() -> abort(): with handle_abort=1 ASan would dress the
# SIGABRT up as an "AddressSanitizer: ABRT" report; here the process is simply left to die from the signal
NATIVE_ENV = {"ASAN_OPTIONS": ASAN_ENV["ASAN_OPTIONS"].replace("handle_abort=1", "handle_abort=0")}


class Out:
    __slots__ = ("cell", "lines", "rc", "sig", "san", "timeout", "skip", "stderr", "binary", "text", "src")

    def __init__(self, cell):
        self.cell = cell
        self.lines = []
        self.rc = self.sig = None
        self.san = None
        self.timeout = False
        self.skip = None          # reason the cell could not be executed on this engine
        self.stderr = ""
        self.binary = None        # eval: did nanoc leave a binary
        self.text = ""
        self.src = ""


def execute(flavor, sc, cell, seq):
    src, pre, exp = program(cell)
    o = Out(cell)
    o.src = src
    d = sc.sub("%s/%05d" % (cell.engine, seq))
    engines.write_files(d, {"main.nano": src})
    r = None
    if cell.engine in ("native", "eval"):
        # --verbose: without it nanoc discards what shadow blocks print
        rb, built = engines.build_native(flavor, d, san=True, verbose=(cell.engine == "eval"))
        if cell.engine == "eval":
            r = rb
            o.binary = os.path.exists(os.path.join(d, "main.bin"))
        else:
            if rb.timeout:
                o.skip = "nanoc-timeout"
            elif not built:
                o.skip = "build:" + engines.classify_nanoc_failure(rb)
                o.stderr = rb.errtext()[-1500:]
                if san_report(rb):
                    o.skip = "build:nanoc-sanitizer"
            if o.skip:
                return o
            r = sh([os.path.join(d, "main.bin")], cwd=d, cpu=10, san=True, env=NATIVE_ENV)
    elif cell.engine == "vm":
        r = engines.run_vm(flavor, d, san=True)
    else:
        rb = sh([flavor.nano_virt, "main.nano", "--emit-nvm", "-o", "main.nvm"], cwd=d, cpu=20, san=True)
        if rb.timeout:
            o.skip = "emit-timeout"
        elif rb.rc != 0 or not os.path.exists(os.path.join(d, "main.nvm")):
            o.skip = "emit-failed"
            o.stderr = rb.errtext()[-1500:]
        if o.skip:
            return o
        r = sh([flavor.nano_vm, "main.nvm"], cwd=d, cpu=10, san=True)
    o.rc, o.sig, o.timeout = r.rc, r.sig, r.timeout
    o.san = san_report(r)
    o.text = r.text()
    o.stderr = r.errtext()[-1500:]
    o.lines = o.text.split("\n")
    return o


def section(lines, a, b=None):
    """lines after the first exact line `a` up to (not including) the first later line `b`"""
    if a not in lines:
        return None
    k = lines.index(a) + 1
    out = []
    for l in lines[k:]:
        if b is not None and l == b:
            break
        out.append(l)
    return out


def judge(o):
    """-> (verdict, detail).  verdict for faults: 'stopped' | 'sanitizer' | 'continued' | 'value' | 'exit0' |
    'binary' (eval only: exit != 0 but a binary was written).  For controls: 'ok' | 'control-failed:<why>'."""
    c = o.cell
    _, pre, exp = program(c)
    has_value = "C08:VALUE" in o.lines
    has_after = "C08:AFTER" in o.lines
    status0 = (o.rc == 0 and not o.sig)
    if c.control:
        if o.san:
            return "control-failed:sanitizer", o.san[:300]
        if not status0:
            return "control-failed:status", "rc=%s sig=%s" % (o.rc, o.sig)
        if not has_after or not has_value:
            return "control-failed:markers", ""
        got = [l for l in section(o.lines, "C08:VALUE", "C08:AFTER")]
        if got != exp:
            return "control-failed:value", "expected %r got %r" % (exp, got)
        if setup_ok(o) is not True:
            return "control-failed:setup", ""
        if c.engine == "eval" and not o.binary:
            return "control-failed:no-binary", ""
        return "ok", ""
    if o.san:
        return "sanitizer", o.san[:600]
    if has_after:
        return "continued", ""
    if has_value:
        return "value", ""
    if status0:
        return "exit0", ""
    if c.engine == "eval" and o.binary:
        return "binary", ""
    return "stopped", ""


def setup_ok(o):
    """for a fault cell whose stdout survived: the lines before the access are as constructed (length, pre-pops,
    index as written).  None = cannot tell (stdout lost)."""
    c = o.cell
    _, pre, exp = program(c)
    bl = [l for l in o.lines if l.startswith("C08:BEFORE")]
    if not bl:
        return None
    want_i = 0 if c.idx is None else c.idx
    if bl[0] != "C08:BEFORE i=%d" % want_i:
        return False
    if "C08:LEN=%d" % c.n not in o.lines:
        return False
    got_pre = []
    for k, l in enumerate(o.lines):
        if l == "C08:PRE" and k + 1 < len(o.lines):
            got_pre.append(o.lines[k + 1])
    return got_pre == pre


def san_kind(rep):
    """short, address-free class of a sanitizer report"""
    m = re.search(r"AddressSanitizer: ([A-Za-z-]+)", rep or "")
    if m:
        return "asan-" + m.group(1)
    m = re.search(r"runtime error: (.*)", rep or "")
    if m:
        t = re.sub(r"'[^']*'", "T", m.group(1))
        t = re.sub(r"0x[0-9a-f]+|\d+", "N", t)
        return "ubsan-" + re.sub(r"[^A-Za-z]+", "-", t).strip("-")[:48]
    return "report"


# ---------------------------------------------------------------------------------------------------------
# assembler level: field / variant / tuple index >= count
# ---------------------------------------------------------------------------------------------------------
ASM_OPS = ("TUPLE_GET", "STRUCT_GET", "STRUCT_SET", "UNION_FIELD")
ASM_COUNTS = (0, 1, 2, 3, 4)


def asm_ks(count):
    ks = []
    for cls, k in (("count", count), ("count+1", count + 1), ("255", 255), ("256", 256), ("65535", 65535)):
        if k >= count and k not in [x[1] for x in ks]:
            ks.append((cls, k))
    return ks


def asm_program(op, count, k, control):
    L = ['.string "C08:BEFORE"', '.string "C08:VALUE"', '.string "C08:AFTER"', ".function main 0 1 0",
         "  PUSH_STR 0", "  PRINTLN"]
    for j in range(count):
        L.append("  PUSH_I64 %d" % (10 + j))
    if op == "TUPLE_GET":
        L.append("  TUPLE_NEW %d" % count)
    elif op == "UNION_FIELD":
        L.append("  UNION_CONSTRUCT 0 1 %d" % count)
    else:
        L.append("  STRUCT_LITERAL 0 %d" % count)
    exp = []
    if op == "STRUCT_SET":
        L += ["  PUSH_I64 77", "  STRUCT_SET %d" % k, "  PUSH_STR 1", "  PRINTLN"]
        if control:
            L += ["  STRUCT_GET %d" % k, "  PRINTLN"]
            exp = ["77"]
        else:
            L += ["  POP"]
    else:
        L += ["  %s %d" % (op, k), "  PUSH_STR 1", "  PRINTLN", "  PRINTLN"]
        if control:
            exp = [str(10 + k)]
    L += ["  PUSH_STR 2", "  PRINTLN", "  PUSH_I64 0", "  RET", ".end", ".entry 0"]
    return "\n".join(L) + "\n", exp


def asm_cells():
    cells = []
    for op in ASM_OPS:
        for count in ASM_COUNTS:
            for cls, k in asm_ks(count):
                cells.append((op, count, k, cls, False))
            for k in sorted(set([0, count - 1])) if count > 0 else []:
                cells.append((op, count, k, "ctl", True))
    return cells


def asm_execute(flavor, sc, cell, seq):
    """-> {runner: (verdict, detail, Result)} for runner in nano_vm (verifier on, the real binary) and
    probe (in-process vm_execute, verifier skipped)"""
    op, count, k, cls, control = cell
    src, exp = asm_program(op, count, k, control)
    d = sc.sub("asm/%04d" % seq)
    engines.write_files(d, {"case.nasm": src})
    out = {}
    ra = sh([flavor.probe("c08_asm_probe"), "asm", "case.nasm", "case.nvm"], cwd=d, cpu=10, san=True)
    runs = []
    if ra.rc == 0 and os.path.exists(os.path.join(d, "case.nvm")):
        runs.append(("nano_vm", sh([flavor.nano_vm, "case.nvm"], cwd=d, cpu=10, san=True)))
    else:
        out["nano_vm"] = ("skip:assemble", ra.errtext()[-300:], ra)
    runs.append(("probe", sh([flavor.probe("c08_asm_probe"), "run", "case.nasm"], cwd=d, cpu=10, san=True)))
    for runner, r in runs:
        lines = r.text().split("\n")
        rep = san_report(r)
        has_v, has_a = "C08:VALUE" in lines, "C08:AFTER" in lines
        ok0 = (r.rc == 0 and not r.sig)
        if r.timeout:
            v = ("skip:timeout", "")
        elif runner == "nano_vm" and "verification failed" in r.errtext():
            v = ("skip:verifier-refused", r.errtext()[-200:])
        elif runner == "probe" and r.rc in (4, 5):
            v = ("skip:assemble", r.errtext()[-200:])
        elif control:
            got = section(lines, "C08:VALUE", "C08:AFTER")
            if rep:
                v = ("control-failed:sanitizer", rep[:300])
            elif not ok0 or not has_a or got != exp:
                v = ("control-failed", "rc=%s sig=%s got=%r expected=%r" % (r.rc, r.sig, got, exp))
            else:
                v = ("ok", "")
        elif rep:
            v = ("sanitizer:" + san_kind(rep), rep[:600])
        elif has_a:
            v = ("continued", "")
        elif has_v:
            v = ("value", "")
        elif ok0:
            v = ("exit0", "")
        else:
            v = ("stopped", "")
        out[runner] = (v[0], v[1], r)
    return src, out


# ---------------------------------------------------------------------------------------------------------
# char_at: observed, not judged (strings are outside the property's statement; docs/STDLIB.md contradicts itself:
# "Bounds-checked - I terminate" in one place, "or 0 if the index is out of bounds" in another)
# ---------------------------------------------------------------------------------------------------------
def char_at_program(engine, n, i):
    s = "abcdefgh"[:n]
    L = ["fn t(i: int) -> int {",
         '    let s: string = "%s"' % s,
         '    (println "C08:START")',
         '    (println (+ "C08:BEFORE i=" (int_to_string i)))',
         "    let v: int = (char_at s i)",
         '    (println "C08:VALUE")',
         "    (println v)",
         '    (println "C08:AFTER")',
         "    return 0",
         "}"]
    if engine == "eval":
        L += ["shadow t {\n    (t %s)\n}" % idx_src(i), "fn main() -> int {\n    return 0\n}"]
    else:
        L += ["shadow t { assert true }", "fn main() -> int {\n    return (t %s)\n}" % idx_src(i)]
    L.append("shadow main { assert true }")
    return "\n".join(L) + "\n"


# ---------------------------------------------------------------------------------------------------------
# the check
# ---------------------------------------------------------------------------------------------------------
def native_sample(ctx, cells):
    """quick tier: ~150 fault cells of the native grid, stratified: two random lengths per (op, kind, construction),
    three index classes per chosen group (rotating so that every class is hit equally often), every array_pop
    (kind, construction) once; plus the controls of the chosen groups."""
    rng = ctx.rng("native-sample")
    by_group = {}
    for c in cells:
        by_group.setdefault(c.group, []).append(c)
    chosen = []
    j = 0
    for op in OPS:
        for kind in KINDS:
            for cons in CONS:
                ns = [n for n in LENGTHS if (op, kind, cons, n) in by_group]
                if op == "array_pop":
                    picks = rng.sample(ns, 1)
                else:
                    picks = rng.sample(ns, 2)
                for n in picks:
                    grp = by_group[(op, kind, cons, n)]
                    faults = [c for c in grp if not c.control]
                    if op == "array_pop":
                        chosen += faults
                    else:
                        classes = ["neg", "len", "len+1", "2^31", "2^32+k", "int64max", "int64min"]
                        for t in range(3):
                            cls = classes[(3 * j + t) % 7]
                            cands = [c for c in faults if c.cls == cls]
                            chosen.append(rng.choice(cands))
                        j += 1
                    chosen += [c for c in grp if c.control]
    return chosen


def describe(o):
    out = o.text
    if o.cell.engine == "eval":        # nanoc --verbose: keep the lines of the shadow block only
        out = "\n".join(l for l in o.lines if "C08:" in l or re.match(r"^(-?\d+|true|false|void|s\d|new)?$", l))
    return "rc=%s sig=%s\n--- stdout (tail)\n%s\n--- stderr (tail)\n%s" % (o.rc, o.sig, out[-500:], o.stderr[-700:])


def key_for(c, observed):
    if c.engine in ("vm", "nano_vm"):
        return "%s|%s|%s|%s" % (c.engine, c.op, c.cls, observed)
    if c.engine == "native":
        return "native|%s|%s|%s|%s" % (c.op, c.kind, c.cls, observed)
    return "eval|%s|%s|%s|%s" % (c.op, c.cons, c.cls, observed)


ENGINE_TEXT = {"vm": "nano_virt --run", "nano_vm": "nano_vm on the .nvm emitted by nano_virt", "native": "the compiled binary",
               "eval": "nanoc's evaluator (shadow block)"}
OBS_TEXT = {"continued": "the program keeps running (the statements after the access print, C08:AFTER is reached)",
            "value": "the access yields a value the program goes on to use (C08:VALUE printed)",
            "exit0": "the run ends with exit status 0", "binary": "nanoc fails but still writes a binary"}


def run(ctx):
    asan = build.get("asan")
    ctx.require(os.path.exists(asan.probe("c08_asm_probe")), "probe c08_asm_probe missing from the asan flavor")
    with Scratch("c08") as sc:
        plan = {}
        full = {}
        for eng in ENGINES:
            cells = grid(eng)
            full[eng] = cells
            if eng == "native" and ctx.quick():
                cells = native_sample(ctx, cells)
            uniq = {}
            for c in cells:
                uniq.setdefault(c.ident(), c)
            plan[eng] = (cells, uniq)

        jobs = []
        for eng in ENGINES:
            for k, c in enumerate(plan[eng][1].values()):
                jobs.append((c, k))
        # expensive engines first so that the pool drains evenly
        jobs.sort(key=lambda t: {"native": 0, "eval": 1, "nano_vm": 2, "vm": 3}[t[0].engine])

        def do(job):
            c, k = job
            o = execute(asan, sc, c, k)
            if o.timeout or (o.skip or "").endswith("timeout"):
                o = execute(asan, sc, c, k)          # a watchdog is re-run once before it is believed
            return o

        results = {}
        for o in pmap(do, jobs):
            results[o.cell.ident()] = o

        hist = {}
        nonstop = {}              # every cell that was not stopped, by violation key (known or not)
        ctl_hist = {}
        skipped = {}
        evaluated = {e: 0 for e in ENGINES}
        distinct = set()
        controls_ok = {e: 0 for e in ENGINES}
        controls_all = {e: 0 for e in ENGINES}
        timeouts = 0
        samples = []
        # controls
        ctl_verdict = {}
        for eng in ENGINES:
            for ident, c in plan[eng][1].items():
                if not c.control:
                    continue
                o = results[ident]
                controls_all[eng] += 1
                if o.skip:
                    v = "skip:" + o.skip
                elif o.timeout:
                    v = "skip:timeout"
                    timeouts += 1
                else:
                    v = judge(o)[0]
                ctl_verdict[ident] = v
                if v == "ok":
                    controls_ok[eng] += 1
                hk = "%s|%s|%s|%s|%s" % (eng, c.op, c.kind, c.cons, v)
                ctl_hist[hk] = ctl_hist.get(hk, 0) + 1
        # faults
        for eng in ENGINES:
            cells, uniq = plan[eng]
            groups = {}
            for c in cells:
                if c.control:
                    groups.setdefault(c.group, []).append(c.ident())
            seen = set()
            for c in cells:
                if c.control or c.ident() in seen:
                    continue
                seen.add(c.ident())
                o = results[c.ident()]
                cv = [ctl_verdict[i] for i in dict.fromkeys(groups.get(c.group, []))]
                n_at_access = c.group[3]
                vouched = bool(cv) and (any(v == "ok" for v in cv) if n_at_access == 0 else all(v == "ok" for v in cv))
                reason = None
                if o.skip:
                    reason = o.skip
                    if reason.endswith("timeout"):
                        timeouts += 1
                elif o.timeout:
                    reason = "timeout"
                    timeouts += 1
                elif not vouched:
                    bad = [v for v in cv if v != "ok"]
                    reason = "control:" + (bad[0] if bad else "none")
                elif setup_ok(o) is False:
                    reason = "setup-differs"
                if reason:
                    sk = "%s|%s|%s|%s|%s" % (eng, c.op, c.kind, c.cons, reason)
                    skipped[sk] = skipped.get(sk, 0) + 1
                    continue
                verdict, detail = judge(o)
                if verdict == "sanitizer":
                    verdict = "sanitizer:" + san_kind(o.san)
                evaluated[eng] += 1
                distinct.add(c.ident())
                hk = "%s|%s|%s|%s" % (eng, c.op, c.cls, verdict)
                hist[hk] = hist.get(hk, 0) + 1
                if verdict == "stopped":
                    if len(samples) < 8 and (len(samples) < 4 or eng not in [s["engine"] for s in samples]):
                        samples.append({"engine": eng, "cell": c.name(), "rc": o.rc, "signal": o.sig,
                                        "stderr_tail": o.stderr.strip()[-160:]})
                    continue
                what = ("%s: `%s` on an array<%s> (%s, length %d at the access) with %s is not stopped: %s\n"
                        "cell %s, index class %s\n%s" % (
                            ENGINE_TEXT[eng], c.op, TYPE[c.kind], c.cons, c.live_len(),
                            "no element left" if c.idx is None else "index %d" % c.idx,
                            OBS_TEXT.get(verdict, "sanitizer report: " + (o.san or "")[:300]),
                            c.name(), c.cls, describe(o)))
                files = {"main.nano": o.src, "stdout.txt": o.text, "stderr.txt": o.stderr,
                         "cmd.txt": {"vm": "nano_virt main.nano --run", "nano_vm": "nano_virt main.nano --emit-nvm -o main.nvm && nano_vm main.nvm",
                                     "native": "nanoc main.nano -o main.bin && ./main.bin   # asan flavor, NANO_CC=tools/fastcc",
                                     "eval": "nanoc main.nano -o main.bin --verbose   # must fail and write no binary"}[eng] + "\n"}
                key = key_for(c, verdict)
                nonstop[key] = nonstop.get(key, 0) + 1
                ctx.violation(key, what, files)

        # ---- assembler level ----------------------------------------------------------------------
        acells = asm_cells()
        asm_hist = {}
        asm_ctl = {}
        asm_eval = 0
        asm_res = pmap(lambda t: (t[1], asm_execute(asan, sc, t[1], t[0])), list(enumerate(acells)))
        for (op, count, k, cls, control), (src, out) in asm_res:
            if control:
                for runner, (v, d, r) in out.items():
                    asm_ctl[(runner, op, count)] = asm_ctl.get((runner, op, count), True) and v == "ok"
        verifier_note = set()
        for (op, count, k, cls, control), (src, out) in asm_res:
            if control:
                continue
            for runner, (v, d, r) in out.items():
                vouch = asm_ctl.get((runner, op, count if count > 0 else 1), False)
                if v.startswith("skip:") or not vouch:
                    hk = "asm|%s|%s|%s" % (runner, op, v if v.startswith("skip:") else "skip:control")
                    skipped[hk] = skipped.get(hk, 0) + 1
                    if v == "skip:verifier-refused":
                        verifier_note.add(op)
                    continue
                asm_eval += 1
                distinct.add(("asm", runner, op, count, k))
                hk = "asm|%s|%s|%s|%s" % (runner, op, cls, v)
                asm_hist[hk] = asm_hist.get(hk, 0) + 1
                if v != "stopped":
                    nonstop["asm|%s|%s|%s|%s" % (runner, op, cls, v)] = nonstop.get("asm|%s|%s|%s|%s" % (runner, op, cls, v), 0) + 1
                    ctx.violation("asm|%s|%s|%s|%s" % (runner, op, cls, v),
                                  "%s %d on an object with %d field(s) is not stopped (%s, %s): %s\nrc=%s sig=%s\n%s\n%s" % (
                                      op, k, count, runner, "verifier skipped" if runner == "probe" else "verifier on", v,
                                      r.rc, r.sig, r.text()[-300:], r.errtext()[-500:]),
                                  {"case.nasm": src, "cmd.txt": "c08_asm_probe asm case.nasm case.nvm && nano_vm case.nvm\nc08_asm_probe run case.nasm\n"})

        # ---- char_at: observed only -----------------------------------------------------------------
        ca_jobs = []
        for eng in ("native", "vm", "eval"):
            for n in (0, 1, 3):
                for cls, i in oob_indices(n):
                    if cls == "2^32+k" and i != (1 << 32):
                        continue
                    ca_jobs.append((eng, n, cls, i))
        if ctx.quick():
            ca_jobs = [j for j in ca_jobs if j[0] != "native" or j[1] == 3]

        def do_ca(t):
            k, (eng, n, cls, i) = t
            d = sc.sub("char_at/%03d" % k)
            engines.write_files(d, {"main.nano": char_at_program(eng, n, i)})
            if eng == "vm":
                r = engines.run_vm(asan, d, san=True)
            else:
                rb, built = engines.build_native(asan, d, san=True, verbose=(eng == "eval"))
                if eng == "eval":
                    r = rb
                elif not built:
                    return (eng, cls, "not-built")
                else:
                    r = sh([os.path.join(d, "main.bin")], cwd=d, cpu=10, san=True, env=NATIVE_ENV)
            lines = r.text().split("\n")
            rep = san_report(r)
            if rep:
                return (eng, cls, "sanitizer:" + san_kind(rep))
            if "C08:AFTER" in lines:
                val = section(lines, "C08:VALUE", "C08:AFTER")
                return (eng, cls, "continued value=%s exit=%s" % ("/".join(val or []), r.status))
            return (eng, cls, "stopped exit=%s" % r.status)

        ca_hist = {}
        for eng, cls, v in pmap(do_ca, list(enumerate(ca_jobs))):
            ca_hist["%s|%s" % (eng, v)] = ca_hist.get("%s|%s" % (eng, v), 0) + 1
            if v.startswith("sanitizer"):
                ctx.note("char_at out of range (%s, %s): %s - outside C08's statement, recorded only" % (eng, cls, v))

        n_proc = len(jobs) + 2 * len(acells) + len(ca_jobs)
        if not ctx.violations:
            ctx.require(timeouts == 0, "%d cell(s) hit the watchdog twice" % timeouts)
            for eng, lo in (("vm", 0.9), ("nano_vm", 0.9), ("eval", 0.4), ("native", 0.5)):
                total = sum(1 for c in plan[eng][1].values() if not c.control)
                ctx.require(evaluated[eng] >= lo * total,
                            "engine %s: only %d of %d fault cells could be evaluated (controls failed / not built)" % (eng, evaluated[eng], total))
            ctx.require(asm_eval >= 100, "too few assembler-level cells evaluated (%d)" % asm_eval)
        grid_sizes = {e: sum(1 for c in {c.ident(): c for c in full[e]}.values() if not c.control) for e in ENGINES}
        return ctx.finish({
            "evaluations": n_proc,
            "distinct_nontrivial": len(distinct),
            "rule": "distinct (engine, op, element kind, construction, length, pre-pops, index) out-of-range cells that were executed "
                    "(one process each) AND whose in-range controls of the same (engine, op, kind, construction, length) printed the "
                    "expected value + AFTER and exited 0, plus distinct (runner, opcode, field count, k) assembler cells whose control passed",
            "exhaustive": True,
            "explanation": ("grid = lengths 0..8 x indices {-1, len, len+1, 2^31, 2^32+k for every k<len (2^32 for len 0), 2^63-1, -2^63} x "
                            "{at, array_set, array_remove_at} x {int,string,bool,struct} x {literal, built by array_push}, plus array_pop on "
                            "an array of every length 0..8 emptied by in-range pops; enumerated completely on " +
                            ("vm, nano_vm and the evaluator; native is a stratified sample of %d fault cells" % sum(1 for c in plan["native"][1].values() if not c.control)
                             if ctx.quick() else "all four engines") +
                            "; assembler level = {TUPLE_GET, STRUCT_GET, STRUCT_SET, UNION_FIELD} x field counts 0..4 x k in {count, count+1, 255, 256, 65535}"),
            "grid_fault_cells_per_engine": grid_sizes,
            "fault_cells_executed": {e: sum(1 for c in plan[e][1].values() if not c.control) for e in ENGINES},
            "fault_cells_evaluated": evaluated,
            "controls": {e: "%d/%d passed" % (controls_ok[e], controls_all[e]) for e in ENGINES},
            "outcomes": dict(sorted(hist.items())),
            "not_stopped_by_key": dict(sorted(nonstop.items())),
            "control_outcomes": dict(sorted((k, v) for k, v in ctl_hist.items() if not k.endswith("|ok"))),
            "skipped": dict(sorted(skipped.items())),
            "asm_cells_evaluated": asm_eval,
            "asm_outcomes": dict(sorted(asm_hist.items())),
            "asm_verifier": "nano_vm runs nvm_verify before executing (accepted every case except: %s); the probe runner skips it" % (sorted(verifier_note) or "none"),
            "char_at_observed_only": dict(sorted(ca_hist.items())),
            "samples": samples,
        }, assumptions=[
            "a run-time error is observed as: no C08:VALUE / C08:AFTER line, exit status != 0 or death by signal, no ASan/UBSan report; "
            "C08:BEFORE is not required because abort() loses buffered stdout",
            "the native engine is nanoc (asan flavor) + tools/fastcc with -fsanitize=address,undefined; SIGABRT from the runtime's assert() "
            "is left as a signal (handle_abort=0) and counts as stopping",
            "the evaluator is observed through nanoc --verbose (shadow output is discarded otherwise); 'no binary' = main.bin does not exist",
            "cells whose in-range control does not behave on an engine (e.g. array literals of structs do not compile natively, the evaluator "
            "cannot pop/remove from literal arrays or array_set pushed ones: census / C03 findings) are skipped and counted, not judged",
            "char_at is outside the statement of C08 (strings) and docs/STDLIB.md contradicts itself; it is recorded, not judged",
        ])
