"""C08 - out-of-range operations stop the program and never yield a value (DESIGN §4 C08).

E: a run in which an array access outside [0,len), a pop of an empty array or a non-existent tuple/struct/union
   field is followed by any later output marker, or ends with exit status 0, or produces an ASan/UBSan report.
O: one access per process.  Every test program prints `C08:BEFORE i=<index>`, performs the access with the index
   received through a function parameter, prints `C08:VALUE` + the value (or the length for writes) and
   `C08:AFTER`.  Required for an out-of-range cell: `C08:VALUE` and `C08:AFTER` absent, exit status != 0 (a signal
   counts), no sanitizer report.  `C08:BEFORE` is not required (abort() loses buffered stdout).  In-range controls
   of the same (engine, op, kind, construction, length) must print value + AFTER and exit 0, else the cells that
   depend on them are skipped and counted (guards against vacuity).
Engines: native (asan nanoc + fastcc with ASan/UBSan), vm (asan nano_virt --run), nano_vm (asan nano_vm on the .nvm
   emitted by nano_virt), eval (the access inside a shadow block: asan nanoc must exit != 0 and write no binary).
Assembler level: TUPLE_GET / STRUCT_GET / STRUCT_SET / UNION_FIELD k with k >= count through probes/c08_asm_probe.c
   (repo's asm_assemble) into the real nano_vm (verifier on) and in-process with the verifier skipped.
"""
import os
import re

from .. import build, engines
from ..run import run as sh, pmap, Scratch

LEVEL = "fault_enumeration"

KINDS = ("int", "string", "bool", "struct")
CONS = ("literal", "pushed")
OPS = ("at", "array_set", "array_remove_at", "array_pop")
ENGINES = ("native", "vm", "nano_vm", "eval")
LENGTHS = tuple(range(0, 9))
I64MAX = (1 << 63) - 1
I64MIN = -(1 << 63)

TYPE = {"int": "int", "string": "string", "bool": "bool", "struct": "P"}


# ---------------------------------------------------------------------------------------------------------
# the grid
# ---------------------------------------------------------------------------------------------------------
class Cell:
    """one access = one process.  n = elements constructed; prepops = pops done (in range) before the access;
    idx = index used by the access (None for array_pop); cls = index class; control = the access is in range."""
    __slots__ = ("engine", "op", "kind", "cons", "n", "idx", "cls", "prepops", "control", "group")

    def __init__(self, engine, op, kind, cons, n, idx, cls, prepops=0, control=False, group=None):
        self.engine, self.op, self.kind, self.cons, self.n = engine, op, kind, cons, n
        self.idx, self.cls, self.prepops, self.control = idx, cls, prepops, control
        # group = the (op, kind, cons, length at the moment of the access) whose controls vouch for this cell
        self.group = group

    def ident(self):
        return (self.engine, self.op, self.kind, self.cons, self.n, self.prepops, self.idx)

    def name(self):
        return "%s|%s|%s|%s|n=%d%s|i=%s" % (self.engine, self.op, self.kind, self.cons, self.n,
                                              ("-%dpops" % self.prepops) if self.prepops else "",
                                              "-" if self.idx is None else self.idx)

    def live_len(self):
        return self.n - self.prepops


def oob_indices(n):
    """(class, index) for an array of length n - the grid of the design"""
    out = [("neg", -1), ("len", n), ("len+1", n + 1), ("2^31", 1 << 31)]
    for k in range(max(n, 1)):            # n == 0: 2^32 itself
        out.append(("2^32+k", (1 << 32) + k))
    out += [("int64max", I64MAX), ("int64min", I64MIN)]
    return out


def grid(engine):
    """all cells (faults + controls) of one engine"""
    cells = []
    for op in OPS:
        for kind in KINDS:
            for cons in CONS:
                for n in LENGTHS:
                    if n == 0 and cons == "pushed":
                        continue                      # zero pushes is the literal []
                    grp = (op, kind, cons, n)
                    if op == "array_pop":
                        # n elements, popped n times (each pop in range), then the pop on the empty array
                        cells.append(Cell(engine, op, kind, cons, n, None, "empty", prepops=n, group=grp))
                        # control: n+1 elements, n pops, the access pops the last one
                        ccons = "pushed" if n == 0 else cons
                        cells.append(Cell(engine, op, kind, ccons, n + 1, None, "ctl", prepops=n, control=True, group=grp))
                        continue
                    for cls, i in oob_indices(n):
                        cells.append(Cell(engine, op, kind, cons, n, i, cls, group=grp))
                    if n == 0:
                        # controls for the empty array (no index is in range): the one-element arrays of both
                        # constructions, index 0; one of them has to behave
                        for cc in CONS:
                            cells.append(Cell(engine, op, kind, cc, 1, 0, "ctl", control=True, group=grp))
                    else:
                        for i in sorted(set([0, n - 1])):
                            cells.append(Cell(engine, op, kind, cons, n, i, "ctl", control=True, group=grp))
    return cells


# ---------------------------------------------------------------------------------------------------------
# programs
# ---------------------------------------------------------------------------------------------------------
def elem_src(kind, j):
    if kind == "int":
        return str(10 + j)
    if kind == "string":
        return '"s%d"' % j
    if kind == "bool":
        return "true" if j % 2 == 0 else "false"
    return "P { x: %d, y: %d }" % (10 + j, 100 + j)


def elem_out(kind, j):
    if kind == "int" or kind == "struct":
        return str(10 + j)
    if kind == "string":
        return "s%d" % j
    return "true" if j % 2 == 0 else "false"


def new_src(kind, i):
    if kind == "int":
        return "77"
    if kind == "string":
        return '"new"'
    if kind == "bool":
        return "false" if (i is not None and i >= 0 and i % 2 == 0) else "true"
    return "P { x: 77, y: 78 }"


def new_out(kind, i):
    if kind == "int" or kind == "struct":
        return "77"
    if kind == "string":
        return "new"
    return "false" if (i is not None and i >= 0 and i % 2 == 0) else "true"


def val_expr(kind, v):
    return v + ".x" if kind == "struct" else v


def idx_src(i):
    if i == I64MIN:
        return "(- -9223372036854775807 1)"
    return str(i)


def program(cell):
    """source text + the lines a control must print between C08:VALUE and C08:AFTER"""
    T = TYPE[cell.kind]
    k = cell.kind
    L = []
    if k == "struct":
        L.append("struct P { x: int, y: int }\n")
    L.append("fn t(i: int) -> int {")
    if cell.cons == "literal":
        L.append("    let mut a: array<%s> = [%s]" % (T, ", ".join(elem_src(k, j) for j in range(cell.n))))
    else:
        L.append("    let mut a: array<%s> = []" % T)
        for j in range(cell.n):
            L.append("    set a (array_push a %s)" % elem_src(k, j))
    L.append('    (println "C08:START")')       # nanoc --verbose prefixes the first line with "Testing t... "
    L.append('    (println (+ "C08:LEN=" (int_to_string (array_length a))))')
    pre = []
    for p in range(cell.prepops):
        L.append("    let p%d: %s = (array_pop a)" % (p, T))
        L.append('    (println "C08:PRE")')
        L.append("    (println %s)" % val_expr(k, "p%d" % p))
        pre.append(elem_out(k, cell.n - 1 - p))
    L.append('    (println (+ "C08:BEFORE i=" (int_to_string i)))')
    exp = []
    n = cell.live_len()
    i = cell.idx
    if cell.op == "at":
        L.append("    let v: %s = (at a i)" % T)
        L.append('    (println "C08:VALUE")')
        L.append("    (println %s)" % val_expr(k, "v"))
        if cell.control:
            exp = [elem_out(k, i)]
    elif cell.op == "array_set":
        L.append("    (array_set a i %s)" % new_src(k, i))
        L.append('    (println "C08:VALUE")')
        L.append("    (println (array_length a))")
        if cell.control:
            L.append("    let w: %s = (at a i)" % T)
            L.append("    (println %s)" % val_expr(k, "w"))
            exp = [str(n), new_out(k, i)]
    elif cell.op == "array_remove_at":
        L.append("    (array_remove_at a i)")
        L.append('    (println "C08:VALUE")')
        L.append("    (println (array_length a))")
        if cell.control:
            exp = [str(n - 1)]
            if n - 1 > 0:
                L.append("    let w: %s = (at a 0)" % T)
                L.append("    (println %s)" % val_expr(k, "w"))
                exp.append(elem_out(k, 1 if i == 0 else 0))
    else:
        L.append("    let v: %s = (array_pop a)" % T)
        L.append('    (println "C08:VALUE")')
        L.append("    (println %s)" % val_expr(k, "v"))
        if cell.control:
            exp = [elem_out(k, cell.n - 1 - cell.prepops)]
    L.append('    (println "C08:AFTER")')
    L.append("    return 0")
    L.append("}")
    arg = "0" if i is None else idx_src(i)
    if cell.engine == "eval":
        L.append("shadow t {\n    (t %s)\n}" % arg)
        L.append("fn main() -> int {\n    return 0\n}")
    else:
        L.append("shadow t { assert true }")
        L.append("fn main() -> int {\n    return (t %s)\n}" % arg)
    L.append("shadow main { assert true }")
    return "\n".join(L) + "\n", pre, exp


# ---------------------------------------------------------------------------------------------------------
# running one cell
# ---------------------------------------------------------------------------------------------------------
# the VM's own diagnostics start with "runtime error:" - a UBSan report is "<file>:<line>:<col>: runtime error:"
SAN_RE = re.compile(r"(ERROR: AddressSanitizer|ERROR: LeakSanitizer|\S+:\d+:\d+: runtime error:|AddressSanitizer:DEADLYSIGNAL|"
                    r"ERROR: UndefinedBehaviorSanitizer|==\d+==\s*AddressSanitizer|AddressSanitizer: )")


def san_report(r):
    t = r.errtext()
    m = SAN_RE.search(t)
    return t[m.start():m.start() + 3000] if m else None


# the native runtime reports an index error through assert() -> abort(): with handle_abort=1 ASan would dress the
# SIGABRT up as an "AddressSanitizer: ABRT" report; here the process is simply left to die from the signal
from ..run import ASAN_ENV
NATIVE_ENV = {"ASAN_OPTIONS": ASAN_ENV["ASAN_OPTIONS"].replace("handle_abort=1", "handle_abort=0")}


class Out:
    __slots__ = ("cell", "status", "lines", "rc", "sig", "san", "timeout", "skip", "stderr", "binary", "text", "src")

    def __init__(self, cell):
        self.cell = cell
        self.status = None
        self.lines = []
        self.rc = self.sig = None
        self.san = None
        self.timeout = False
        self.skip = None          # reason the cell could not be executed on this engine
        self.stderr = ""
        self.binary = None        # eval: did nanoc leave a binary
        self.text = ""
        self.src = ""


def execute(flavor, sc, cell, seq):
    src, pre, exp = program(cell)
    o = Out(cell)
    o.src = src
    d = sc.sub("%s/%05d" % (cell.engine, seq))
    engines.write_files(d, {"main.nano": src})
    r = None
    if cell.engine in ("native", "eval"):
        # --verbose: without it nanoc discards what shadow blocks print
        rb, built = engines.build_native(flavor, d, san=True, verbose=(cell.engine == "eval"))
        if cell.engine == "eval":
            r = rb
            o.binary = os.path.exists(os.path.join(d, "main.bin"))
        else:
            if rb.timeout:
                o.skip = "nanoc-timeout"
            elif not built:
                o.skip = "build:" + engines.classify_nanoc_failure(rb)
                o.stderr = rb.errtext()[-1500:]
                if san_report(rb):
                    o.skip = "build:nanoc-sanitizer"
            if o.skip:
                return o
            r = sh([os.path.join(d, "main.bin")], cwd=d, cpu=10, san=True, env=NATIVE_ENV)
    elif cell.engine == "vm":
        r = engines.run_vm(flavor, d, san=True)
    else:
        rb = sh([flavor.nano_virt, "main.nano", "--emit-nvm", "-o", "main.nvm"], cwd=d, cpu=20, san=True)
        if rb.timeout:
            o.skip = "emit-timeout"
        elif rb.rc != 0 or not os.path.exists(os.path.join(d, "main.nvm")):
            o.skip = "emit-failed"
            o.stderr = rb.errtext()[-1500:]
        if o.skip:
            return o
        r = sh([flavor.nano_vm, "main.nvm"], cwd=d, cpu=10, san=True)
    o.rc, o.sig, o.timeout = r.rc, r.sig, r.timeout
    o.san = san_report(r)
    o.text = r.text()
    o.stderr = r.errtext()[-1500:]
    o.lines = o.text.split("\n")
    return o


def section(lines, a, b=None):
    """lines after the first exact line `a` up to (not including) the first later line `b`"""
    if a not in lines:
        return None
    k = lines.index(a) + 1
    out = []
    for l in lines[k:]:
        if b is not None and l == b:
            break
        out.append(l)
    return out


def judge(o):
    """-> (verdict, detail).  verdict for faults: 'stopped' | 'sanitizer' | 'continued' | 'value' | 'exit0' |
    'binary' (eval only: exit != 0 but a binary was written).  For controls: 'ok' | 'control-failed:<why>'."""
    c = o.cell
    _, pre, exp = program(c)
    has_value = "C08:VALUE" in o.lines
    has_after = "C08:AFTER" in o.lines
    status0 = (o.rc == 0 and not o.sig)
    if c.control:
        if o.san:
            return "control-failed:sanitizer", o.san[:300]
        if not status0:
            return "control-failed:status", "rc=%s sig=%s" % (o.rc, o.sig)
        if not has_after or not has_value:
            return "control-failed:markers", ""
        got = [l for l in section(o.lines, "C08:VALUE", "C08:AFTER")]
        if got != exp:
            return "control-failed:value", "expected %r got %r" % (exp, got)
        if c.engine == "eval" and not o.binary:
            return "control-failed:no-binary", ""
        return "ok", ""
    # the index must have arrived as written and the pre-pops must have been in range (where stdout survived)
    if o.san:
        return "sanitizer", o.san[:600]
    if has_after:
        return "continued", ""
    if has_value:
        return "value", ""
    if status0:
        return "exit0", ""
    if c.engine == "eval" and o.binary:
        return "binary", ""
    return "stopped", ""


def setup_ok(o):
    """for a fault cell whose stdout survived: the lines before the access are as constructed (length, pre-pops,
    index as written).  None = cannot tell (stdout lost)."""
    c = o.cell
    _, pre, exp = program(c)
    bl = [l for l in o.lines if l.startswith("C08:BEFORE")]
    if not bl:
        return None
    want_i = 0 if c.idx is None else c.idx
    if bl[0] != "C08:BEFORE i=%d" % want_i:
        return False
    if "C08:LEN=%d" % c.n not in o.lines:
        return False
    got_pre = []
    for k, l in enumerate(o.lines):
        if l == "C08:PRE" and k + 1 < len(o.lines):
            got_pre.append(o.lines[k + 1])
    return got_pre == pre
