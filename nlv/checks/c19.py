"""C19 - compilation is a function of the source: outputs are reproducible (DESIGN §4 C19).

Every program is compiled by the real `nano_virt --emit-nvm` and `nanoc -S` (NANO_CC=/bin/true: the C compiler is
skipped, `<input>.genC` is still written) in a baseline configuration and in a matrix of other configurations, each
of which changes ONE thing the output must not depend on (cwd, TMPDIR, unrelated environment, spelling of the input /
tool path, ASLR, malloc fill bytes, malloc layout, pid/time, mtime of the source) plus one that changes everything at
once.  Oracle: the bytes of x.nvm, the bytes of <input>.genC, the exit status and the path-normalised diagnostics of
every configuration equal the baseline's.  One configuration per program and tool additionally runs under valgrind
memcheck: uninitialised bytes reaching write(2)/writev/pwrite are a violation ("output depends on uninitialised
memory"); other memcheck reports are recorded only.
"""
import hashlib
import os
import re

from .. import build, corpus
from ..run import run as sh, pmap, Scratch, NCPU

LEVEL = "exploration"

HERE = os.path.dirname(os.path.abspath(__file__))
VERIF = os.path.dirname(os.path.dirname(HERE))
WITNESS_DIR = os.path.join(VERIF, "findings", "C19", "modpath")

VG_CPU = 60                      # CPU seconds for one memcheck run; beyond that the run is counted as inconclusive
TOOLS = ("nvm", "genC")          # nano_virt --emit-nvm  /  nanoc -S


# ------------------------------------------------------------------------------------------------------------
# programs
# ------------------------------------------------------------------------------------------------------------
T1 = "t1-a-second-and-longer-temporary-directory"      # the other TMPDIR (different length on purpose)


class Prog:
    __slots__ = ("idx", "kind", "name", "files", "main", "root", "src", "hash", "note", "cfgs", "deep", "cfg_names")

    def __init__(self, kind, name, files, main, note="", cfg_names=None):
        self.cfg_names = cfg_names    # None = the whole matrix; else the names of the configurations to run (+ baseline)
        self.kind = kind
        self.name = name
        self.files = files            # relative name -> bytes
        self.main = main
        self.note = note
        h = hashlib.sha256()
        for k in sorted(files):
            h.update(k.encode() + b"\0" + hashlib.sha256(files[k]).digest())
        h.update(main.encode())
        self.hash = h.hexdigest()[:16]

    def materialise(self, base, idx):
        self.idx = idx
        self.root = os.path.join(base, "p%04d" % idx)
        self.src = os.path.join(self.root, "src")
        for rel, data in self.files.items():
            p = os.path.join(self.src, rel)
            os.makedirs(os.path.dirname(p), exist_ok=True)
            with open(p, "wb") as f:
                f.write(data)
        for d in ("c", "t0", T1, "home", "o"):
            os.makedirs(os.path.join(self.root, d), exist_ok=True)
        # a working directory whose path is >= 200 characters long
        deep = os.path.join(self.root, "d")
        i = 0
        while len(deep) < 205:
            deep = os.path.join(deep, "deep%02d_" % i + "x" * 40)
            i += 1
        os.makedirs(deep, exist_ok=True)
        with open(os.path.join(deep, "nlv_marker.txt"), "w") as f:      # (file_exists "nlv_marker.txt") is true only here
            f.write("x\n")
        self.deep = deep

    @property
    def input(self):
        return os.path.join(self.src, self.main)


def extra_sources(ctx, scratch):
    """Hook for the program generator (nlv.gen): return a list of extra source files - a path (single-file program) or
    a tuple (directory, main file relative to it) for a multi-module program.  Nothing yet."""
    return []


MM_UTIL = """pub fn add(a: int, b: int) -> int {
    return (+ a b)
}
shadow add { assert (== (add 2 3) 5) }
pub fn twice(n: int) -> int {
    return (* n 2)
}
shadow twice { assert (== (twice 4) 8) }
pub fn scale(n: int) -> int {
    return (* n %(k1)d)
}
shadow scale { assert (== (scale 1) %(k1)d) }
"""

MM_SHAPES = """pub struct Point { x: int, y: int }
pub fn point_sum(p: Point) -> int {
    return (+ p.x p.y)
}
shadow point_sum { assert (== (point_sum Point { x: 1, y: 2 }) 3) }
pub fn point_label(p: Point) -> string {
    return (+ "%(s1)s:" (int_to_string (+ p.x p.y)))
}
shadow point_label { assert (== (point_label Point { x: 1, y: 1 }) "%(s1)s:2") }
"""


MM_FFI = """/* thin FFI module: binds C library functions and wraps them */
extern fn labs(x: int) -> int
extern fn atol(s: string) -> int

pub fn magnitude(x: int) -> int {
    let mut r: int = 0
    unsafe {
        set r (labs x)
    }
    return r
}

pub fn parse_int(s: string) -> int {
    let mut r: int = 0
    unsafe {
        set r (atol s)
    }
    return (+ r %(k3)d)
}
"""


def _multi_module_programs(rng, n):
    """Hand-written multi-module programs (import of sibling files, `from .. import`, `module .. as`, transitive
    imports, a sub-directory, a diamond).  Constants come from rng so different seeds see different bytes."""
    out = []
    shapes = ["flat", "ffi-direct", "ffi-transitive", "types", "chain", "ffi-subdir", "diamond", "subdir", "ffi-alias", "many",
              "alias"]
    for i in range(n):
        shape = shapes[i % len(shapes)]
        v = dict(k1=rng.randrange(2, 90), k2=rng.randrange(100, 999), k3=rng.randrange(3, 50),
                 s1="".join(rng.choice("abcdefghijkmnpqrstuvwxyz") for _ in range(rng.randrange(3, 9))))
        files = {}
        if shape == "flat":
            files["util.nano"] = MM_UTIL % v
            files["shapes.nano"] = MM_SHAPES % v
            files["main.nano"] = """import "util.nano"
from "shapes.nano" import Point, point_sum, point_label

fn main() -> int {
    let p: Point = Point { x: %(k1)d, y: %(k2)d }
    (println (add 1 %(k3)d))
    (println (twice %(k2)d))
    (println (scale %(k3)d))
    (println (point_sum p))
    (println (point_label p))
    return 0
}
shadow main { assert (== (main) 0) }
""" % v
        elif shape.startswith("ffi-"):
            # an imported module that declares `extern fn`s (libc): the .nvm import table names the module each extern
            # came from, so the spelling of that name must not depend on cwd / the spelling of the input path
            ffi = MM_FFI % v
            if shape == "ffi-direct":
                files["cmath.nano"] = ffi
                files["main.nano"] = """import "cmath.nano"
extern fn llabs(x: int) -> int

fn own_abs(x: int) -> int {
    let mut r: int = 0
    unsafe {
        set r (llabs x)
    }
    return r
}

fn main() -> int {
    (println (magnitude (- 3 %(k2)d)))
    (println (parse_int "%(k3)d"))
    (println (own_abs (- 0 %(k1)d)))
    unsafe {
        (println (labs (- 0 %(k3)d)))
    }
    (println "%(s1)s")
    return 0
}
""" % v
            elif shape == "ffi-alias":
                files["cmath.nano"] = ffi
                files["main.nano"] = """import "cmath.nano" as cm

fn distance(a: int, b: int) -> int {
    return (cm.magnitude (- a b))
}

fn main() -> int {
    (println (distance %(k1)d %(k2)d))
    (println (cm.parse_int "%(k3)d"))
    return 0
}
""" % v
            elif shape == "ffi-transitive":
                files["cmath.nano"] = ffi
                files["mid.nano"] = """import "cmath.nano"
pub fn dist(a: int, b: int) -> int {
    return (magnitude (- a b))
}
pub fn number(s: string) -> int {
    return (+ (parse_int s) %(k1)d)
}
""" % v
                files["main.nano"] = """import "mid.nano"

fn main() -> int {
    (println (dist %(k1)d %(k2)d))
    (println (number "%(k3)d"))
    (println "%(s1)s")
    return 0
}
""" % v
            else:  # ffi-subdir: FFI module in a sub-directory, imported directly and (a second one) transitively
                files["lib/cmath.nano"] = ffi
                files["lib/cstr.nano"] = """extern fn strlen(s: string) -> int
pub fn c_length(s: string) -> int {
    let mut r: int = 0
    unsafe {
        set r (strlen s)
    }
    return r
}
"""
                files["lib/text.nano"] = """import "cstr.nano"
pub fn width(s: string) -> int {
    return (+ (c_length s) %(k1)d)
}
""" % v
                files["main.nano"] = """import "lib/cmath.nano"
import "lib/text.nano"

fn main() -> int {
    (println (magnitude (- %(k1)d %(k2)d)))
    (println (width "%(s1)s"))
    return 0
}
""" % v
        elif shape == "types":
            # several struct / enum / union definitions in the main file and in a module: the order of type tables matters
            files["kinds.nano"] = """pub struct Size { w: int, h: int }
pub enum Mode { Off, On, Auto }
pub fn area(s: Size) -> int {
    return (* s.w s.h)
}
shadow area { assert (== (area Size { w: 2, h: 3 }) 6) }
"""
            files["main.nano"] = """from "kinds.nano" import Size, area

struct Alpha { a: int, label: string }
struct Beta { b: int, inner: Alpha }
struct Gamma { g: bool, count: int }
enum Color { Red, Green, Blue }
union Shape {
    Circle { radius: int },
    Rect { w: int, h: int }
}

fn describe(s: Shape) -> int {
    match s {
        Circle(c) => { return c.radius }
        Rect(r) => { return (* r.w r.h) }
    }
}
shadow describe { assert (== (describe Shape.Circle { radius: 3 }) 3) }

fn main() -> int {
    let a: Alpha = Alpha { a: %(k1)d, label: "%(s1)s" }
    let b: Beta = Beta { b: %(k2)d, inner: a }
    let g: Gamma = Gamma { g: true, count: %(k3)d }
    let c: Color = Color.Green
    (println (+ a.a (+ b.b g.count)))
    (println b.inner.label)
    (println (describe Shape.Rect { w: 2, h: %(k3)d }))
    (println (area Size { w: 4, h: %(k1)d }))
    if (== c Color.Green) {
        (println "green")
    }
    return 0
}
shadow main { assert (== (main) 0) }
""" % v
        elif shape == "alias":
            files["util.nano"] = MM_UTIL % v
            files["main.nano"] = """module "util.nano" as U

fn local_add(a: int, b: int) -> int {
    return (+ (U.add a b) %(k1)d)
}
shadow local_add { assert (== (local_add 0 0) %(k1)d) }

fn main() -> int {
    (println (U.add 5 %(k2)d))
    (println (U.twice %(k3)d))
    (println (local_add 1 2))
    return 0
}
shadow main { assert (== (main) 0) }
""" % v
        elif shape == "chain":
            files["c_base.nano"] = """pub fn base_value() -> int {
    return %(k2)d
}
shadow base_value { assert (== (base_value) %(k2)d) }
""" % v
            files["b_mid.nano"] = """import "c_base.nano"
pub fn mid_value(n: int) -> int {
    return (+ (base_value) n)
}
shadow mid_value { assert (== (mid_value 1) (+ %(k2)d 1)) }
""" % v
            files["main.nano"] = """import "b_mid.nano"

fn main() -> int {
    let mut total: int = 0
    let mut i: int = 0
    while (< i %(k3)d) {
        set total (+ total (mid_value i))
        set i (+ i 1)
    }
    (println total)
    (println "%(s1)s")
    return 0
}
shadow main { assert (== (main) 0) }
""" % v
        elif shape == "diamond":
            files["base.nano"] = """pub fn unit() -> int {
    return %(k1)d
}
shadow unit { assert (== (unit) %(k1)d) }
""" % v
            files["left.nano"] = """import "base.nano"
pub fn left_side(n: int) -> int {
    return (+ n (unit))
}
shadow left_side { assert (== (left_side 0) %(k1)d) }
""" % v
            files["right.nano"] = """import "base.nano"
pub fn right_side(n: int) -> int {
    return (* n (unit))
}
shadow right_side { assert (== (right_side 1) %(k1)d) }
""" % v
            files["main.nano"] = """import "left.nano"
import "right.nano"

fn main() -> int {
    (println (left_side %(k2)d))
    (println (right_side %(k3)d))
    (println (+ "%(s1)s" "-end"))
    return 0
}
shadow main { assert (== (main) 0) }
""" % v
        elif shape == "subdir":
            files["lib/vec.nano"] = """pub struct Vec2 { x: int, y: int }
pub fn vec_dot(a: Vec2, b: Vec2) -> int {
    return (+ (* a.x b.x) (* a.y b.y))
}
shadow vec_dot { assert (== (vec_dot Vec2 { x: 1, y: 2 } Vec2 { x: 3, y: 4 }) 11) }
"""
            files["lib/geo.nano"] = """from "vec.nano" import Vec2, vec_dot
pub fn norm2(x: int, y: int) -> int {
    let v: Vec2 = Vec2 { x: x, y: y }
    return (vec_dot v v)
}
shadow norm2 { assert (== (norm2 3 4) 25) }
"""
            files["main.nano"] = """import "lib/geo.nano"

fn main() -> int {
    (println (norm2 %(k1)d %(k3)d))
    (println "%(s1)s")
    return 0
}
shadow main { assert (== (main) 0) }
""" % v
        else:  # many
            names = ["m_%s" % c for c in "abcdef"]
            rng.shuffle(names)
            for j, nm in enumerate(names):
                files[nm + ".nano"] = """pub fn %s_f(n: int) -> int {
    return (+ n %d)
}
shadow %s_f { assert (== (%s_f 0) %d) }
""" % (nm, j + v["k1"], nm, nm, j + v["k1"])
            order = list(names)
            rng.shuffle(order)
            files["main.nano"] = "".join('import "%s.nano"\n' % nm for nm in order) + """
fn main() -> int {
    let mut acc: int = %d
""" % v["k2"] + "".join("    set acc (%s_f acc)\n" % nm for nm in names) + """    (println acc)
    return 0
}
shadow main { assert (== (main) 0) }
"""
        out.append(Prog("multi", "multi-%s-%d" % (shape, i), {k: d.encode() for k, d in files.items()}, "main.nano",
                        note=shape))
    return out


# ---- family: a `match` expression (its arm bindings are appended to the compiler's symbol table while the expression is
# being checked) in every statement position, behind k padding declarations.  The symbol table is a realloc'ed array that
# doubles when full, so for some k the arm bindings make it move exactly while the enclosing statement is being processed:
# any `Symbol *` the compiler kept across that point is stale, and what it reads then depends on what free() left behind
# (MALLOC_PERTURB_).  k is swept because the critical values depend on everything declared before.
SWEEP_MATCH_I = "(match r { Valid(v) => (* v.value scale), Missing(m) => 5, Stale(s) => 7 })"
SWEEP_MATCH_F = "(match r { Valid(v) => (* v.weight 2.0), Missing(m) => 0.5, Stale(s) => 0.25 })"
SWEEP_CONSTRUCTS = [
    ("set", "    set acc %(I)s\n"),
    ("push-float", "    set xs (array_push xs %(F)s)\n"),
    ("push-int", "    set ys (array_push ys %(I)s)\n"),
    # the same lowering outside a `set` statement (a defect of `set` itself must not hide one of array_push)
    ("push-float-in-let", "    let zs: array<float> = (array_push xs %(F)s)\n    set acc (array_length zs)\n"),
    ("push-int-in-let", "    let n2: int = (array_length (array_push ys %(I)s))\n    set acc n2\n"),
    ("let", "    let y: int = %(I)s\n    set acc y\n"),
    ("call-arg", "    set acc (helper %(I)s)\n"),
    ("array-set", "    (array_set ys 0 %(I)s)\n"),
    ("binop", "    set acc (+ acc %(I)s)\n"),
    ("if-cond", "    if (> %(I)s 3) {\n        set acc 1\n    }\n"),
    ("while-cond", "    while (< acc %(I)s) {\n        set acc (+ acc 1)\n    }\n"),
    ("println", "    (println %(I)s)\n"),
    ("match-stmt", "    match r {\n        Valid(v) => { set acc v.value }\n        Missing(m) => { set acc m.code }\n"
                   "        Stale(s) => { set acc s.age }\n    }\n"),
    ("set-float", "    set fsum (+ fsum %(F)s)\n"),
]
SWEEP_CFGS = ("baseline", "perturb-01", "perturb-a5", "perturb-ff")
SWEEP_CFGS_THOROUGH = ("baseline", "perturb-01", "perturb-55", "perturb-a5", "perturb-aa", "perturb-ff", "mmap-all", "arena-max")


def _sweep_programs(kmax, cfg_names, layouts=("first", "last")):
    """layout 'first': the function with the construct is the first one of the file (the critical table sizes are reached
    while it is type checked); 'last': it is the last item, so the table is at its high-water mark there in EVERY later
    phase too (shadow-test evaluation, transpilation), which is what a stale pointer in those phases needs."""
    out = []
    head = """union Reading {
    Valid { value: int, weight: float },
    Missing { code: int },
    Stale { age: int }
}

fn helper(n: int) -> int {
    return (+ n 1)
}
shadow helper { assert (== (helper 1) 2) }
"""
    mainfn = """
fn main() -> int {
    (println (collect Reading.Missing { code: 3 } 1))
    return 0
}
shadow main { assert (== (main) 0) }
"""
    for layout in layouts:
        for cname, body in SWEEP_CONSTRUCTS:
            for k in range(kmax + 1):
                pads = "".join("    let p%d: int = %d\n" % (i, i) for i in range(k))
                collect = """
fn collect(r: Reading, scale: int) -> int {
    let mut acc: int = 0
    let mut fsum: float = 0.0
    let mut xs: array<float> = []
    let mut ys: array<int> = []
    set ys (array_push ys 0)
    set ys (array_push ys 0)
%s%s    if (> fsum 100.0) {
        set acc (+ acc 1)
    }
    return (+ acc (+ (array_length xs) (at ys 0)))
}
""" % (pads, body % {"I": SWEEP_MATCH_I, "F": SWEEP_MATCH_F})
                shadow = """
shadow collect {
    assert (>= (collect Reading.Valid { value: 2, weight: 1.5 } 3) 0)
}
"""
                text = (head + collect + shadow + mainfn) if layout == "first" else (head + mainfn + collect)
                out.append(Prog("sweep", "sweep-%s-%s-k%02d" % (layout, cname, k), {"main.nano": text.encode()}, "main.nano",
                                note="match in %s position behind %d padding lets, function %s in the file" % (cname, k, layout),
                                cfg_names=cfg_names))
    return out


# ---- family: top-level immutable `let` initialised from a builtin that reads the environment of the COMPILER process when
# the initialiser is evaluated at compile time (cwd, TMPDIR)
IMPURE_CFGS = ("baseline", "repeat", "cwd-deep", "barename", "tmpdir", "relpath", "from-parent", "all-different")
# source of the environment-dependent value -> a bool expression whose truth differs between the baseline and at least one of
# IMPURE_CFGS (deep cwd / second TMPDIR / marker file only in the deep cwd), and a string expression
IMPURE_SOURCES = [
    ("getcwd", '(str_contains (getcwd) "deep00_")', "(getcwd)"),
    ("getenv", '(str_contains (getenv "TMPDIR") "second-and-longer")', '(getenv "TMPDIR")'),
    # (a bare (file_exists ..) as the whole initialiser is "undefined function" for the top-level checker: keep it nested)
    ("file_exists", '(== (b2i (file_exists "nlv_marker.txt")) 1)', None),
    ("time", "(> (% (time) 7) 2)", None),       # cannot be steered; a folded clock shows as a difference between repeats
]


def _impure_programs():
    """Grid {int, float, bool, string, array, struct} constant x {getcwd, getenv, file_exists, time} source; every program
    uses its constant in an expression, in a condition, as an argument and as a return value."""
    out = []
    prelude = """struct Box { n: int, flag: bool }

fn b2i(b: bool) -> int {
    if b {
        return 1
    } else {
        return 0
    }
}
shadow b2i { assert (== (b2i true) 1) }

fn b2f(b: bool) -> float {
    if b {
        return 1.5
    } else {
        return 0.25
    }
}
shadow b2f { assert (> (b2f true) 1.0) }

fn show_int(n: int) -> int {
    (println n)
    return n
}
shadow show_int { assert (== (show_int 1) 1) }
"""
    for sname, bexpr, sexpr in IMPURE_SOURCES:
        iexpr = "(str_length %s)" % sexpr if sexpr else "(b2i %s)" % bexpr
        cells = {
            "int": ("let K: int = %s" % iexpr, "K", "(> K 40)", "int"),
            "float": ("let K: float = (b2f %s)" % bexpr, "(cast_int K)", "(> K 1.0)", "float"),
            "bool": ("let K: bool = %s" % bexpr, "(b2i K)", "K", "bool"),
            "string": ("let K: string = %s" % (sexpr or '(int_to_string (b2i %s))' % bexpr), "(str_length K)",
                       "(> (str_length K) 40)", "string"),
            "array": ("let K: array<int> = [%s, 7]" % iexpr, "(at K 0)", "(> (at K 0) 40)", "array<int>"),
            "struct": ("let K: Box = Box { n: %s, flag: %s }" % (iexpr, bexpr), "K.n", "K.flag", "Box"),
        }
        for tname, (decl, as_int, as_cond, ctype) in cells.items():
            text = prelude + """
%(decl)s

fn use_in_expression() -> int {
    return (+ %(as_int)s 1)
}

fn use_in_condition() -> string {
    if %(as_cond)s {
        return "yes"
    } else {
        return "no"
    }
}

fn use_as_argument() -> int {
    return (show_int %(as_int)s)
}

fn use_returned() -> %(ctype)s {
    return K
}

fn main() -> int {
    (println (use_in_expression))
    (println (use_in_condition))
    (println (use_as_argument))
    let r: %(ctype)s = (use_returned)
    return 0
}
""" % dict(decl=decl, as_int=as_int, as_cond=as_cond, ctype=ctype)
            out.append(Prog("impure-const", "impure-const-%s-%s" % (sname, tname), {"main.nano": text.encode()}, "main.nano",
                            note=decl, cfg_names=IMPURE_CFGS))
    return out


# ---- family: projects in which the SAME module path exists in more than one search root (stdlib/, modules/, the project
# root itself, next to the importer) with distinguishable contents.  Which file an import resolves to must not depend on
# the working directory or on how the input path is spelled.
PROJECT_CFGS = ("baseline", "repeat", "cwd-deep", "barename", "dot-slash", "from-parent", "from-project-root", "relpath",
                "tmpdir", "all-different")


def _greeting(where, n):
    return ("""pub fn greeting() -> string {
    return "hello from %s"
}
pub fn magic() -> int {
    return %d
}
""" % (where, n)).encode()


def _project_programs(rng):
    out = []
    app = """import "%s"

fn main() -> int {
    (println (greeting))
    (println (magic))
    return 0
}
"""
    base = rng.randrange(10, 90)
    shapes = [
        # (name, main file, import string, {file: content})
        ("root-app", "app.nano", "std/greeting.nano",
         {"stdlib/std/greeting.nano": ("stdlib", 1), "modules/std/greeting.nano": ("modules", 2)}),
        ("examples-app", "examples/app.nano", "std/greeting.nano",
         {"stdlib/std/greeting.nano": ("stdlib", 1), "modules/std/greeting.nano": ("modules", 2)}),
        ("deep-app-three-roots", "apps/tools/app.nano", "std/greeting.nano",
         {"stdlib/std/greeting.nano": ("stdlib", 1), "modules/std/greeting.nano": ("modules", 2),
          "std/greeting.nano": ("project root", 3)}),
        ("deep3-app", "apps/a/b/app.nano", "std/greeting.nano",
         {"stdlib/std/greeting.nano": ("stdlib", 1), "modules/std/greeting.nano": ("modules", 2)}),
        ("modules-prefix", "app.nano", "modules/util/greeting.nano",
         {"stdlib/modules/util/greeting.nano": ("stdlib/modules", 1), "modules/modules/util/greeting.nano": ("modules/modules", 2),
          "modules/util/greeting.nano": ("modules", 3)}),
        ("sibling-vs-roots", "apps/app.nano", "std/greeting.nano",
         {"apps/std/greeting.nano": ("next to the importer", 4), "stdlib/std/greeting.nano": ("stdlib", 1),
          "modules/std/greeting.nano": ("modules", 2)}),
        ("examples-marker-only", "examples/app.nano", "std/greeting.nano",
         {"stdlib/std/greeting.nano": ("stdlib", 1), "std/greeting.nano": ("project root", 3)}),
        ("modules-and-root", "app.nano", "std/greeting.nano",
         {"modules/std/greeting.nano": ("modules", 2), "std/greeting.nano": ("project root", 3),
          "modules/.keep.nano": None}),
    ]
    for name, mainf, imp, mods in shapes:
        files = {mainf: (app % imp).encode()}
        for path, spec in mods.items():
            files[path] = b"# keeps the directory\n" if spec is None else _greeting(spec[0], base + spec[1])
        out.append(Prog("project", "project-" + name, files, mainf, note="import %s; copies in %s" % (
            imp, ", ".join(sorted(k for k, v in mods.items() if v))), cfg_names=PROJECT_CFGS))
    # transitive: the duplicated module is imported by a module
    files = {"app.nano": b'import "std/front.nano"\n\nfn main() -> int {\n    (println (front))\n    return 0\n}\n',
             "stdlib/std/front.nano": b'import "std/greeting.nano"\npub fn front() -> string {\n    return (greeting)\n}\n',
             "stdlib/std/greeting.nano": _greeting("stdlib", base + 1),
             "modules/std/greeting.nano": _greeting("modules", base + 2),
             "modules/other.nano": b"# root marker\n"}
    out.append(Prog("project", "project-transitive", files, "app.nano", note="std/front.nano imports the duplicated std/greeting.nano",
                    cfg_names=PROJECT_CFGS))
    return out


BAD_FUNCS = [
    ("unknown-identifier", "fn nlv_bad_%(n)d() -> int {\n    return (+ nlv_undefined_name_%(n)d 1)\n}\nshadow nlv_bad_%(n)d { assert true }\n"),
    ("type-mismatch-return", "fn nlv_bad_%(n)d() -> int {\n    return \"text %(n)d\"\n}\nshadow nlv_bad_%(n)d { assert true }\n"),
    ("type-mismatch-let", "fn nlv_bad_%(n)d() -> int {\n    let v: int = \"s%(n)d\"\n    return v\n}\nshadow nlv_bad_%(n)d { assert true }\n"),
    ("unknown-function", "fn nlv_bad_%(n)d() -> int {\n    return (nlv_no_such_fn_%(n)d 1 2)\n}\nshadow nlv_bad_%(n)d { assert true }\n"),
    ("immutable-assign", "fn nlv_bad_%(n)d() -> int {\n    let v: int = %(n)d\n    set v 2\n    return v\n}\nshadow nlv_bad_%(n)d { assert true }\n"),
    ("bad-operand", "fn nlv_bad_%(n)d() -> int {\n    return (+ 1 true)\n}\nshadow nlv_bad_%(n)d { assert true }\n"),
    ("missing-paren", "fn nlv_bad_%(n)d() -> int {\n    return (+ 1 (* 2 %(n)d)\n}\nshadow nlv_bad_%(n)d { assert true }\n"),
    ("unterminated-string", "fn nlv_bad_%(n)d() -> string {\n    return \"never closed %(n)d\n}\n"),
    ("missing-import", "import \"nlv_no_such_module_%(n)d.nano\"\n"),
    ("failing-shadow", "fn nlv_bad_%(n)d() -> int {\n    return %(n)d\n}\nshadow nlv_bad_%(n)d { assert (== (nlv_bad_%(n)d) -1) }\n"),
]


INPLACE_KINDS = ["inplace-rename-identifier", "inplace-int-to-string", "inplace-delete-paren", "inplace-type-annotation"]
BREAK_KINDS = [b[0] for b in BAD_FUNCS] + INPLACE_KINDS
KEYWORDS = ("return", "let", "mut", "set", "while", "for", "else", "assert", "true", "false", "int", "string", "bool",
            "float", "shadow", "and", "not", "println", "print", "void", "pub", "extern", "match", "cond", "import",
            "from", "module", "struct", "enum", "union", "array")


def _break(prog, rng, serial, label):
    """Take a valid program and break it (one injected fault of kind `label`). Returns a new Prog of kind 'ill'."""
    files = dict(prog.files)
    # the file to damage: for multi-module programs sometimes an imported module
    target = prog.main
    others = sorted(k for k in files if k != prog.main)
    if others and rng.random() < 0.5:
        target = rng.choice(others)
    text = files[target].decode("utf-8", "replace")
    if label not in INPLACE_KINDS:
        tmpl = dict(BAD_FUNCS)[label]
        snippet = tmpl % {"n": rng.randrange(10, 99)}
        if label == "missing-import" or rng.random() < 0.3:
            # in front (after leading import/module lines so that imports stay first)
            lines = text.split("\n")
            last_imp = -1
            for k, ln in enumerate(lines[:80]):
                if re.match(r"\s*(import|from|module)\b", ln):
                    last_imp = k
            at = last_imp + 1
            lines[at:at] = snippet.rstrip("\n").split("\n")
            text = "\n".join(lines)
        else:
            text = text.rstrip("\n") + "\n\n" + snippet
    elif label == "inplace-rename-identifier":
        cands = [m for m in re.finditer(r"(?<=[( ])([a-z][a-z0-9_]{2,})(?=[ )])", text) if m.group(1) not in KEYWORDS]
        if cands:
            m = rng.choice(cands)
            text = text[:m.start(1)] + "nlv_unknown_q%d" % rng.randrange(10, 99) + text[m.end(1):]
    elif label == "inplace-int-to-string":
        cands = list(re.finditer(r"(?<=[( ])(\d+)(?=[ )\n])", text))
        if cands:
            m = rng.choice(cands)
            text = text[:m.start(1)] + "\"nlv%s\"" % m.group(1) + text[m.end(1):]
    elif label == "inplace-delete-paren":
        cands = [m.start() for m in re.finditer(r"\)", text)]
        if cands:
            at = rng.choice(cands)
            text = text[:at] + text[at + 1:]
    else:
        cands = list(re.finditer(r": int\b", text))
        if cands:
            m = rng.choice(cands)
            text = text[:m.start()] + ": string" + text[m.end():]
    files[target] = text.encode("utf-8", "replace")
    p = Prog("ill", "ill-%d-%s-of-%s" % (serial, label, prog.name), files, prog.main, note="%s in %s" % (label, target))
    return p if p.hash != prog.hash else None


def _variant(prog, rng, serial):
    """A (most likely still valid) variant: one integer literal / string literal changed.  Gives more distinct
    valid programs than the repository ships."""
    files = dict(prog.files)
    text = files[prog.main].decode("utf-8", "replace")
    for _ in range(3):
        if rng.random() < 0.5:
            cands = list(re.finditer(r"(?<=[( ])(\d{1,6})(?=[ )\n])", text))
            if cands:
                m = rng.choice(cands)
                text = text[:m.start(1)] + str(int(m.group(1)) + rng.randrange(1, 7)) + text[m.end(1):]
        else:
            cands = list(re.finditer(r"\"([A-Za-z ,.!]{2,40})\"", text))
            if cands:
                m = rng.choice(cands)
                text = text[:m.start(1)] + m.group(1) + " v%d" % rng.randrange(100) + text[m.end(1):]
    files[prog.main] = text.encode("utf-8", "replace")
    p = Prog("variant", "variant-%d-of-%s" % (serial, prog.name), files, prog.main, note="literals changed")
    return p if p.hash != prog.hash else None


# project-relative imports are resolved by walking up from the input file / the cwd until a directory with
# `modules/` or `examples/` is found: such a program is not self-contained once copied, skip it up front.
PROJECT_IMPORT = re.compile(rb'^\s*(?:import|from|module)\s+"(?:examples|modules|src|src_nano|std|stdlib|tests)/', re.M)
SIBLING_IMPORT = re.compile(rb'^\s*(?:import|from|module)\s+"([^"/][^"]*\.nano)"', re.M)


def _repo_programs(rng, limit):
    srcs = corpus.repo_sources()
    rng.shuffle(srcs)
    out = []
    for s in srcs:
        if len(out) >= limit:
            break
        try:
            data = open(s, "rb").read()
        except OSError:
            continue
        if PROJECT_IMPORT.search(data):
            continue
        files = {os.path.basename(s): data}
        ok = True
        # sibling imports: copy the siblings too (one level is all the repository uses in these directories)
        todo = [(os.path.dirname(s), "", data)]
        seen = set()
        while todo and ok:
            d, prefix, dat = todo.pop()
            for m in SIBLING_IMPORT.finditer(dat):
                rel = m.group(1).decode("utf-8", "replace")
                if rel.startswith("./"):
                    rel = rel[2:]
                full = os.path.normpath(os.path.join(d, rel))
                key = os.path.normpath(os.path.join(prefix, rel))
                if key.startswith("..") or not os.path.isfile(full):
                    ok = False
                    break
                if key in seen:
                    continue
                seen.add(key)
                sd = open(full, "rb").read()
                if PROJECT_IMPORT.search(sd):
                    ok = False
                    break
                files[key] = sd
                todo.append((os.path.dirname(full), os.path.dirname(key), sd))
        if not ok:
            continue
        rel = os.path.relpath(s, build.REPO)
        out.append(Prog("multi-repo" if len(files) > 1 else "repo", rel, files, os.path.basename(s)))
    return out


def _witness_programs():
    """The committed witnesses of the known findings (findings/C19/<name>/main.nano + siblings) are always part of the
    workload."""
    out = []
    base = os.path.dirname(WITNESS_DIR)
    if not os.path.isdir(base):
        return out
    for d in sorted(os.listdir(base)):
        wd = os.path.join(base, d)
        if not os.path.isfile(os.path.join(wd, "main.nano")):
            continue
        files = {}
        for dp, dn, fn in os.walk(wd):
            for f in sorted(fn):
                if f.endswith(".nano"):
                    full = os.path.join(dp, f)
                    files[os.path.relpath(full, wd)] = open(full, "rb").read()
        out.append(Prog("multi", "findings/C19/" + d, files, "main.nano", note="witness"))
    return out


# ------------------------------------------------------------------------------------------------------------
# configurations
# ------------------------------------------------------------------------------------------------------------
class Cfg:
    __slots__ = ("name", "cwd", "inp", "tool", "tmp", "env", "prefix", "mtime", "pre")

    def __init__(self, name, cwd="c", inp="abs", tool="abs", tmp="t0", env=None, prefix=(), mtime=None, pre=None):
        self.name = name      # = the dimension that differs from the baseline
        self.cwd = cwd        # "c" (short) | "deep" | "src"
        self.inp = inp        # "abs" | "rel" (relative to cwd; bare file name when cwd == src)
        self.tool = tool      # "abs" | "rel" | "path" (looked up through $PATH, argv[0] without a slash)
        self.tmp = tmp        # "t0" | "t1"
        self.env = env or {}
        self.prefix = tuple(prefix)
        self.mtime = mtime
        # history of the output paths: None = they do not exist | "longer" / "shorter" = a stale file of another length is
        # there | "symlink" = the path is a symlink to a stale longer file | "bigger" = a BIGGER revision of the same
        # program was compiled to the same paths just before (edit/compile cycle in which the program shrinks)
        self.pre = pre


def _cwd(prog, cfg):
    """working directory of a configuration: "c" short scratch dir | "deep" >200 characters | "src" the directory of the
    main file | "proj" the top of the program's source tree | "root" the parent of that tree"""
    return {"c": os.path.join(prog.root, "c"), "deep": prog.deep, "src": os.path.dirname(prog.input),
            "proj": prog.src, "root": prog.root}[cfg.cwd]


def _unrelated_env(rng):
    e = {}
    while len(e) < 30:
        name = "ZQ" + "".join(rng.choice("ABCDEFGHIJKLMNOPQRSTUVWXYZ_") for _ in range(rng.randrange(4, 14)))
        e[name] = "".join(rng.choice("abcdefghijklmnopqrstuvwxyz0123456789/:=-_. ") for _ in range(rng.randrange(70, 130)))
    return e


def _configs(rng):
    env30 = _unrelated_env(rng)
    tcache_off = {"MALLOC_ARENA_MAX": "1", "GLIBC_TUNABLES": "glibc.malloc.tcache_count=0"}
    cfgs = [
        Cfg("baseline"),
        Cfg("repeat"),                                   # different pid and time only
        Cfg("mtime", mtime=978307200 + rng.randrange(10 ** 8)),
        Cfg("cwd-deep", cwd="deep"),
        Cfg("tmpdir", tmp=T1),
        Cfg("env30", env=env30),
        Cfg("relpath", inp="rel", tool="rel"),
        Cfg("barename", cwd="src", inp="rel"),
        Cfg("dot-slash", cwd="src", inp="dotrel"),       # ./main.nano
        Cfg("from-parent", cwd="root", inp="rel"),       # src/<...>/main.nano from the directory above the source tree
        Cfg("from-project-root", cwd="proj", inp="rel"), # <...>/main.nano from the top of the source tree
        Cfg("tool-via-PATH", tool="path"),
        Cfg("aslr-off", prefix=("setarch", "-R")),
        Cfg("perturb-01", env={"MALLOC_PERTURB_": "1"}),
        Cfg("perturb-55", env={"MALLOC_PERTURB_": "85"}),
        Cfg("perturb-a5", env={"MALLOC_PERTURB_": "165"}),
        Cfg("perturb-aa", env={"MALLOC_PERTURB_": "170"}),
        Cfg("perturb-ff", env={"MALLOC_PERTURB_": "255"}),
        Cfg("arena-max", env=tcache_off),
        Cfg("mmap-all", env={"MALLOC_MMAP_THRESHOLD_": "0", "MALLOC_TOP_PAD_": "0"}),
        Cfg("out-stale-longer", pre="longer"),
        Cfg("out-stale-shorter", pre="shorter"),
        Cfg("out-via-symlink", pre="symlink"),
        Cfg("out-after-bigger-program", pre="bigger"),
        Cfg("all-different", cwd="deep", inp="rel", tool="rel", tmp=T1, prefix=("setarch", "-R"),
            env=dict(env30, MALLOC_PERTURB_="85", MALLOC_ARENA_MAX="1"), mtime=1234567890),
    ]
    return cfgs


QUICK_ALWAYS = ("baseline", "repeat", "relpath", "all-different")


def _pick_configs(cfgs, tier_quick, k, idx):
    """Quick tier: baseline + k-1 others, always including the ones in QUICK_ALWAYS, the rest rotating with the program
    index so that every dimension is covered by many programs.  Thorough: all."""
    if not tier_quick or k >= len(cfgs):
        return list(cfgs)
    fixed = [c for c in cfgs if c.name in QUICK_ALWAYS]
    rest = [c for c in cfgs if c.name not in QUICK_ALWAYS]
    need = max(0, k - len(fixed))
    pick = [rest[(idx * need + j) % len(rest)] for j in range(need)]
    return fixed + pick


# ------------------------------------------------------------------------------------------------------------
# one compilation
# ------------------------------------------------------------------------------------------------------------
PATH_TOKEN = re.compile(r"[A-Za-z0-9_.+~\-]*/[A-Za-z0-9_.+~/\-]*")


class Obs:
    __slots__ = ("status", "sig", "timeout", "artifact", "sha", "diag", "raw", "cmd", "vg", "extra")

    def key(self):
        return (self.status, self.sha, self.diag)


def _normalise(text, cwd, prog, tmp, outdir, flv):
    """Replace the input path, cwd, temp dir, output dir and tool path (in whatever spelling) by placeholders."""
    roots = [(prog.src, "<SRC>"), (tmp, "<TMP>"), (outdir, "<OUT>"), (flv.root, "<TOOLROOT>"), (cwd, "<CWD>"),
             (prog.root, "<PROGROOT>")]

    def repl(m):
        tok = m.group(0)
        trail = ""
        while tok and tok[-1] in "./" and len(tok) > 1:
            trail = tok[-1] + trail
            tok = tok[:-1]
        full = os.path.normpath(os.path.join(cwd, tok))
        if not (tok.startswith("/") or tok.startswith("./") or tok.startswith("../") or os.path.lexists(full)):
            return m.group(0)             # "defined/imported", "and/or": words, not a path of this run
        for root, ph in roots:
            if full == root:
                return ph + trail
            if full.startswith(root + "/"):
                return ph + full[len(root):] + trail
        return m.group(0)

    t = PATH_TOKEN.sub(repl, text)
    t = t.replace("<SRC>/", "").replace("<TOOLROOT>/bin/", "")
    t = re.sub(r"nanoc_\d+_", "nanoc_<PID>_", t)
    # Elm-style headers `-- KIND ------- <file>` are padded to a fixed width, so the rule length is the path length
    t = re.sub(r"-{3,}", "---", t)
    t = re.sub(r"nanolang_module_[A-Za-z0-9]{6}", "nanolang_module_<RND>", t)
    return t


VG_KINDS = re.compile(r"^==\d+== (Syscall param \S+ (?:points to|contains) (?:uninitialised|unaddressable) byte\(s\)|"
                      r"Conditional jump or move depends on uninitialised value\(s\)|"
                      r"Use of uninitialised value of size \d+|Invalid read of size \d+|Invalid write of size \d+|"
                      r"Invalid free\(\).*|Mismatched free\(\).*|Source and destination overlap in \S+|"
                      r"Argument '\S+' of function \S+ has a fishy.*|Jump to the invalid address.*|"
                      r"Process terminating with default action of signal \d+.*|"
                      r"Stack overflow in thread.*)", re.M)
VG_OUTPUT_PARAM = re.compile(r"Syscall param (p?writev?(?:64)?2?|send(?:to|msg)?)\(\S+\) (?:points to|contains) uninitialised")


def _vg_errors(log, root):
    """[(headline, [in-repo function names of the first stack], block text)] from a memcheck log."""
    out = []
    blocks = re.split(r"(?m)^==\d+== \n", log)
    for b in blocks:
        m = VG_KINDS.search(b)
        if not m:
            continue
        funcs = []
        for fm in re.finditer(r"^==\d+==    (?:at|by) 0x[0-9A-F]+: (\S+) \(([^)]*)\)", b, re.M):
            where = fm.group(2)
            if where.startswith("in /") and root not in where:
                continue                      # system library without line info
            if re.match(r"(vg_replace_|write\.c|io(f|p)|fileops|genops|vfprintf|printf|fwrite|fclose|fflush|libc)", where):
                continue
            funcs.append(fm.group(1))
            if len(funcs) >= 3:
                break
        out.append((m.group(1), funcs, b[:3000]))
    return out


STALE = b"NLV-STALE-OUTPUT-OF-AN-EARLIER-BUILD\n"
HIST_EXTRA = "".join("""
fn nlv_hist_extra_%d(n: int) -> int {
    (println "nlv history padding %d: this function exists only in the bigger earlier revision")
    return (+ n %d)
}
shadow nlv_hist_extra_%d { assert (== (nlv_hist_extra_%d 1) %d) }
""" % (i, i, 1000 + i, i, i, 1001 + i) for i in range(8))


def _compile(flv, prog, cfg, tool, valgrind=False, base_len=0, flavor_san=False):
    cwd = _cwd(prog, cfg)
    tmp = os.path.join(prog.root, cfg.tmp)
    outdir = os.path.join(prog.root, "o", cfg.name + ("-vg" if valgrind else "") + ("-asan" if flavor_san else ""), tool)
    os.makedirs(outdir, exist_ok=True)
    exe = flv.nano_virt if tool == "nvm" else flv.nanoc
    env = {"PATH": "/usr/bin:/bin", "HOME": os.path.join(prog.root, "home"), "LANG": "C", "TMPDIR": tmp}
    if cfg.tool == "rel":
        exe_arg = os.path.relpath(exe, cwd)
    elif cfg.tool == "path":
        exe_arg = os.path.basename(exe)
        env["PATH"] = flv.bin + ":/usr/bin:/bin"
    else:
        exe_arg = exe
    inp = prog.input if cfg.inp == "abs" else os.path.relpath(prog.input, cwd)
    if cfg.inp == "dotrel" and not inp.startswith("."):
        inp = "./" + inp
    env.update(cfg.env)
    if cfg.mtime is not None:
        for rel in prog.files:
            os.utime(os.path.join(prog.src, rel), (cfg.mtime, cfg.mtime))
    genc = prog.input + ".genC"
    # every file the tool itself writes (path -> role); the first one is THE artifact
    if tool == "nvm":
        art = os.path.join(outdir, "x.nvm")
        cmd = [exe_arg, inp, "--emit-nvm", "-o", art]
        outs = [art]
    else:
        art = genc
        env["NANO_CC"] = "/bin/true"
        cmd = [exe_arg, inp, "-S", "-o", os.path.join(outdir, "out")]
        outs = [genc]
        if cfg.pre:
            # --keep-c makes nanoc write a second copy of the generated C itself (<output>.c): one more output path
            cmd.append("--keep-c")
            outs.append(os.path.join(outdir, "out.c"))
    for q in outs + [os.path.join(outdir, "out")]:
        if os.path.lexists(q):
            os.unlink(q)
    vlog = None
    if valgrind:
        vlog = os.path.join(outdir, "memcheck.log")
        cmd = ["valgrind", "--tool=memcheck", "--track-origins=yes", "--error-exitcode=95", "-q", "--vgdb=no",
               "--malloc-fill=0xA5", "--free-fill=0x5A", "--log-file=" + vlog] + cmd
    cmd = list(cfg.prefix) + cmd
    pre_note = ""
    if cfg.pre:
        stale_len = max(2 * base_len + 4096, 65536)
        stale = (STALE * (stale_len // len(STALE) + 1))[:stale_len]
        if cfg.pre == "bigger":
            # an earlier, bigger revision of the same program is compiled to the same output paths first
            mainp = prog.input
            orig = prog.files[prog.main]
            try:
                with open(mainp, "wb") as f:
                    f.write(orig.rstrip(b"\n") + b"\n" + HIST_EXTRA.encode())
                sh(cmd, cwd=cwd, env=env, merge_env=False, cpu=60, wall=600)
            finally:
                with open(mainp, "wb") as f:
                    f.write(orig)
            grown = [q for q in outs if os.path.exists(q) and os.path.getsize(q) > base_len]
            pre_note = "earlier bigger revision compiled first (%d of %d output files left behind longer)" % (len(grown), len(outs))
            for q in outs:
                if q not in grown:            # the bigger revision did not compile: fall back to a stale longer file
                    with open(q, "wb") as f:
                        f.write(stale)
        else:
            for q in outs:
                if cfg.pre == "symlink":
                    tgt = os.path.join(outdir, "stale-target-" + os.path.basename(q))
                    with open(tgt, "wb") as f:
                        f.write(stale)
                    os.symlink(tgt, q)
                else:
                    with open(q, "wb") as f:
                        f.write(stale if cfg.pre == "longer" else STALE[:10])
            pre_note = "output paths pre-populated: %s" % cfg.pre
    planted = {}
    for q in outs:
        if os.path.exists(q):
            with open(q, "rb") as f:
                planted[q] = hashlib.sha256(f.read()).digest()
    r = sh(cmd, cwd=cwd, env=env, merge_env=False, cpu=(VG_CPU if valgrind else 60), wall=(1800 if valgrind else 600),
           san=flavor_san)
    if r.rc in (126, 127) and not os.path.exists(exe):
        # the build cache entry was pruned under our feet (many builds going on): harness failure, not an observation
        raise RuntimeError("tool binary %s vanished during the run (build cache pruned?)" % exe)
    o = Obs()
    o.cmd = "cd %s && env -i %s %s" % (cwd, " ".join("%s='%s'" % kv for kv in sorted(env.items())), " ".join(cmd))
    if pre_note:
        o.cmd += "\n# before this command: " + pre_note
    o.status = r.status
    o.sig = r.sig
    o.timeout = bool(r.timeout or r.cpu_exceeded)
    o.artifact = None
    o.sha = None
    o.extra = None
    def read_out(q):
        if not os.path.exists(q):
            return None
        with open(q, "rb") as f:
            data = f.read()
        if r.status != 0 and planted.get(q) == hashlib.sha256(data).digest():
            return None                       # the tool failed and never touched the stale file we planted: no output
        return data

    o.artifact = read_out(art)
    if o.artifact is not None:
        o.sha = hashlib.sha256(o.artifact).hexdigest()
    if len(outs) > 1:
        o.extra = read_out(outs[1])
    for q in outs:                            # keep the scratch small; bytes are kept in memory only
        if os.path.lexists(q):
            os.unlink(q)
    o.raw = "--- stdout\n" + r.text() + "--- stderr\n" + r.errtext()
    o.diag = _normalise(o.raw, cwd, prog, tmp, outdir, flv)
    o.vg = None
    if valgrind:
        try:
            with open(vlog, "r", errors="replace") as f:
                o.vg = f.read()
        except OSError:
            o.vg = None
    return o


# ------------------------------------------------------------------------------------------------------------
# classification of a difference (the key of a violation is derived from its cause)
# ------------------------------------------------------------------------------------------------------------
MOD_COMMENT = re.compile(r"^/\* Module: (\w+) \(path: (.*), unsafe: (yes|no), has_ffi: (yes|no)\) \*/$")
MOD_PATH_FN = re.compile(r"^static inline const char\* ___module_path_(\w+)\(void\) \{$")
MOD_RETURN = re.compile(r'^    return "(.*)";$')


def _line_class(line):
    s = line.strip()
    if s.startswith("#"):
        return "preprocessor"
    if s.startswith("/*") or s.startswith("//") or s.startswith("*"):
        return "comment"
    if "/*" in s or "//" in s:
        return "code+comment"
    if '"' in s:
        return "string-literal"
    return "code"


GENC_CAUSES = ("module-path-embedded", "toplevel-let-folded-at-compile-time")
IMPURE_BUILTINS = ("getcwd", "getenv", "file_exists", "time")
TOPLEVEL_LET = re.compile(rb"(?m)^let\s+(?!mut\b)\w+\s*:\s*[\w<>]+\s*=\s*(.*)$")
NUM_LITERAL = re.compile(r"(?<![\w.])-?\d+(?:\.\d+)?(?:e[+-]?\d+)?(?:LL)?(?![\w.])|\b(?:true|false)\b")


def _impure_toplevel_lets(prog):
    """Names of environment-reading builtins called in the initialiser of a top-level immutable `let` of the program."""
    found = set()
    for data in prog.files.values():
        for m in TOPLEVEL_LET.finditer(data):
            for b in IMPURE_BUILTINS:
                if re.search(rb"\(\s*" + b.encode() + rb"\b", m.group(1)):
                    found.add(b)
    return found


def classify_genc_diff(a, b, same_file, impure=None):
    """a, b: bytes of two generated C files.  same_file(pa, pb) -> True when the two path spellings denote the same
    module file.  impure: environment-reading builtins used in top-level immutable lets of the program.
    Returns (key_suffix, description)."""
    la = a.decode("utf-8", "replace").split("\n")
    lb = b.decode("utf-8", "replace").split("\n")
    if len(la) != len(lb):
        k = 0
        while k < min(len(la), len(lb)) and la[k] == lb[k]:
            k += 1
        first = la[k] if k < len(la) else (lb[k] if k < len(lb) else "")
        return ("other-diff|line-count|" + _line_class(first),
                "line counts differ (%d vs %d); first difference at line %d:\n< %s\n> %s" % (
                    len(la), len(lb), k + 1, la[k][:300] if k < len(la) else "<eof>", lb[k][:300] if k < len(lb) else "<eof>"))
    modpath = 0
    folded = []
    for i, (x, y) in enumerate(zip(la, lb)):
        if x == y:
            continue
        ok = False
        mx, my = MOD_COMMENT.match(x), MOD_COMMENT.match(y)
        if mx and my and mx.group(1, 3, 4) == my.group(1, 3, 4) and same_file(mx.group(2), my.group(2)):
            ok = True
        else:
            rx, ry = MOD_RETURN.match(x), MOD_RETURN.match(y)
            if rx and ry and i > 0 and la[i - 1] == lb[i - 1] and MOD_PATH_FN.match(la[i - 1]) and \
                    same_file(rx.group(1), ry.group(1)):
                ok = True
        if ok:
            modpath += 1
            continue
        if mx and my and mx.group(1) == my.group(1):
            return ("import-resolved-to-a-different-file", "line %d: module %s was loaded from different files:\n< %s\n> %s" % (
                i + 1, mx.group(1), mx.group(2), my.group(2)))
        if impure and '"' not in x and NUM_LITERAL.sub("N", x) == NUM_LITERAL.sub("N", y):
            folded.append((i + 1, x.strip(), y.strip()))     # the lines differ only in a numeric / boolean literal
            continue
        return ("other-diff|" + _line_class(x), "line %d differs:\n< %s\n> %s" % (i + 1, x[:400], y[:400]))
    if folded:
        return ("toplevel-let-folded-at-compile-time|" + "+".join(sorted(impure)),
                "%d line(s) differ only in a numeric literal, and the program initialises a top-level immutable `let` from %s: "
                "the initialiser was evaluated by the compiler and its value inlined, e.g. line %d: %s  vs  %s" % (
                    len(folded), "/".join(sorted(impure)), folded[0][0], folded[0][1][:120], folded[0][2][:120]))
    return ("module-path-embedded", "%d line(s) differ, all of them the spelling of an imported module's path "
            "(/* Module: .. (path: ..) */ and ___module_path_<m>())" % modpath)


ASAN_HEAD = re.compile(r"ERROR: (AddressSanitizer|UndefinedBehaviorSanitizer): ([\w-]+)")
ASAN_FRAME = re.compile(r"^\s+#\d+ 0x[0-9a-f]+ in (\S+) (\S+)", re.M)


def _asan_key(text):
    """(key, report) for the first AddressSanitizer error in `text`: kind, access, the first three in-repo frames of the
    access stack and the first two in-repo frames of the free/allocation stack (line numbers stripped)."""
    m = ASAN_HEAD.search(text)
    if not m:
        m2 = re.search(r"^(\S+:\d+:\d+): runtime error: (.*)$", text, re.M)
        if not m2:
            return None
        return ("ubsan|" + re.sub(r"\d+", "N", m2.group(2))[:60] + "|" + re.sub(r":\d+:\d+$", "", m2.group(1).split("/")[-1]),
                text[m2.start():m2.start() + 3000])
    rep = text[m.start():m.start() + 6000]
    parts = re.split(r"(?m)^(?:freed by thread .*|previously allocated by thread .*|allocated by thread .*)$", rep)

    def frames(block, n):
        out = []
        for fm in ASAN_FRAME.finditer(block):
            if "src/" in fm.group(2) and not fm.group(2).startswith("../"):
                out.append(fm.group(1))
                if len(out) >= n:
                    break
        return out
    acc = re.search(r"^(READ|WRITE) of size (\d+)", rep, re.M)
    key = "asan|%s|%s|%s" % (m.group(2), (acc.group(1) + acc.group(2)) if acc else "-", ">".join(frames(parts[0], 3)) or "?")
    if len(parts) > 1:
        key += "|then:" + (">".join(frames(parts[1], 2)) or "?")
    return key, rep


NVM_SECTION_NAMES = {1: "code", 2: "strings", 3: "functions", 4: "structs", 5: "enums", 6: "unions", 7: "globals",
                     8: "imports", 9: "debug", 10: "metadata"}      # only used to name the place of a difference


def _nvm_region(data, off):
    """Name of the part of an .nvm file that contains byte `off` (header field / directory / section / gap)."""
    if off < 32:
        return "header." + {0: "magic", 1: "version", 2: "flags", 3: "entry", 4: "nsections", 5: "strpool-off",
                            6: "strpool-len", 7: "crc"}[off // 4]
    try:
        n = int.from_bytes(data[16:20], "little")
        if n > 64:
            return "body"
        if off < 32 + 12 * n:
            return "directory"
        for i in range(n):
            e = data[32 + 12 * i: 44 + 12 * i]
            typ, o, sz = (int.from_bytes(e[k:k + 4], "little") for k in (0, 4, 8))
            if o <= off < o + sz:
                return "section." + NVM_SECTION_NAMES.get(typ, "type%d" % typ)
        return "gap-between-sections"
    except Exception:
        return "body"


def _nvm_parse(data):
    """(sections {type: bytes}, order [(type, size)], strings [bytes], import module-name indices) of an .nvm file."""
    n = int.from_bytes(data[16:20], "little")
    if n > 64 or 32 + 12 * n > len(data):
        raise ValueError("bad directory")
    secs, order = {}, []
    for i in range(n):
        e = data[32 + 12 * i: 44 + 12 * i]
        typ, off, sz = (int.from_bytes(e[k:k + 4], "little") for k in (0, 4, 8))
        if off + sz > len(data) or typ in secs:
            raise ValueError("bad section")
        secs[typ] = data[off:off + sz]
        order.append((typ, sz))
    strings = []
    sp = secs.get(2, b"")
    pos = 0
    while pos + 4 <= len(sp):
        ln = int.from_bytes(sp[pos:pos + 4], "little")
        pos += 4
        if pos + ln > len(sp):
            raise ValueError("bad string pool")
        strings.append(sp[pos:pos + ln])
        pos += ln
    mod_idx = set()
    imp = secs.get(8, b"")
    pos = 0
    while pos + 11 <= len(imp):
        mod_idx.add(int.from_bytes(imp[pos:pos + 4], "little"))
        pc = int.from_bytes(imp[pos + 8:pos + 10], "little")
        pos += 11 + pc
    return secs, order, strings, mod_idx


def classify_nvm_diff(a, b, same_file=None, is_direct=None):
    """a, b: bytes of two .nvm files.  When the ONLY difference is the spelling of the module name of import-table entries
    (string pool entries referenced as module_name_idx) and both spellings denote the same module file of the program
    (same_file), the cause is 'extern-module-path-embedded' (+ whether main imports that module directly).  Anything else is
    named after the part of the file that holds the first differing byte."""
    if same_file is not None:
        try:
            sa, oa, stra, ma = _nvm_parse(a)
            sb, ob, strb, mb = _nvm_parse(b)
            same_rest = (a[4:20] == b[4:20] and [t for t, _ in oa] == [t for t, _ in ob] and ma == mb and
                         all(sa[t] == sb[t] for t in sa if t != 2) and len(stra) == len(strb))
            if same_rest:
                diff_idx = [i for i in range(len(stra)) if stra[i] != strb[i]]
                if diff_idx and all(i in ma for i in diff_idx):
                    pairs = [(stra[i].decode("utf-8", "replace"), strb[i].decode("utf-8", "replace")) for i in diff_idx]
                    if all(same_file(x, y) for x, y in pairs):
                        direct = [bool(is_direct and is_direct(x)) for x, _ in pairs]
                        how = "direct-import" if all(direct) else "transitive-import" if not any(direct) else "direct+transitive-import"
                        return ("extern-module-path-embedded|" + how,
                                "the files differ only in %d string pool entr%s used as the module name of import-table entries "
                                "(extern fns of an imported module): %s" % (len(pairs), "y" if len(pairs) == 1 else "ies",
                                                                          "; ".join("%r vs %r" % p for p in pairs[:3])))
        except Exception:
            pass
    if len(a) != len(b):
        return "size", "sizes differ: %d vs %d bytes" % (len(a), len(b))
    diffs = [i for i in range(len(a)) if a[i] != b[i]]
    # the CRC (header bytes 28..31) covers everything behind the header: name the first difference that is not the CRC
    body = [i for i in diffs if not 28 <= i < 32] or diffs
    k = body[0]
    where = _nvm_region(a, k)
    return where, "%d byte(s) differ, first (apart from the CRC) at offset %d in %s (0x%02x vs 0x%02x) of %d" % (
        len(diffs), k, where, a[k], b[k], len(a))


def classify_diag_diff(a, b):
    la, lb = a.split("\n"), b.split("\n")
    k = 0
    while k < min(len(la), len(lb)) and la[k] == lb[k]:
        k += 1
    x = la[k] if k < len(la) else "<eof>"
    y = lb[k] if k < len(lb) else "<eof>"
    # class: the differing line with everything variable squeezed out
    cls = re.sub(r"[0-9]+", "N", x)[:60]
    cls = re.sub(r"[^A-Za-z N:_-]", "", cls).strip()
    return cls or "text", "first differing line (%d):\n< %s\n> %s" % (k + 1, x[:400], y[:400])


# ------------------------------------------------------------------------------------------------------------
# per-program job
# ------------------------------------------------------------------------------------------------------------
def _job(arg):
    flv, prog, cfgs, do_vg, vg_cfg = arg
    res = {"prog": prog, "obs": {}, "vg": {}, "error": None, "vgcfg": vg_cfg.name}
    try:
        try:
            os.utime(flv.root)                # keep the cache entry young: build._prune removes the oldest ones
        except OSError:
            pass
        for cfg in cfgs:
            for tool in TOOLS:
                b = res["obs"].get(("baseline", tool))
                res["obs"][(cfg.name, tool)] = _compile(flv, prog, cfg, tool,
                                                        base_len=len(b.artifact) if b is not None and b.artifact else 0)
        if do_vg:
            for tool in TOOLS:
                res["vg"][tool] = _compile(flv, prog, vg_cfg, tool, valgrind=True)
    except Exception as ex:                                   # harness problem: reported as inconclusive by run()
        res["error"] = "%s: %s" % (type(ex).__name__, ex)
    return res


def _controls(ctx, flv, sc):
    """Positive/negative controls of the levers the verdict relies on (a dead lever must be inconclusive)."""
    # ASLR lever
    a = sh(["setarch", "-R", "cat", "/proc/self/maps"], cpu=5).text()
    b = sh(["setarch", "-R", "cat", "/proc/self/maps"], cpu=5).text()
    c = sh(["cat", "/proc/self/maps"], cpu=5).text()
    d = sh(["cat", "/proc/self/maps"], cpu=5).text()
    ctx.require(a and a == b, "setarch -R does not give a fixed address space layout here")
    aslr_on = (c != d)
    # memcheck oracle: a tiny C program that writes uninitialised heap bytes to a file must be flagged, its
    # initialised twin must not
    csrc = sc.file("ctl/ctl.c", "#include <stdio.h>\n#include <stdlib.h>\n#include <string.h>\n"
                   "int main(int c, char **v) { char *p = malloc(64); if (c > 2) memset(p, 1, 64); else memset(p, 1, 60);\n"
                   " FILE *f = fopen(v[1], \"wb\"); fwrite(p, 1, 64, f); fclose(f); if (p[c] == 7) puts(\"x\"); return 0; }\n")
    exe = os.path.join(os.path.dirname(csrc), "ctl")
    tenv = {"TMPDIR": os.path.dirname(csrc)}
    r = sh(["gcc", "-g", "-O0", "-o", exe, csrc], cpu=60, env=tenv)
    ctx.require(r.rc == 0, "cannot build the memcheck control program: " + r.errtext()[-300:])
    got = []
    for extra in ([], ["init"]):
        log = os.path.join(os.path.dirname(csrc), "ctl%d.log" % len(extra))
        r = sh(["valgrind", "--tool=memcheck", "--track-origins=yes", "--error-exitcode=95", "-q", "--vgdb=no",
                "--malloc-fill=0xA5", "--free-fill=0x5A", "--log-file=" + log, exe, os.path.join(os.path.dirname(csrc), "out.bin")] + extra, cpu=120, env=tenv)
        txt = open(log, errors="replace").read() if os.path.exists(log) else ""
        errs = _vg_errors(txt, os.path.dirname(csrc))
        got.append((r.rc, [e[0] for e in errs if VG_OUTPUT_PARAM.search(e[0])]))
    ctx.require(got[0][0] == 95 and got[0][1], "memcheck control: uninitialised bytes written to a file were NOT reported (%r)" % (got,))
    ctx.require(got[1][0] == 0 and not got[1][1], "memcheck control: initialised twin was reported (%r)" % (got,))
    return {"aslr_randomises_by_default": aslr_on, "setarch_R_fixed_layout": True,
            "memcheck_positive_control": got[0][1][0], "memcheck_negative_control": "clean"}


def run(ctx):
    flv = build.get("plain")
    quick = ctx.quick()
    with Scratch("c19") as sc:
        controls = _controls(ctx, flv, sc)
        cfgs = _configs(ctx.rng("configs"))
        by_name = {c.name: c for c in cfgs}
        n_cfg = len(cfgs)        # a compilation costs 20-60 ms: even the quick tier affords the whole matrix

        # ---- programs ------------------------------------------------------------------------------------
        rng = ctx.rng("programs")
        n_total = ctx.n(74, 600)
        n_multi = ctx.n(11, 44)         # >= one of every shape in the quick tier
        n_ill = ctx.n(21, 180)          # >= one of every BREAK_KINDS entry in the quick tier
        progs = []
        progs.extend(_witness_programs())
        progs.extend(_multi_module_programs(rng, n_multi))
        for item in extra_sources(ctx, sc):
            if isinstance(item, tuple):
                d, main = item
                files = {}
                for dp, dn, fn in os.walk(d):
                    for f in fn:
                        if f.endswith(".nano"):
                            full = os.path.join(dp, f)
                            files[os.path.relpath(full, d)] = open(full, "rb").read()
                progs.append(Prog("extra-multi", os.path.basename(d) + "/" + main, files, main))
            else:
                progs.append(Prog("extra", os.path.basename(item), {os.path.basename(item): open(item, "rb").read()},
                                  os.path.basename(item)))
        repo = _repo_programs(rng, 10 ** 6)
        n_repo = max(0, n_total - len(progs) - n_ill) if quick else len(repo)
        progs.extend(repo[:n_repo])
        seen = set()
        pbase = sc.sub("p")
        # memcheck configuration rotates over the path/cwd shaped ones (memory-layout levers do not apply under valgrind)
        vg_rot = ["baseline", "relpath", "cwd-deep", "tmpdir", "env30"]
        n_vg = ctx.n(40, 600)
        counter = [0]

        def phase(plist, n_vg_here):
            uniq = []
            for p in plist:
                if p.hash not in seen:
                    seen.add(p.hash)
                    uniq.append(p)
            n_vg_here = min(n_vg_here, len(uniq))
            vg_set = set(int(k * len(uniq) / n_vg_here) for k in range(n_vg_here)) if n_vg_here else set()
            jobs = []
            for j, p in enumerate(uniq):
                i = counter[0]
                counter[0] += 1
                p.materialise(pbase, i)
                p.cfgs = ([c for c in cfgs if c.name == "baseline" or c.name in p.cfg_names] if p.cfg_names
                          else _pick_configs(cfgs, quick, n_cfg, i))
                jobs.append((flv, p, p.cfgs, j in vg_set, by_name[vg_rot[i % len(vg_rot)]]))
            return pmap(_job, jobs, workers=NCPU)

        # phase 1: the programs as they are
        share1 = max(1, int(round(n_vg * len(progs) / float(max(n_total, len(progs))))))
        results = phase(progs, share1)

        # phase 2: "take valid programs and break them": ill-formed programs (every fault kind in turn) and valid variants
        # (literals changed) derived from small programs that BOTH tools accepted in phase 1
        pool = []
        for res in results:
            if res["error"] is None and not any(o.timeout for o in res["obs"].values()) and \
                    all(res["obs"][("baseline", t)].status == 0 and res["obs"][("baseline", t)].sha for t in TOOLS) and \
                    sum(len(v) for v in res["prog"].files.values()) < 12000:
                pool.append(res["prog"])
        ctx.require(len(pool) >= 8, "too few accepted small programs to derive ill-formed ones from (%d)" % len(pool))
        pool_multi = [p for p in pool if len(p.files) > 1]
        second = []
        serial = 0
        tries = 0
        kind0 = rng.randrange(len(BREAK_KINDS))
        while len(second) < n_ill and tries < n_ill * 6:
            tries += 1
            src_pool = pool_multi if (pool_multi and tries % 3 == 0) else pool
            q = _break(src_pool[rng.randrange(len(src_pool))], rng, serial, BREAK_KINDS[(kind0 + serial) % len(BREAK_KINDS)])
            if q is not None and q.hash not in seen:
                second.append(q)
                serial += 1
        tries = 0
        while len(progs) + len(second) < n_total and tries < n_total * 3:
            tries += 1
            q = _variant(pool[rng.randrange(len(pool))], rng, serial)
            if q is not None and q.hash not in seen and all(q.hash != x.hash for x in second[-50:]):
                second.append(q)
                serial += 1
        results = results + phase(second, max(0, n_vg - share1))

        # phase 3: the two constructed families (reduced configuration sets, no memcheck: asan names a cause when they differ)
        fam = _sweep_programs(ctx.n(40, 70), SWEEP_CFGS if quick else SWEEP_CFGS_THOROUGH,
                              ("first",) if quick else ("first", "last")) + _impure_programs() + \
            _project_programs(ctx.rng("projects"))
        results = results + phase(fam, 0)

        # ---- verdicts -------------------------------------------------------------------------------------
        st = dict(programs=0, accepted_nvm=0, accepted_genC=0, rejected_nvm=0, rejected_genC=0, dropped_timeout=0,
                  compilations=0, pairs=0, pairs_equal=0, artifact_pairs=0, diag_only_pairs=0,
                  memcheck_runs=0, memcheck_inconclusive=0, memcheck_clean=0)
        per_dim = {}
        kinds = {}
        vg_kinds = {}
        vg_sites = {}
        distinct = set()
        samples = []
        crashes = {}
        diag_kinds = {}
        vg_example = {}
        fam_acc = {}

        def same_file_fn(prog, cwd_a, cwd_b):
            def same(pa, pb):
                fa = os.path.normpath(os.path.join(cwd_a, pa))
                fb = os.path.normpath(os.path.join(cwd_b, pb))
                return fa == fb and fa.startswith(prog.src + "/") and os.path.isfile(fa)
            return same

        def is_direct_fn(prog, cwd_a):
            """is the module file spelled `path` (relative to cwd_a) imported by the main file itself?"""
            direct = set()
            for m in SIBLING_IMPORT.finditer(prog.files[prog.main]):
                rel = m.group(1).decode("utf-8", "replace")
                direct.add(os.path.normpath(os.path.join(prog.src, os.path.dirname(prog.main), rel)))

            def is_direct(path):
                return os.path.normpath(os.path.join(cwd_a, path)) in direct
            return is_direct

        def cwd_of(prog, cfg):
            return _cwd(prog, cfg)

        asan_cache = {}
        asan_stats = {"diagnoses": 0, "reports": 0}

        def asan_diagnose(prog, tool):
            """Re-run one tool on one program with the asan flavor (baseline configuration).  Returns (key, report) when
            AddressSanitizer names a memory error, else None.  Only used to NAME the cause of an observed difference."""
            k = (prog.hash, tool)
            if k not in asan_cache:
                asan_cache[k] = None
                try:
                    aflv = build.get("asan")
                    o = _compile(aflv, prog, by_name["baseline"], tool, flavor_san=True)
                    asan_stats["diagnoses"] += 1
                    asan_cache[k] = _asan_key(o.raw)
                    if asan_cache[k]:
                        asan_stats["reports"] += 1
                except Exception as ex:       # no asan build: the difference is still reported, under its generic key
                    ctx.note("asan diagnosis unavailable: %s" % ex)
            return asan_cache[k]

        def viol(key, what, files, prog, tool, cfg, path_cause=False):
            """Report a difference.  For the memory-layout dimensions the asan flavor is asked for the cause first: a
            heap-use-after-free / overflow / uninitialised read in the compiler gets a key made of the error kind and its
            call sites, so that the same defect has ONE key whatever program / perturbation exposed it."""
            mem_dim = bool(cfg.prefix) or any(e.startswith(("MALLOC_", "GLIBC_")) for e in cfg.env) or cfg.name.startswith("memcheck")
            if mem_dim and not path_cause:
                d = asan_diagnose(prog, tool)
                if d:
                    files = dict(files)
                    files["asan_report_%s.txt" % tool] = d[1]
                    what = "%s\n[observed as: %s]\nAddressSanitizer (asan flavor, same program, baseline configuration):\n%s" % (
                        what, key, "\n".join(d[1].splitlines()[:14]))
                    key = d[0]
            return ctx.violation(key, what, files)

        def srcfiles(prog):
            return {"src/" + k: v for k, v in prog.files.items()}

        for res in results:
            prog = res["prog"]
            ctx.require(res["error"] is None, "harness failure on %s: %s" % (prog.name, res["error"]))
            obs = res["obs"]
            if any(o.timeout for o in obs.values()):
                st["dropped_timeout"] += 1
                continue
            st["programs"] += 1
            kinds[prog.kind] = kinds.get(prog.kind, 0) + 1
            st["compilations"] += len(obs)
            for tool in TOOLS:
                base = obs[("baseline", tool)]
                acc = base.status == 0 and base.sha is not None
                st[("accepted_" if acc else "rejected_") + tool] += 1
                if prog.kind in ("impure-const", "project", "sweep"):
                    fa = fam_acc.setdefault(prog.kind, {"nvm": 0, "genC": 0, "programs": 0, "rejected": []})
                    if tool == TOOLS[0]:
                        fa["programs"] += 1
                    if acc:
                        fa[tool] += 1
                    elif len(fa["rejected"]) < 12:
                        fa["rejected"].append("%s:%s" % (prog.name, tool))
                if not acc:
                    for dm in re.finditer(r"(?m)^(?:-- ([A-Z][A-Z ]+) -|((?:Error|Warning|error|Lexing|Parsing)[^:\n]{0,40})[:\n])", base.diag):
                        dk = dm.group(1) or re.sub(r"\d+", "N", dm.group(2)).strip()
                        diag_kinds[dk] = diag_kinds.get(dk, 0) + 1
                if base.sig:
                    crashes["%s:signal %d" % (tool, base.sig)] = crashes.get("%s:signal %d" % (tool, base.sig), 0) + 1
                for cfg in prog.cfgs:
                    if cfg.name == "baseline":
                        continue
                    o = obs[(cfg.name, tool)]
                    st["pairs"] += 1
                    pd = per_dim.setdefault(cfg.name, {"pairs": 0, "equal": 0, "programs": set()})
                    pd["pairs"] += 1
                    pd["programs"].add(prog.hash)
                    nontrivial = (base.sha is not None or o.sha is not None or len(base.diag) > 40)
                    if nontrivial:
                        distinct.add((prog.hash, cfg.name))
                    if base.sha is not None and o.sha is not None:
                        st["artifact_pairs"] += 1
                    else:
                        st["diag_only_pairs"] += 1
                    equal = True
                    common = dict(srcfiles(prog))
                    common["cmd_baseline.txt"] = base.cmd + "\n"
                    common["cmd_%s.txt" % cfg.name] = o.cmd + "\n"
                    if base.status != o.status:
                        equal = False
                        f = dict(common)
                        f["diag_baseline.txt"] = base.raw
                        f["diag_%s.txt" % cfg.name] = o.raw
                        skey = "status|%s|%s|%s->%s" % (tool, cfg.name, base.status, o.status)
                        cause = False
                        um = re.search(r"Module file '([^']+)' not found|Failed to resolve module path '([^']+)'", o.raw)
                        if um and base.status == 0 and cfg.inp != "abs":
                            # an import that resolves with the absolute spelling does not with this relative one: name the
                            # cause by how far above the working directory the top of the source tree is
                            up = os.path.relpath(prog.src, cwd_of(prog, cfg)).split("/")
                            levels = len(up) if all(u == ".." for u in up) else 0
                            skey = "resolve|import-not-found-with-relative-input|source-tree-top-%s-levels-above-cwd" % (
                                "3+" if levels >= 3 else str(levels))
                            cause = True
                        viol(skey, "%s: exit status of %s differs between baseline (%s) and configuration '%s' (%s)%s"
                             % (prog.name, tool, base.status, cfg.name, o.status,
                                ": " + um.group(0) if um else ""), f, prog, tool, cfg, path_cause=cause)
                    elif base.sha != o.sha:
                        equal = False
                        f = dict(common)
                        if base.artifact is not None:
                            f["baseline." + tool] = base.artifact
                        if o.artifact is not None:
                            f["%s.%s" % (cfg.name, tool)] = o.artifact
                        if base.artifact is None or o.artifact is None:
                            viol("%s|%s|artifact-missing" % (tool, cfg.name),
                                 "%s: %s output file exists in only one of baseline / '%s'" % (prog.name, tool, cfg.name), f,
                                 prog, tool, cfg)
                        elif tool == "genC":
                            suffix, desc = classify_genc_diff(base.artifact, o.artifact,
                                                              same_file_fn(prog, cwd_of(prog, by_name["baseline"]), cwd_of(prog, cfg)),
                                                              _impure_toplevel_lets(prog) if (cfg.cwd != "c" or cfg.tmp != "t0") else set())
                            cause = suffix.split("|")[0] in GENC_CAUSES
                            key = "genC|" + suffix if cause else "genC|%s|%s" % (suffix, cfg.name)
                            viol(key, "%s (%s): generated C differs between baseline and configuration '%s': %s"
                                 % (prog.name, prog.kind, cfg.name, desc), f, prog, tool, cfg, path_cause=cause)
                        else:
                            where, desc = classify_nvm_diff(base.artifact, o.artifact,
                                                            same_file_fn(prog, cwd_of(prog, by_name["baseline"]), cwd_of(prog, cfg)),
                                                            is_direct_fn(prog, cwd_of(prog, by_name["baseline"])))
                            cause = where.startswith("extern-module-path-embedded|")
                            key = "nvm|" + where if cause else "nvm|%s|%s" % (where, cfg.name)
                            viol(key, "%s (%s): .nvm differs between baseline and configuration '%s': %s"
                                 % (prog.name, prog.kind, cfg.name, desc), f, prog, tool, cfg, path_cause=cause)
                    # diagnostics: only meaningful when neither run was killed by a signal (buffered stdout is lost)
                    if base.status == o.status and not base.sig and not o.sig and base.diag != o.diag:
                        equal = False
                        cls, desc = classify_diag_diff(base.diag, o.diag)
                        f = dict(common)
                        f["diag_baseline.raw.txt"] = base.raw
                        f["diag_%s.raw.txt" % cfg.name] = o.raw
                        f["diag_baseline.normalised.txt"] = base.diag
                        f["diag_%s.normalised.txt" % cfg.name] = o.diag
                        viol("diag|%s|%s|%s" % (tool, cfg.name, cls),
                             "%s (%s): normalised diagnostics of %s differ between baseline and '%s': %s"
                             % (prog.name, prog.kind, tool, cfg.name, desc), f, prog, tool, cfg)
                    # nanoc --keep-c (history configurations): the second copy of the generated C must be the same bytes
                    if o.extra is not None and o.artifact is not None and o.extra != o.artifact:
                        equal = False
                        f = dict(common)
                        f["%s.genC" % cfg.name] = o.artifact
                        f["%s.keep-c.c" % cfg.name] = o.extra
                        suffix, desc = classify_genc_diff(o.artifact, o.extra, lambda x, y: False, set())
                        ctx.violation("genC|keep-c-copy-differs|%s|%s" % (suffix, cfg.name),
                                      "%s (%s): in configuration '%s' the file written by --keep-c differs from <input>.genC of the "
                                      "same run: %s" % (prog.name, prog.kind, cfg.name, desc), f)
                    if equal:
                        st["pairs_equal"] += 1
                        pd["equal"] += 1
            # ---- memcheck ----
            for tool, o in res["vg"].items():
                base = obs[("baseline", tool)]
                st["memcheck_runs"] += 1
                if o.timeout or o.vg is None or (o.status not in (base.status, 95)):
                    st["memcheck_inconclusive"] += 1
                    continue
                errs = _vg_errors(o.vg, flv.root)
                if not errs:
                    st["memcheck_clean"] += 1
                for head, funcs, block in errs:
                    hk = re.sub(r"\d+", "N", head)
                    vg_kinds[hk] = vg_kinds.get(hk, 0) + 1
                    site = "%s|%s|%s" % (tool, hk, ">".join(funcs) or "?")
                    vg_sites[site] = vg_sites.get(site, 0) + 1
                    vg_example.setdefault(site, prog.name)
                    if VG_OUTPUT_PARAM.search(head):
                        f = srcfiles(prog)
                        f["memcheck.log"] = o.vg
                        f["cmd.txt"] = o.cmd + "\n"
                        ctx.violation("memcheck|%s|%s|%s" % (tool, re.sub(r" (points to|contains).*", "", head), ">".join(funcs) or "?"),
                                      "%s (%s): uninitialised bytes reach an output of %s: %s\n%s"
                                      % (prog.name, prog.kind, tool, head, block[:1500]), f)
                # the memcheck run is one more memory layout: its outputs must equal the baseline's as well
                if o.status in (base.status, 95) and (o.sha != base.sha):
                    vcfg = by_name[res["vgcfg"]]
                    f = srcfiles(prog)
                    f["memcheck.log"] = o.vg
                    f["cmd.txt"] = o.cmd + "\n"
                    if base.artifact is not None:
                        f["baseline." + tool] = base.artifact
                    if o.artifact is not None:
                        f["memcheck." + tool] = o.artifact
                    kinds_seen = ",".join(sorted(set(re.sub(r"\d+", "N", e[0]) for e in errs))) or "no-report"
                    suffix, desc = "artifact-missing", "output file exists in only one of the two runs"
                    if base.artifact is not None and o.artifact is not None:
                        if tool == "genC":
                            suffix, desc = classify_genc_diff(base.artifact, o.artifact,
                                                              same_file_fn(prog, cwd_of(prog, by_name["baseline"]), cwd_of(prog, vcfg)),
                                                              _impure_toplevel_lets(prog) if (vcfg.cwd != "c" or vcfg.tmp != "t0") else set())
                        else:
                            suffix, desc = classify_nvm_diff(base.artifact, o.artifact,
                                                             same_file_fn(prog, cwd_of(prog, by_name["baseline"]), cwd_of(prog, vcfg)),
                                                             is_direct_fn(prog, cwd_of(prog, by_name["baseline"])))
                    if tool == "genC" and suffix.split("|")[0] in GENC_CAUSES:
                        key = "genC|" + suffix
                    elif tool == "nvm" and suffix.startswith("extern-module-path-embedded|"):
                        key = "nvm|" + suffix
                    else:
                        key = "%s|under-memcheck|%s|%s" % (tool, suffix, kinds_seen)
                    ctx.violation(key, "%s (%s): %s output under valgrind (configuration '%s', malloc-fill 0xA5) differs from the "
                                  "baseline's: %s; memcheck reports: %s" % (prog.name, prog.kind, tool, vcfg.name, desc,
                                                                            [e[0] for e in errs][:5]), f)
            if sum(1 for x in samples if x["kind"] == prog.kind) < 2:
                b1, b2 = obs[("baseline", "nvm")], obs[("baseline", "genC")]
                samples.append({"program": prog.name, "kind": prog.kind, "note": prog.note, "hash": prog.hash,
                                "configurations": [c.name for c in prog.cfgs],
                                "nvm_sha256": b1.sha, "nvm_status": b1.status, "genC_sha256": b2.sha, "genC_status": b2.status,
                                "memcheck": sorted(res["vg"].keys())})

        # ---- enough observed? -----------------------------------------------------------------------------
        ctx.require(st["programs"] >= ctx.n(30, 200), "too few programs completed (%d)" % st["programs"])
        ctx.require(st["accepted_nvm"] >= ctx.n(10, 60) and st["accepted_genC"] >= ctx.n(10, 60),
                    "too few accepted programs (nvm %d, genC %d)" % (st["accepted_nvm"], st["accepted_genC"]))
        ctx.require(st["rejected_nvm"] + st["rejected_genC"] >= ctx.n(6, 60), "too few ill-formed programs with diagnostics")
        ctx.require(kinds.get("multi", 0) >= 3, "too few multi-module programs")
        # the constructed families only mean something when the compilers accept them
        for fk, tool, frac in (("project", "nvm", 1.0), ("project", "genC", 1.0), ("impure-const", "genC", 0.75),
                               ("sweep", "genC", 0.9), ("sweep", "nvm", 0.9)):
            fa = fam_acc.get(fk, {"programs": 0, tool: 0, "rejected": []})
            ctx.require(fa["programs"] > 0 and fa[tool] >= frac * fa["programs"],
                        "family '%s': only %d of %d programs accepted by %s (%s)" % (fk, fa[tool], fa["programs"], tool, fa["rejected"][:6]))
        ctx.require(len(diag_kinds) >= ctx.n(6, 10), "too few distinct kinds of diagnostics observed (%s)" % sorted(diag_kinds))
        ctx.require(st["memcheck_runs"] - st["memcheck_inconclusive"] >= ctx.n(40, 400),
                    "too few conclusive memcheck runs (%d of %d)" % (st["memcheck_runs"] - st["memcheck_inconclusive"], st["memcheck_runs"]))
        missing = [c.name for c in cfgs if c.name != "baseline" and per_dim.get(c.name, {}).get("pairs", 0) < 4]
        ctx.require(not missing, "configuration dimensions hardly exercised: %s" % missing)

        cov = {
            "evaluations": st["pairs"] + st["memcheck_runs"],
            "distinct_nontrivial": len(distinct),
            "rule": "distinct (program content hash, configuration dimension) pairs compared against the baseline in which at "
                    "least one of the two runs produced an output file or more than 40 bytes of diagnostics; each such pair is "
                    "compared for both tools (nano_virt --emit-nvm, nanoc -S), so evaluations ~ 2 x distinct + memcheck runs",
            "programs": st["programs"],
            "programs_by_kind": kinds,
            "configurations": [c.name for c in cfgs],
            "configurations_per_program": n_cfg if quick else len(cfgs),
            "per_dimension": {k: {"pairs": v["pairs"], "equal": v["equal"], "programs": len(v["programs"])} for k, v in sorted(per_dim.items())},
            "counts": st,
            "baseline_crashes": crashes,
            "family_acceptance": fam_acc,
            "diagnostic_kinds_of_rejected_programs": dict(sorted(diag_kinds.items(), key=lambda kv: -kv[1])[:40]),
            "memcheck_error_kinds": vg_kinds,
            "memcheck_error_sites": dict(sorted(vg_sites.items(), key=lambda kv: -kv[1])[:25]),
            "memcheck_error_site_example_program": {k: vg_example[k] for k, _ in sorted(vg_sites.items(), key=lambda kv: -kv[1])[:25]},
            "controls": controls,
            "samples": samples,
        }
        return ctx.finish(cov, assumptions=[
            "`nanoc -S` with NANO_CC=/bin/true writes the same <input>.genC it would hand to the C compiler (checked: the file "
            "is written before the compiler command is assembled)",
            "diagnostics are compared after replacing every path-like token that resolves (relative to the run's cwd) into the "
            "source directory, cwd, TMPDIR, output directory or tool directory by a placeholder, and nanoc's nanoc_<pid>_ temp name",
            "memcheck observes the plain flavor (-g, no optimisation) with --malloc-fill/--free-fill; a clean run says nothing about "
            "paths the program set does not drive",
            "programs are self-contained copies (files with project-relative imports such as \"modules/..\" are excluded: their "
            "resolution walks up the directory tree / uses the cwd by design)",
        ])
