"""C07 - prefix and infix notation denote the same program (DESIGN §4 C07).

E: two spellings of one expression tree whose `nano_virt --emit-nvm` modules differ in the CODE section, the
   function table or the string pool, or one of which is rejected, or whose runs print something else than the
   value of the tree in the reference semantics (int64 wrap, truncating division, left-to-right).
O: this file generates typed expression TREES, prints each tree fully parenthesised-prefix and infix, embeds both in
   the same skeleton (one function per tree; the variables / struct / tuple the tree uses are declared in that
   function), compiles both files with the real nano_virt and compares the sections byte-wise (codegen emits no line
   information: no OP_DEBUG_LINE, no debug section - checked on every module: a DEBUG section or the DEBUG flag
   would make the run inconclusive), then runs both and compares the output with the value computed here.
   Infix printing discipline (DESIGN §4 C07): `a op1 b op2 c` without parentheses for a left comb, parentheses
   around an operand that is itself a binary operation; binary operators always surrounded by spaces (the lexer
   folds `-1` into one token); unary `-x` / `not x` bare, except (1) as the first token of a parenthesised group,
   where the prefix form `(- x)` / `(not x)` is used (`(not a or b)` is by definition prefix `not` with three
   arguments), and (2) unary `-` directly as an argument of a call, where `(f a -x)` would be the juxtaposition
   `a - x` - also written `(- x)`; unary minus is never applied to a literal (`-5` is one token in both spellings);
   a lone variable / field access is never parenthesised (`(x)` is a call).
W: exhaustive: every type-correct typing of every operator PAIR (depth 2) and TRIPLE (depth 3) x {left comb,
   right-nested with parentheses} (+ the three mixed triple shapes) x one-factor coverage of the operand kinds
   {literal, variable, field access, tuple index, parenthesised call, unary} at every leaf position; random trees up
   to depth 12; left combs / right nesting / unary chains up to the parser's nesting limit (measured by bisection).
Known (findings/C07): a field access / tuple index standing to the right of an infix operator or behind a bare unary
   operator is applied to the whole expression parsed so far (`1 + p.x` = `(1 + p).x`).  Trees that contain such a
   position are compiled in batches of their own; their disagreement is reported under the cause keys, and the same
   trees with exactly those operands bound to a local first (`let q0: int = p.x`) go through the normal oracle.
"""
import itertools
import os
import re
import struct

from .. import build
from ..core import VERIF, Inconclusive
from ..gen.ref import wrap, tdiv, tmod, I64_MIN
from ..run import run as sh, pmap, Scratch

LEVEL = "exploration"
FIND = os.path.join(VERIF, "findings", "C07")
K_BLOCK = "variant-before-block|if-condition-ends-with-enum-variant"
ENDS_WITH_VARIANT = re.compile(r"(^|[ (])Color\.[A-Z]\w*$")

ARITH = ["+", "-", "*", "/", "%"]
ORD = ["<", "<=", ">", ">="]
EQ = ["==", "!="]
LOGIC = ["and", "or"]
ALL_OPS = ARITH + EQ + ORD + LOGIC          # the 13 binary operators
KINDS = ["lit", "var", "field", "tidx", "call", "un", "cfield", "nfield", "ctidx", "sfield", "enum", "at", "ucall"]
# operand kinds: literal, variable, field access p.x, tuple index t.0, parenthesised call (f a b), unary-applied operand,
# field of a call result (mk 3).y, nested field o.p.x, tuple index of a call result (mk2 1).3, field of a struct literal
# P { .. }.x, enum variant Color.Red, array read (at arr 1), call taking a union construction (uv U1.V0 { a0: 3 })
AVAIL = {"int": ["lit", "var", "field", "tidx", "call", "un", "cfield", "nfield", "ctidx", "sfield", "at", "ucall"],
         # (a tuple index on a CALL RESULT is only used with int components: the type checker types `(mk2 1).2` as int
         #  whatever the component is - in either spelling, so it is not a notation matter)
         "bool": ["lit", "var", "field", "tidx", "call", "un", "cfield", "nfield", "sfield"],
         "string": ["lit", "var", "field", "tidx", "call", "cfield", "nfield", "sfield"],
         "Color": ["var", "enum", "call"]}


def sigs(op):
    if op == "+":
        return [("int", "int", "int"), ("string", "string", "string")]
    if op in ARITH:
        return [("int", "int", "int")]
    if op in ORD:
        return [("int", "int", "bool")]
    if op in EQ:
        return [("int", "int", "bool"), ("bool", "bool", "bool"), ("string", "string", "bool"), ("Color", "Color", "bool")]
    return [("bool", "bool", "bool")]


# ---- the fixed environment of every skeleton function ------------------------------------------------
VARS = {"a": ("int", 7), "b": ("int", -3), "d": ("int", 12), "c": ("bool", True), "e": ("bool", False),
        "s": ("string", "ab"), "u": ("string", "")}
FIELDS = {"x": ("int", 5), "y": ("int", -8), "b": ("bool", True), "s": ("string", "pq")}
OP_FIELDS = {"x": 6, "y": -2, "b": False, "s": "no"}          # o.p
TUPLE = [("int", 11), ("bool", False), ("string", "tu"), ("int", -4)]
ARR = [4, 5, 6]
COLORS = ["Red", "Green", "Blue"]
COL = "Green"
FUNCS = {"f2": (["int", "int"], "int"), "g1": (["int"], "bool"), "h1": (["string"], "string"), "k0": ([], "int"),
         "g2": (["bool", "int"], "int"), "b2": (["bool", "bool"], "bool"),
         "pick": (["int"], "Color"), "samec": (["Color", "Color"], "bool")}
SPECIAL_FUNCS = {"at": "int", "uv": "int"}          # built by make_leaf only
LITS = {"int": [0, 1, 2, 3, 5, 10, -1, -2, -7, 100], "bool": [True, False], "string": ["", "a", "xy", "ab", "q r"]}

HEADER = """struct P { x: int, y: int, b: bool, s: string }
struct O { p: P, k: int }
enum Color { Red = 0, Green = 1, Blue = 2 }
union U1 {
    V0 { a0: int },
    V1 { a1: string }
}
fn mk(n: int) -> P {
    return P { x: n, y: (* n 2), b: (> n 2), s: "m" }
}
fn mk2(n: int) -> (int, bool, string, int) {
    return (n, (> n 2), "k", (- 0 n))
}
fn uv(w: U1) -> int {
    match w {
        V0(m) => { return m.a0 },
        V1(m) => { return 0 }
    }
}
fn pick(n: int) -> Color {
    if (> n 1) {
        return Color.Blue
    } else {
        return Color.Red
    }
}
fn samec(c1: Color, c2: Color) -> bool {
    return (== c1 c2)
}
fn f2(m: int, n: int) -> int {
    return (+ (* m 3) n)
}
fn g1(m: int) -> bool {
    return (> m 2)
}
fn h1(z: string) -> string {
    return (+ z "!")
}
fn k0() -> int {
    return 42
}
fn g2(q: bool, m: int) -> int {
    if q {
        return m
    } else {
        return (- 0 m)
    }
}
fn b2(q: bool, w: bool) -> bool {
    return (!= q w)
}
"""


def call_value(name, args):
    if name == "f2":
        return wrap(wrap(args[0] * 3) + args[1])
    if name == "g1":
        return args[0] > 2
    if name == "h1":
        return args[0] + "!"
    if name == "k0":
        return 42
    if name == "g2":
        return args[1] if args[0] else wrap(0 - args[1])
    if name == "b2":
        return args[0] != args[1]
    if name == "mk":
        return {"x": args[0], "y": wrap(args[0] * 2), "b": args[0] > 2, "s": "m"}
    if name == "mk2":
        return [args[0], args[0] > 2, "k", wrap(0 - args[0])]
    if name == "at":
        return args[0][args[1]]
    if name == "uv":
        return args[0]
    if name == "pick":
        return ("E", "Blue") if args[0] > 1 else ("E", "Red")
    if name == "samec":
        return args[0] == args[1]
    raise ValueError(name)


class Undefined(Exception):
    pass


def ev(e, env=None):
    k = e[0]
    if k in ("int", "bool", "str"):
        return e[1]
    if k == "var":
        if env and e[1] in env:
            return env[e[1]]
        n = e[1]
        if n == "p":
            return dict((f, v) for f, (t, v) in FIELDS.items())
        if n == "o":
            return {"p": dict(OP_FIELDS), "k": 9}
        if n == "t":
            return [v for t, v in TUPLE]
        if n == "arr":
            return list(ARR)
        if n == "col":
            return ("E", COL)
        return VARS[n][1]
    if k == "field":
        return ev(e[1], env)[e[2]]
    if k == "tidx":
        return ev(e[1], env)[e[2]]
    if k == "structlit":
        return {"x": e[1], "y": e[2], "b": e[3], "s": e[4]}
    if k == "enumv":
        return ("E", e[2])
    if k == "unionlit":
        return e[1]
    if k == "call":
        return call_value(e[1], [ev(a, env) for a in e[2]])
    if k == "un":
        v = ev(e[2], env)
        return (not v) if e[1] == "not" else wrap(-v)
    op = e[1]
    a = ev(e[2], env)
    b = ev(e[3], env)          # eager: every sub-expression must be defined (the VM's and/or are a known finding of C02)
    if op == "and":
        return a and b
    if op == "or":
        return a or b
    if op == "+":
        return a + b if isinstance(a, str) else wrap(a + b)
    if op == "-":
        return wrap(a - b)
    if op == "*":
        return wrap(a * b)
    if op in ("/", "%"):
        if b == 0 or (a == I64_MIN and b == -1):
            raise Undefined()
        return tdiv(a, b) if op == "/" else tmod(a, b)
    if op == "==":
        return a == b
    if op == "!=":
        return a != b
    if op == "<":
        return a < b
    if op == "<=":
        return a <= b
    if op == ">":
        return a > b
    return a >= b


def fmt(v):
    if v is True:
        return "true"
    if v is False:
        return "false"
    return str(v)


def leaf_type(e):
    k = e[0]
    if k == "int":
        return "int"
    if k == "bool":
        return "bool"
    if k == "str":
        return "string"
    if k == "var":
        if e[1] == "col":
            return "Color"
        return VARS[e[1]][0] if e[1] in VARS else None
    if k == "field":
        return FIELDS[e[2]][0]
    if k == "tidx":
        return TUPLE[e[2]][0]
    if k == "enumv":
        return "Color"
    if k == "call":
        return SPECIAL_FUNCS[e[1]] if e[1] in SPECIAL_FUNCS else FUNCS[e[1]][1]
    raise ValueError(k)


def leaf_kind(e):
    """operand kind of a leaf (see KINDS)"""
    k = e[0]
    if k in ("int", "bool", "str"):
        return "lit"
    if k == "field":
        b = e[1][0]
        return {"var": "field", "field": "nfield", "call": "cfield", "structlit": "sfield"}[b]
    if k == "tidx":
        return "tidx" if e[1][0] == "var" else "ctidx"
    if k == "enumv":
        return "enum"
    if k == "call":
        return {"at": "at", "uv": "ucall"}.get(e[1], "call")
    return k


POSTFIX_CLASS = {"field": "field", "nfield": "nested-field", "cfield": "field-of-call", "sfield": "field-of-struct-literal",
                 "tidx": "tuple-index", "ctidx": "tuple-index-of-call", "enum": "enum-variant"}


def strlit(s):
    return '"' + s.replace("\\", "\\\\").replace('"', '\\"') + '"'


def atom(e):
    k = e[0]
    if k == "int":
        return str(e[1])
    if k == "bool":
        return "true" if e[1] else "false"
    if k == "str":
        return strlit(e[1])
    if k == "var":
        return e[1]
    if k == "field":
        return "%s.%s" % (atom(e[1]), e[2])
    if k == "tidx":
        return "%s.%d" % (atom(e[1]), e[2])
    if k == "call":
        # the base of a postfix form: (mk 3) / (mk2 a) - its argument is an atom, printed alike in both spellings
        return "(" + " ".join([e[1]] + [atom(a) for a in e[2]]) + ")"
    if k == "structlit":
        return "P { x: %d, y: %d, b: %s, s: %s }" % (e[1], e[2], "true" if e[3] else "false", strlit(e[4]))
    if k == "enumv":
        return "%s.%s" % (e[1], e[2])
    if k == "unionlit":
        return "U1.V0 { a0: %d }" % e[1]
    raise ValueError(k)


# =====================================================================================================
# the two printers
# =====================================================================================================
def prefix(e):
    k = e[0]
    if k == "bin":
        return "(%s %s %s)" % (e[1], prefix(e[2]), prefix(e[3]))
    if k == "un":
        return "(%s %s)" % ("-" if e[1] == "neg" else "not", prefix(e[2]))
    if k == "call":
        return "(" + " ".join([e[1]] + [prefix(a) for a in e[2]]) + ")"
    return atom(e)


class Infix:
    """infix printer; records the cause classes of the known finding it had to print, and can bind exactly those
    operands to locals instead (substitute=True)"""

    def __init__(self, substitute=False):
        self.classes = set()
        self.substitute = substitute
        self.binds = []          # (name, type, leaf)

    def top(self, e):
        if e[0] == "bin":
            return self.chain(e, False)
        return self.operand(e, False, "top")

    def chain(self, e, first):
        a = e[2]
        left = self.chain(a, first) if a[0] == "bin" else self.operand(a, first, "left")
        return "%s %s %s" % (left, e[1], self.operand(e[3], False, "right"))

    def operand(self, e, first, ctx):
        k = e[0]
        if k == "bin":
            return "(" + self.chain(e, True) + ")"
        if k == "un":
            neg = e[1] == "neg"
            sym = "-" if neg else "not"
            if first or (ctx == "arg" and neg):
                return "(%s %s)" % (sym, self.operand(e[2], False, "arg"))
            inner = self.operand(e[2], False, "unary")
            return sym + inner if neg else sym + " " + inner
        if k == "call":
            return "(" + " ".join([e[1]] + [self.operand(a, False, "arg") for a in e[2]]) + ")"
        if k in ("field", "tidx", "enumv") and ctx in ("right", "unary"):
            if self.substitute:
                name = "q%d" % len(self.binds)
                self.binds.append((name, leaf_type(e), e))
                return name
            self.classes.add("postfix-after-%s|%s" % ("infix" if ctx == "right" else "unary", POSTFIX_CLASS[leaf_kind(e)]))
        return atom(e)


def substituted(e):
    """the tree with the operands at the known-finding positions replaced by fresh locals; (tree, binds)"""
    binds = []

    def chain(x, first):
        a = x[2]
        left = chain(a, first) if a[0] == "bin" else operand(a, first, "left")
        return ("bin", x[1], left, operand(x[3], False, "right"))

    def operand(x, first, ctx):
        k = x[0]
        if k == "bin":
            return chain(x, True)
        if k == "un":
            if first or (ctx == "arg" and x[1] == "neg"):
                return ("un", x[1], operand(x[2], False, "arg"))
            return ("un", x[1], operand(x[2], False, "unary"))
        if k == "call":
            return ("call", x[1], [operand(a, False, "arg") for a in x[2]])
        if k in ("field", "tidx", "enumv") and ctx in ("right", "unary"):
            name = "q%d" % len(binds)
            binds.append((name, leaf_type(x), x))
            return ("var", name)
        return x
    t = chain(e, False) if e[0] == "bin" else operand(e, False, "top")
    return t, binds


def used_names(e, out):
    k = e[0]
    if k == "var":
        out.add(e[1])
    elif k in ("field", "tidx"):
        used_names(e[1], out)
    elif k == "bin":
        used_names(e[2], out)
        used_names(e[3], out)
    elif k == "un":
        used_names(e[2], out)
    elif k == "call":
        for a in e[2]:
            used_names(a, out)
    return out


def tree_type(e):
    k = e[0]
    if k == "bin":
        lt = tree_type(e[2])
        for l, r, res in sigs(e[1]):
            if l == lt:
                return res
        raise ValueError(e)
    if k == "un":
        return "int" if e[1] == "neg" else "bool"
    return leaf_type(e)


class Tree:
    """one test item: tree, context, optional bindings (substituted variant)"""

    def __init__(self, tree, ctx="let", binds=(), origin=""):
        if not in_discipline(tree):
            raise ValueError("unary minus applied to a literal")
        self.tree = tree
        self.ctx = ctx
        self.binds = list(binds)
        self.origin = origin
        self.qt = dict((n, t) for n, t, _ in self.binds)
        self.type = self._type(tree)
        env = dict((n, ev(l)) for n, t, l in self.binds)
        self.value = ev(tree, env)
        pr = Infix()
        self.infix = pr.top(tree)
        self.classes = frozenset(pr.classes)
        self.prefix = prefix(tree)

    def _type(self, e):
        k = e[0]
        if k == "var" and e[1] in self.qt:
            return self.qt[e[1]]
        if k == "bin":
            lt = self._type(e[2])
            for l, r, res in sigs(e[1]):
                if l == lt:
                    return res
            raise ValueError(e)
        if k == "un":
            return "int" if e[1] == "neg" else "bool"
        return leaf_type(e)

    def function(self, name, spelling):
        text = self.prefix if spelling == "prefix" else self.infix
        used = used_names(self.tree, set())
        for n, t, l in self.binds:
            used_names(l, used)
        out = ["fn %s() -> %s {" % (name, self.type)]
        for v in sorted(VARS):
            if v in used:
                t, val = VARS[v]
                out.append("    let %s: %s = %s" % (v, t, strlit(val) if t == "string" else fmt(val)))
        if "p" in used:
            out.append("    let p: P = P { x: %d, y: %d, b: %s, s: %s }" % (FIELDS["x"][1], FIELDS["y"][1], fmt(FIELDS["b"][1]), strlit(FIELDS["s"][1])))
        if "t" in used:
            out.append("    let t: (int, bool, string, int) = (%d, %s, %s, %d)" % (TUPLE[0][1], fmt(TUPLE[1][1]), strlit(TUPLE[2][1]), TUPLE[3][1]))
        if "o" in used:
            out.append("    let o: O = O { p: P { x: %d, y: %d, b: %s, s: %s }, k: 9 }" % (OP_FIELDS["x"], OP_FIELDS["y"], fmt(OP_FIELDS["b"]), strlit(OP_FIELDS["s"])))
        if "arr" in used:
            out.append("    let arr: array<int> = [%s]" % ", ".join(str(v) for v in ARR))
        if "col" in used:
            out.append("    let col: Color = Color.%s" % COL)
        for n, t, l in self.binds:
            out.append("    let %s: %s = %s" % (n, t, atom(l)))
        c = self.ctx
        if c == "if" and self.type != "bool":
            c = "let"
        if c == "let":
            out += ["    let r: %s = %s" % (self.type, text), "    return r"]
        elif c == "return":
            out.append("    return %s" % text)
        elif c == "set":
            init = {"int": "0", "bool": "false", "string": '""'}[self.type]
            out += ["    let mut r: %s = %s" % (self.type, init), "    set r %s" % text, "    return r"]
        elif c == "if":
            out += ["    if %s {" % text, "        return true", "    } else {", "        return false", "    }"]
        else:
            raise ValueError(c)
        out.append("}")
        return "\n".join(out)

    def key(self):
        return shape_key(self.tree)


def shape_key(e):
    ops = []
    kinds = []

    def walk(x):
        k = x[0]
        if k == "bin":
            ops.append(x[1])
            return "(" + walk(x[2]) + walk(x[3]) + ")"
        if k == "un":
            kinds.append("un:" + inner_kind(x[2]))
            if x[2][0] in ("bin", "un", "call"):
                walk_inner(x[2])
            return "."
        kinds.append(inner_kind(x))
        if k == "call":
            walk_inner(x)
        return "."

    def walk_inner(x):
        # operators below a unary / inside call arguments count into the operator tuple as well
        k = x[0]
        if k == "bin":
            ops.append(x[1])
            walk_inner(x[2])
            walk_inner(x[3])
        elif k == "un":
            walk_inner(x[2])
        elif k == "call":
            for a in x[2]:
                walk_inner(a)

    def inner_kind(x):
        k = x[0]
        return leaf_kind(x)
    shape = walk(e)
    return (tuple(ops), shape, tuple(kinds))


def program(items, spelling):
    out = [HEADER]
    for i, t in enumerate(items):
        out.append(t.function("w%d" % i, spelling))
    out.append("fn main() -> int {")
    for i, t in enumerate(items):
        out.append("    (println (w%d))" % i)
    out.append("    return 0")
    out.append("}")
    return "\n".join(out) + "\n"


# =====================================================================================================
# tree generation
# =====================================================================================================
def make_leaf(r, ty, kind, depth_for_args=0):
    """a leaf of the given operand kind and type; None when the kind does not exist for the type"""
    if kind not in AVAIL[ty]:
        return None
    if kind == "lit":
        v = r.choice(LITS[ty])
        return ("int", v) if ty == "int" else ("bool", v) if ty == "bool" else ("str", v)
    if kind == "var":
        if ty == "Color":
            return ("var", "col")
        return ("var", r.choice(sorted(n for n, (t, _) in VARS.items() if t == ty)))
    if kind in ("cfield", "nfield", "sfield"):
        f = r.choice(sorted(n for n, (t, _) in FIELDS.items() if t == ty))
        if kind == "nfield":
            return ("field", ("field", ("var", "o"), "p"), f)
        if kind == "cfield":
            return ("field", ("call", "mk", [r.choice([("int", 1), ("int", 3), ("int", -4), ("var", "a"), ("var", "b")])]), f)
        return ("field", ("structlit", r.choice([1, 4, -6]), r.choice([2, -9, 13]), r.random() < 0.5, r.choice(["z", "", "lit"])), f)
    if kind == "ctidx":
        return ("tidx", ("call", "mk2", [r.choice([("int", 1), ("int", 5), ("int", -2), ("var", "a"), ("var", "d")])]),
                r.choice([i for i, (t, _) in enumerate(TUPLE) if t == ty]))
    if kind == "enum":
        return ("enumv", "Color", r.choice(COLORS))
    if kind == "at":
        return ("call", "at", [("var", "arr"), ("int", r.randrange(len(ARR)))])
    if kind == "ucall":
        return ("call", "uv", [("unionlit", r.choice([3, -1, 12, 0]))])
    if kind == "field":
        return ("field", ("var", "p"), r.choice(sorted(n for n, (t, _) in FIELDS.items() if t == ty)))
    if kind == "tidx":
        return ("tidx", ("var", "t"), r.choice([i for i, (t, _) in enumerate(TUPLE) if t == ty]))
    if kind == "call":
        name = r.choice(sorted(n for n, (ps, rt) in FUNCS.items() if rt == ty))
        args = []
        for pt in FUNCS[name][0]:
            if depth_for_args > 0 and r.random() < 0.6:
                args.append(random_tree(r, pt, depth_for_args - 1))
            else:
                args.append(make_leaf(r, pt, r.choice([k for k in AVAIL[pt] if k not in ("un", "call", "ucall")])))
        return ("call", name, args)
    if kind == "un":
        if ty == "string":
            return None
        inner = make_leaf(r, ty, r.choice([k for k in AVAIL[ty] if k not in ("lit", "un")]))
        return ("un", "neg" if ty == "int" else "not", inner)
    raise ValueError(kind)


def random_tree(r, ty, depth):
    if depth <= 0 or ty == "Color" or r.random() < 0.18:
        k = r.choice(AVAIL[ty])
        leaf = make_leaf(r, ty, k, depth_for_args=min(depth, 2))
        return leaf if leaf is not None else make_leaf(r, ty, "var")
    x = r.random()
    if x < 0.14 and ty != "string":
        inner = random_tree(r, ty, depth - 1)
        if inner[0] == "int":
            inner = make_leaf(r, ty, "var")
        return ("un", "neg" if ty == "int" else "not", inner)
    ops = [(op, l, rr) for op in ALL_OPS for l, rr, res in sigs(op) if res == ty]
    op, lt, rt = r.choice(ops)
    # lean left or right now and then so that long combs and deep right nesting both occur
    lean = r.random()
    dl = depth - 1 if lean < 0.75 else r.randint(0, max(0, depth - 2))
    dr = depth - 1 if lean > 0.4 else r.randint(0, max(0, depth - 2))
    return ("bin", op, random_tree(r, lt, dl), random_tree(r, rt, dr))


def size(e):
    k = e[0]
    if k == "bin":
        return 1 + size(e[2]) + size(e[3])
    if k == "un":
        return 1 + size(e[2])
    if k == "call":
        return 1 + sum(size(a) for a in e[2])
    return 1


def depth_of(e):
    k = e[0]
    if k == "bin":
        return 1 + max(depth_of(e[2]), depth_of(e[3]))
    if k == "un":
        return 1 + depth_of(e[2])
    if k == "call":
        return 1 + max([depth_of(a) for a in e[2]] or [0])
    return 0


def weight(e):
    """size measure of the shrinker: literals are lighter than variables, those lighter than projections and calls"""
    k = e[0]
    if k == "bin":
        return 2 + weight(e[2]) + weight(e[3])
    if k == "un":
        return 2 + weight(e[2])
    if k == "call":
        return 4 + sum(weight(a) for a in e[2])
    return {"var": 2, "field": 3, "tidx": 3}.get(k, 1)


def in_discipline(e):
    """unary minus is never applied to a literal: `-5` is ONE token, in the prefix spelling `(- 5)` it is an operator"""
    k = e[0]
    if k == "un":
        if e[1] == "neg" and e[2][0] == "int":
            return False
        return in_discipline(e[2])
    if k == "bin":
        return in_discipline(e[2]) and in_discipline(e[3])
    if k == "call":
        return all(in_discipline(a) for a in e[2])
    return True


def defined(e):
    try:
        ev(e)
        return True
    except Undefined:
        return False


SHAPES2 = {"left-comb": lambda o, L: ("bin", o[1], ("bin", o[0], L(), L()), L()),
           "right-nested": lambda o, L: ("bin", o[0], L(), ("bin", o[1], L(), L()))}
SHAPES3 = {"left-comb": lambda o, L: ("bin", o[2], ("bin", o[1], ("bin", o[0], L(), L()), L()), L()),
           "right-nested": lambda o, L: ("bin", o[0], L(), ("bin", o[1], L(), ("bin", o[2], L(), L()))),
           "balanced": lambda o, L: ("bin", o[1], ("bin", o[0], L(), L()), ("bin", o[2], L(), L())),
           "left-of-right": lambda o, L: ("bin", o[2], ("bin", o[0], L(), ("bin", o[1], L(), L())), L()),
           "right-of-left": lambda o, L: ("bin", o[0], L(), ("bin", o[2], ("bin", o[1], L(), L()), L()))}


def typings(skel, want=None):
    """all type assignments of a skeleton (leaves = ('L',)): list of trees whose leaves are ('L', type)"""
    if skel[0] == "L":
        return [("L", want)] if want else [("L", "int"), ("L", "bool"), ("L", "string")]
    out = []
    for lt, rt, res in sigs(skel[1]):
        if want is not None and res != want:
            continue
        for a in typings(skel[2], lt):
            for b in typings(skel[3], rt):
                out.append(("bin", skel[1], a, b))
    return out


def leaves_of(t, out):
    if t[0] == "L":
        out.append(t[1])
    else:
        leaves_of(t[2], out)
        leaves_of(t[3], out)
    return out


def instantiate(r, typed, kinds):
    it = iter(kinds)

    def go(t):
        if t[0] == "L":
            k = next(it)
            leaf = make_leaf(r, t[1], k)
            return leaf
        a = go(t[2])
        b = go(t[3])
        if a is None or b is None:
            return None
        return ("bin", t[1], a, b)
    return go(typed)


def enumerate_tuples(r, n_ops, shapes, full_kinds, stats, sample=None):
    """generator of (ops, shape name, tree) for every type-correct typing of every operator tuple x shape.
    full_kinds: "cartesian" = every combination of operand kinds over the leaves; True = one-factor coverage
    (every leaf position x every kind, the other leaves random); False = one tree with random kinds."""
    combos = list(itertools.product(ALL_OPS, repeat=n_ops))
    table = SHAPES2 if n_ops == 2 else SHAPES3
    plan = []
    typable = untypable = 0
    for ops in combos:
        for sname in shapes:
            skel = table[sname](ops, lambda: ("L",))
            tys = typings(skel)
            if tys:
                typable += 1
            else:
                untypable += 1
            for ty in tys:
                plan.append((ops, sname, ty))
    total = len(plan)
    if sample is not None and sample < len(plan):
        plan = r.sample(plan, sample)
    stats.update({"operator_tuple_x_shape_combinations": typable + untypable, "type_correct": typable, "without_any_typing": untypable,
                  "typed_shapes_total": total, "typed_shapes": len(plan), "typed_shapes_covered": 0,
                  "undefined_division_redrawn": 0, "dropped": 0, "trees": 0})
    for ops, sname, ty in plan:
        lts = leaves_of(ty, [])
        jobs = []
        if full_kinds == "cartesian":
            for combo in itertools.product(*[AVAIL[t] for t in lts]):
                jobs.append((None, None, list(combo)))
        elif full_kinds:
            for pos in range(len(lts)):
                for kind in AVAIL[lts[pos]]:
                    jobs.append((pos, kind, None))
        else:
            jobs.append((None, None, None))
        produced = 0
        for pos, kind, fixed in jobs:
            tree = None
            for attempt in range(40):
                kinds = [r.choice(AVAIL[t]) for t in lts]
                if attempt >= 20:
                    # divisors are the usual reason: make the other leaves plain
                    kinds = [r.choice([k for k in ("lit", "var") if k in AVAIL[t]]) for t in lts]
                if pos is not None:
                    kinds[pos] = kind
                if fixed is not None:
                    kinds = fixed
                cand = instantiate(r, ty, kinds)
                if cand is not None and defined(cand):
                    tree = cand
                    break
                stats["undefined_division_redrawn"] += 1
            if tree is None:
                stats["dropped"] += 1
                continue
            stats["trees"] += 1
            produced += 1
            if produced == 1:
                stats["typed_shapes_covered"] += 1
            yield ops, sname, tree


def position_family(r, stats):
    """every operator x every typing x every operand kind K at the positions the pair/triple enumeration does not
    fix: K as the operand of a unary operator and K inside a call argument, each as the LEFT and as the RIGHT operand
    of the operator (the enumerations cover K itself as leftmost / middle / rightmost operand and inside a
    parenthesised sub-expression)"""
    wrap_call = {"int": lambda k, o: ("call", "f2", [k, o]), "bool": lambda k, o: ("call", "b2", [o, k]),
                 "string": lambda k, o: ("call", "h1", [k]), "Color": lambda k, o: ("call", "samec", [o, k])}
    res_of_call = {"int": "int", "bool": "bool", "string": "string", "Color": "bool"}
    stats.update({"trees": 0, "dropped": 0})
    for op in ALL_OPS:
        for lt, rt, res in sigs(op):
            for side in ("left", "right"):
                ty = lt if side == "left" else rt
                for pos in ("unary", "call-argument"):
                    # the operand type of the wrapped form must be the operator's operand type
                    for kty in (["int", "bool", "string", "Color"] if pos == "call-argument" else [ty]):
                        if pos == "call-argument" and res_of_call[kty] != ty:
                            continue
                        if pos == "unary" and ty not in ("int", "bool"):
                            continue
                        for kind in AVAIL[kty]:
                            if kind in ("lit", "un") and pos == "unary":
                                continue
                            tree = None
                            for attempt in range(30):
                                k = make_leaf(r, kty, kind)
                                if k is None:
                                    break
                                if pos == "unary":
                                    w = ("un", "neg" if ty == "int" else "not", k)
                                else:
                                    other = make_leaf(r, kty, r.choice([x for x in ("lit", "var") if x in AVAIL[kty]]))
                                    w = wrap_call[kty](k, other)
                                o = make_leaf(r, rt if side == "left" else lt, r.choice([x for x in ("lit", "var", "enum") if x in AVAIL[rt if side == "left" else lt]]))
                                cand = ("bin", op, w, o) if side == "left" else ("bin", op, o, w)
                                if in_discipline(cand) and defined(cand):
                                    tree = cand
                                    break
                            if tree is None:
                                stats["dropped"] += 1
                                continue
                            stats["trees"] += 1
                            yield tree



# =====================================================================================================
# identifier shapes: the same small expressions with variable / parameter / field / function / struct-variable names of
# every shape, placed directly before `<` `>` `{` `(` `.` and as the last token of if / while / match conditions and
# for ranges, in both spellings.  One role carries the shaped name at a time; the other names are plain lower case.
# =====================================================================================================
KEYWORDISH = ["iff", "lets", "matcher", "fnx", "returnx", "whilex", "forx", "notx", "andx", "orr", "truex", "falsey", "elsee", "inn", "setx",
              "mutx", "condx", "assertx", "shadowx", "structx", "unionx", "enumx", "externx", "pubx", "importx", "unsafex", "breakx",
              "continuex", "rangex", "intx", "boolx", "stringx", "arrayx"]
TYPE_CASE_VARIANTS = ["p", "o", "color", "u1", "cu"]          # types P, O, Color, U1 exist in every program


def shaped_names():
    """[(shape label, builder(base, uid) -> identifier, usable for top-level names?)]"""
    out = [("lowercase", lambda b, u: b + u, True),
           ("Capitalised", lambda b, u: b.capitalize() + u, True),
           ("ALLCAPS", lambda b, u: b.upper() + u, True),
           ("_lead", lambda b, u: "_" + b + u, True),
           ("__lead", lambda b, u: "__" + b + u, True),
           ("trail_", lambda b, u: b + u + "_", True),
           ("x1", lambda b, u: b[0] + u, True),
           ("_1", lambda b, u: "_" + u, True),
           ("_", lambda b, u: "_", False),
           ("single-letter", lambda b, u: b[0], False),
           ("mid_under", lambda b, u: b[0] + "_" + b[1:] + u, True),
           ("long200", lambda b, u: b + "o" * 200 + u, True)]
    for kw in KEYWORDISH:
        out.append(("keywordish:" + kw, (lambda k: (lambda b, u: k))(kw), False))
        out.append(("keywordish+uid:" + kw, (lambda k: (lambda b, u: k + u))(kw), True))
    for tn in TYPE_CASE_VARIANTS:
        out.append(("type-name-other-case:" + tn, (lambda k: (lambda b, u: k))(tn), False))
    return out


class NameItem:
    """one case of the identifier-shape family (interface of Tree as far as program()/compare() need it)"""

    def __init__(self, shape, role, case, position, ret, decls, body_prefix, body_infix, value, show):
        self.shape, self.role, self.case, self.position = shape, role, case, position
        self.ret, self.decls, self.bp, self.bi, self.value = ret, decls, body_prefix, body_infix, value
        self.infix, self.prefix = show
        self.classes = frozenset()

    def function(self, name, spelling):
        body = self.bp if spelling == "prefix" else self.bi
        decls = self.decls_by[spelling] if getattr(self, "decls_by", None) else self.decls
        out = [l.replace("@W", name) for l in decls]
        out.append("fn %s() -> %s {" % (name, self.ret))
        out += ["    " + l.replace("@W", name) for l in body]
        out.append("}")
        return "\n".join(out)

    def key(self):
        return (("name", self.shape, self.role), self.case, (self.position,))

    def cause(self):
        """where the shaped name stands in the infix spelling"""
        for nm in self.names:
            if re.search(r"(^|[ (\-])%s <" % re.escape(nm), self.infix):
                return "name-before-<"
        for nm in self.names:
            if self.ctx in ("if", "while", "for", "match", "param") and re.search(r"(^|[ (.\-])%s$" % re.escape(nm), self.infix):
                return "name-before-block"
        return "other:" + self.position


def name_cases(N):
    """N: role -> identifier (A B int variables, C bool variable, S struct variable, F field, FN function, PRM parameter,
    U union variable).  -> [(case, position, roles used, ret, decls, common lines, ctx, prefix expr, infix expr, value)]"""
    A_, B_, C_, S_, F_, FN_, PRM_, U_ = (N[k] for k in ("A", "B", "C", "S", "F", "FN", "PRM", "U"))
    ab = ["let %s: int = 7" % A_, "let %s: int = 3" % B_]
    st = ["let %s: SN_@W = SN_@W { %s: 5 }" % (S_, F_)]
    sdecl = ["struct SN_@W { %s: int }" % F_]
    fdecl = ["fn %s_@W(m: int, n: int) -> int {" % FN_, "    return (+ (* m 3) n)", "}"]
    fn = "%s_@W" % FN_
    pdecl = ["fn hp_@W(%s: int, z: int) -> bool {" % PRM_, "    if @COND {", "        return true", "    } else {", "        return false", "    }", "}"]
    out = []

    def add(case, position, roles, ret, decls, pre, ctx, pre_e, inf_e, value):
        out.append((case, position, roles, ret, decls, pre, ctx, pre_e, inf_e, value))
    for op, f in (("<", lambda x, y: x < y), (">", lambda x, y: x > y), ("<=", lambda x, y: x <= y), (">=", lambda x, y: x >= y),
                  ("==", lambda x, y: x == y), ("!=", lambda x, y: x != y)):
        for ctx in ("let", "if", "letp"):
            add("A %s B/%s" % (op, ctx), "before-%s" % op, "AB", "bool", [], ab, ctx, "(%s %s %s)" % (op, A_, B_), "%s %s %s" % (A_, op, B_), f(7, 3))
            add("B %s A/%s" % (op, ctx), {"let": "last-of-let", "if": "last-of-if-condition", "letp": "before-("}[ctx], "AB", "bool", [], ab, ctx,
                "(%s %s %s)" % (op, B_, A_), "%s %s %s" % (B_, op, A_), f(3, 7))
    add("B + A < B", "non-leftmost-before-<", "AB", "bool", [], ab, "let", "(< (+ %s %s) %s)" % (B_, A_, B_), "%s + %s < %s" % (B_, A_, B_), False)
    add("B + A > B/if", "non-leftmost-before->", "AB", "bool", [], ab, "if", "(> (+ %s %s) %s)" % (B_, A_, B_), "%s + %s > %s" % (B_, A_, B_), True)
    add("-A + B", "after-unary-minus", "AB", "int", [], ab, "let", "(+ (- %s) %s)" % (A_, B_), "-%s + %s" % (A_, B_), -4)
    add("not C and C", "after-not", "C", "bool", [], ["let %s: bool = true" % C_], "if", "(and (not %s) %s)" % (C_, C_), "not %s and %s" % (C_, C_), False)
    add("C or not C", "last-of-if-condition", "C", "bool", [], ["let %s: bool = true" % C_], "if", "(or %s (not %s))" % (C_, C_), "%s or not %s" % (C_, C_), True)
    add("while wi != A", "last-of-while-condition", "A", "int", [], ["let %s: int = 7" % A_], "while", "(!= wi %s)" % A_, "wi != %s" % A_, 7)
    add("while wi < A", "last-of-while-condition", "A", "int", [], ["let %s: int = 7" % A_], "while", "(< wi %s)" % A_, "wi < %s" % A_, 7)
    add("while A > wi", "before->", "A", "int", [], ["let %s: int = 7" % A_], "while", "(> %s wi)" % A_, "%s > wi" % A_, 7)
    add("for range 0 A", "last-of-for-range", "A", "int", [], ["let %s: int = 7" % A_], "for", "(range 0 %s)" % A_, "(range 0 %s)" % A_, 21)
    add("for range 0 B + A", "last-of-for-range", "AB", "int", [], ab, "for", "(range 0 (+ %s %s))" % (B_, A_), "(range 0 %s + %s)" % (B_, A_), 45)
    add("match U", "last-of-match-scrutinee", "U", "int", [], ["let %s: U1 = U1.V0 { a0: 4 }" % U_], "match", U_, U_, 4)
    add("S.F + 1", "before-.", "SF", "int", sdecl, st, "let", "(+ %s.%s 1)" % (S_, F_), "%s.%s + 1" % (S_, F_), 6)
    add("1 + S.F", "before-.-non-leftmost", "SF", "int", sdecl, st, "letp", "(+ 1 %s.%s)" % (S_, F_), "1 + %s.%s" % (S_, F_), 6)
    add("S.F < 9/if", "field-before-<", "SF", "bool", sdecl, st, "if", "(< %s.%s 9)" % (S_, F_), "%s.%s < 9" % (S_, F_), True)
    add("9 > S.F/if", "field-last-of-if-condition", "SF", "bool", sdecl, st, "if", "(> 9 %s.%s)" % (S_, F_), "9 > %s.%s" % (S_, F_), True)
    add("-S.F", "after-unary-minus", "SF", "int", sdecl, st, "let", "(- %s.%s)" % (S_, F_), "-%s.%s" % (S_, F_), -5)
    add("(FN A B)", "function-name-before-arguments", "FNAB", "int", fdecl, ab, "let", "(%s %s %s)" % (fn, A_, B_), "(%s %s %s)" % (fn, A_, B_), 24)
    add("(FN A + 1 B) < 30", "call-before-<", "FNAB", "bool", fdecl, ab, "if", "(< (%s (+ %s 1) %s) 30)" % (fn, A_, B_), "(%s %s + 1 %s) < 30" % (fn, A_, B_), True)
    add("1 + (FN B A)", "call-non-leftmost", "FNAB", "int", fdecl, ab, "letp", "(+ 1 (%s %s %s))" % (fn, B_, A_), "1 + (%s %s %s)" % (fn, B_, A_), 17)
    for op, val in (("<", True), (">", False)):
        add("param PRM %s z" % op, "parameter-before-%s" % op, "PRM", "bool", None, [], "param", "(%s %s z)" % (op, PRM_), "%s %s z" % (PRM_, op), val)
        add("param z %s PRM" % op, "parameter-last-of-if-condition", "PRM", "bool", None, [], "param", "(%s z %s)" % (op, PRM_), "z %s %s" % (op, PRM_), not val)
    return out, pdecl


def name_items():
    roles = {"var": ["A", "B", "C"], "struct-var": ["S"], "field": ["F"], "function": ["FN"], "parameter": ["PRM"], "union-var": ["U"]}
    plain = {"A": "lo", "B": "hi", "C": "ok", "S": "st", "F": "fx", "FN": "calc", "PRM": "pa", "U": "un"}
    items = []
    uid = [0]
    for shape, build, top_ok in shaped_names():
        for role, logical in roles.items():
            if role in ("function", "field") and not top_ok and not shape.startswith("keywordish:"):
                continue
            uid[0] += 1
            N = dict(plain)
            for i, l in enumerate(logical):
                nm = build(plain[l], "%d" % (uid[0] * 3 + i))
                if not top_ok and i > 0:
                    continue          # a fixed name can be given to one identifier of the function only
                N[l] = nm
            if len(set(N.values())) < len(N):
                continue
            cases, pdecl = name_cases(N)
            for case, position, used, ret, decls, pre, ctx, pre_e, inf_e, value in cases:
                if not any(l in used for l in ("".join(logical).replace("PRM", "PRM"),) ) and not any(l in used for l in logical):
                    continue
                if role == "var" and not top_ok and N["A"] == plain["A"]:
                    continue
                bodies = []
                for e in (pre_e, inf_e):
                    if ctx == "let":
                        b = pre + ["let r: %s = %s" % (ret, e), "return r"]
                    elif ctx == "letp":
                        b = pre + ["let r: %s = %s" % (ret, e), '(print "")', "return r"]
                    elif ctx == "if":
                        b = pre + ["if %s {" % e, "    return true", "} else {", "    return false", "}"]
                    elif ctx == "while":
                        b = pre + ["let mut wi: int = 0", "while %s {" % e, "    set wi (+ wi 1)", "}", "return wi"]
                    elif ctx == "for":
                        b = pre + ["let mut acc: int = 0", "for i in %s {" % e, "    set acc (+ acc i)", "}", "return acc"]
                    elif ctx == "match":
                        b = pre + ["match %s {" % e, "    V0(m) => { return m.a0 },", "    V1(m) => { return 0 }", "}"]
                    elif ctx == "param":
                        b = ["return (hp_@W 3 7)"]
                    bodies.append(b)
                if ctx == "param":
                    # the condition lives in the helper; one helper per spelling is needed, so the helper is part of the body text
                    d_pre = [l.replace("@COND", pre_e) for l in pdecl]
                    d_inf = [l.replace("@COND", inf_e) for l in pdecl]
                    it = NameItem(shape, role, case, position, ret, [], bodies[0], bodies[1], value, (inf_e, pre_e))
                    it.decls_by = {"prefix": d_pre, "infix": d_inf}
                else:
                    it = NameItem(shape, role, case, position, ret, decls, bodies[0], bodies[1], value, (inf_e, pre_e))
                    it.decls_by = None
                it.names = [N[l] for l in logical]
                it.ctx = ctx
                items.append(it)
    return items


# =====================================================================================================
# .nvm sections
# =====================================================================================================
SEC_CODE, SEC_STRINGS, SEC_FUNCTIONS, SEC_DEBUG = 1, 2, 3, 9
FLAG_DEBUG = 4


def sections(data):
    if len(data) < 32 or data[:4] != b"NVM\x01":
        return None
    ver, flags, entry, nsec, spo, spl, crc = struct.unpack("<IIIIIII", data[4:32])
    out = {"flags": flags, "entry": entry}
    for i in range(nsec):
        t, off, sz = struct.unpack("<III", data[32 + 12 * i:44 + 12 * i])
        out[t] = data[off:off + sz]
    return out


def functions(sec):
    """{name: code bytes} from a parsed module"""
    strs = []
    s = sec.get(SEC_STRINGS, b"")
    p = 0
    while p + 4 <= len(s):
        (ln,) = struct.unpack("<I", s[p:p + 4])
        strs.append(s[p + 4:p + 4 + ln])
        p += 4 + ln
    out = {}
    ft = sec.get(SEC_FUNCTIONS, b"")
    code = sec.get(SEC_CODE, b"")
    for q in range(0, len(ft) - 17, 18):
        ni, ar, off, ln, lc, uv = struct.unpack("<IHIIHH", ft[q:q + 18])
        name = strs[ni].decode("utf-8", "replace") if ni < len(strs) else "#%d" % ni
        out[name] = (code[off:off + ln], ar, lc, uv)
    return out


class Outcome:
    def __init__(self):
        self.cls = None          # agree / infix-rejected / prefix-rejected / code-differs / output-differs / value-differs / watchdog
        self.detail = ""
        self.files = {}
        self.bad = None          # indices of the functions that differ (when attributable)
        self.whole_file_equal = False


def compare(plain, d, items):
    """compile + run both spellings of a list of Tree; returns Outcome"""
    o = Outcome()
    texts = {}
    res = {}
    for sp in ("prefix", "infix"):
        texts[sp] = program(items, sp)
        with open(os.path.join(d, sp + ".nano"), "w") as f:
            f.write(texts[sp])
        try:
            os.unlink(os.path.join(d, sp + ".nvm"))
        except OSError:
            pass
        res[sp] = sh([plain.nano_virt, sp + ".nano", "--emit-nvm", "-o", sp + ".nvm"], cwd=d, cpu=20)
    o.files = {"prefix.nano": texts["prefix"], "infix.nano": texts["infix"]}
    if res["prefix"].timeout or res["infix"].timeout:
        o.cls = "watchdog"
        return o
    mods = {}
    for sp in ("prefix", "infix"):
        p = os.path.join(d, sp + ".nvm")
        mods[sp] = None
        if res[sp].rc == 0 and os.path.exists(p):
            with open(p, "rb") as f:
                raw = f.read()
            mods[sp] = (raw, sections(raw))
    if mods["prefix"] is None or mods["prefix"][1] is None:
        o.cls = "prefix-rejected"
        o.detail = (res["prefix"].errtext() + res["prefix"].text())[-600:]
        o.files["prefix.stderr"] = res["prefix"].err
        return o
    if mods["infix"] is None or mods["infix"][1] is None:
        o.cls = "infix-rejected"
        o.detail = "nano_virt exit %s for the infix spelling: %s" % (res["infix"].status, first_diag(res["infix"].errtext() + res["infix"].text()))
        o.files["infix.stderr"] = res["infix"].err
        return o
    a, b = mods["prefix"][1], mods["infix"][1]
    for m in (a, b):
        if SEC_DEBUG in m or (m["flags"] & FLAG_DEBUG):
            raise Inconclusive("nano_virt wrote debug information into the module: byte equality is no longer the right relation")
    o.whole_file_equal = mods["prefix"][0] == mods["infix"][0]
    diff = [n for n, t in ((SEC_CODE, "CODE"), (SEC_FUNCTIONS, "function table"), (SEC_STRINGS, "string pool")) if a.get(n) != b.get(n)]
    if diff or a["entry"] != b["entry"]:
        o.cls = "code-differs"
        fa, fb = functions(a), functions(b)
        o.bad = [i for i in range(len(items)) if fa.get("w%d" % i) != fb.get("w%d" % i)]
        names = {SEC_CODE: "CODE", SEC_FUNCTIONS: "function table", SEC_STRINGS: "string pool"}
        o.detail = "sections that differ: %s; functions that differ: %s%s" % (
            [names[n] for n in diff], ["w%d" % i for i in o.bad][:8],
            " (infix spelling also printed: %s)" % first_diag(res["infix"].errtext()) if "MISMATCH" in res["infix"].errtext() or "Error" in res["infix"].errtext() else "")
        o.files["prefix.nvm"] = mods["prefix"][0]
        o.files["infix.nvm"] = mods["infix"][0]
        return o
    # same code: run both
    want = [fmt(t.value) for t in items]
    outs = {}
    for sp in ("prefix", "infix"):
        r = sh([plain.nano_virt, sp + ".nano", "--run"], cwd=d, cpu=20)
        if r.timeout:
            o.cls = "watchdog"
            return o
        outs[sp] = (r.status, r.text().split("\n")[:-1] if r.text().endswith("\n") else r.text().split("\n"))
    if outs["prefix"] != outs["infix"]:
        o.cls = "output-differs"
        o.detail = "identical code but the runs differ: prefix %r / infix %r" % (outs["prefix"], outs["infix"])
        return o
    if outs["prefix"][0] != 0 or outs["prefix"][1] != want:
        o.cls = "value-differs"
        got = outs["prefix"][1]
        o.bad = [i for i in range(len(items)) if i >= len(got) or got[i] != want[i]]
        o.detail = "both spellings print %r (exit %s); the tree's value is %r" % (got[:6], outs["prefix"][0], want[:6])
        return o
    o.cls = "agree"
    return o


def first_diag(text):
    for l in text.splitlines():
        if l.startswith("Error") or "expects" in l or "requires" in l or "Unexpected" in l or "Expected" in l:
            return l.strip()[:160]
    return text.strip()[-160:]


# =====================================================================================================
# reduction of a failing tree to the smallest one (for the key of a NEW disagreement)
# =====================================================================================================
def inline_binds(e, env):
    """the tree with the bound locals (q0, q1, ...) replaced by literals of their values"""
    k = e[0]
    if k == "var" and e[1] in env:
        v = env[e[1]]
        if isinstance(v, tuple):
            return ("enumv", "Color", v[1])
        return ("bool", v) if isinstance(v, bool) else ("int", v) if isinstance(v, int) else ("str", v)
    if k == "bin":
        return ("bin", e[1], inline_binds(e[2], env), inline_binds(e[3], env))
    if k == "un":
        inner = inline_binds(e[2], env)
        if e[1] == "neg" and inner[0] == "int":
            return ("int", -inner[1])
        return ("un", e[1], inner)
    if k == "call":
        return ("call", e[1], [inline_binds(a, env) for a in e[2]])
    return e


def shrink(tree, fails, budget=50):
    calls = [0]

    def subtrees(e, path=()):
        yield path, e
        k = e[0]
        if k == "bin":
            yield from subtrees(e[2], path + (2,))
            yield from subtrees(e[3], path + (3,))
        elif k == "un":
            yield from subtrees(e[2], path + (2,))

    def replace(e, path, new):
        if not path:
            return new
        l = list(e)
        l[path[0]] = replace(e[path[0]], path[1:], new)
        return tuple(l)

    def lit_of(e):
        ty = tree_type(e)
        if ty not in ("int", "bool", "string"):
            raise ValueError(ty)
        v = ev(e)
        return ("int", v) if ty == "int" else ("bool", v) if ty == "bool" else ("str", v)

    best = tree
    progress = True
    while progress and calls[0] < budget:
        progress = False
        for path, sub in list(subtrees(best)):
            if calls[0] >= budget:
                break
            cands = []
            if sub[0] == "bin":
                for ch in (sub[2], sub[3]):
                    try:
                        if tree_type(ch) == tree_type(sub):
                            cands.append(ch)
                    except ValueError:
                        pass
            if sub[0] in ("bin", "un", "call", "field", "tidx", "var"):
                try:
                    cands.append(lit_of(sub))
                except (Undefined, ValueError, KeyError):
                    pass
            if not path:
                # hoisting a child to the root changes the result type: allowed, the key only needs a failing tree
                if sub[0] == "bin":
                    cands = [sub[2], sub[3]] + cands
            for cnd in cands:
                if cnd == sub:
                    continue
                new = replace(best, path, cnd)
                if new[0] not in ("bin", "un") or not defined(new) or not in_discipline(new):
                    continue
                if weight(new) >= weight(best):
                    continue
                calls[0] += 1
                if fails(new):
                    best = new
                    progress = True
                    break
            if progress:
                break
    return best


# =====================================================================================================
def deep_tree(kind, n, r):
    """left combs, right nesting and unary chains of depth n"""
    ints = [("var", "a"), ("var", "b"), ("var", "d"), ("int", 2), ("int", -1), ("int", 3)]
    bools = [("var", "c"), ("var", "e"), ("bool", True), ("bool", False)]
    if kind == "left-comb-int":
        t = r.choice(ints)
        for i in range(n):
            t = ("bin", r.choice(["+", "-", "*", "+", "-"]), t, r.choice(ints))
        return t
    if kind == "left-comb-bool":
        t = r.choice(bools)
        for i in range(n):
            t = ("bin", r.choice(["and", "or", "==", "!="]), t, r.choice(bools))
        return t
    if kind == "left-comb-string":
        t = ("var", "s")
        for i in range(n):
            t = ("bin", "+", t, r.choice([("var", "s"), ("str", "x"), ("var", "u")]))
        return t
    if kind == "right-nested-int":
        t = r.choice(ints)
        for i in range(n):
            t = ("bin", r.choice(["+", "-", "*", "+"]), r.choice(ints), t)
        return t
    if kind == "right-nested-bool":
        t = r.choice(bools)
        for i in range(n):
            t = ("bin", r.choice(["and", "or", "==", "!="]), r.choice(bools), t)
        return t
    if kind == "unary-neg":
        t = ("var", "a")
        for i in range(n):
            t = ("un", "neg", t)
        return t
    if kind == "unary-not":
        t = ("var", "c")
        for i in range(n):
            t = ("un", "not", t)
        return t
    if kind == "zigzag-int":
        t = r.choice(ints)
        for i in range(n):
            t = ("bin", r.choice(["+", "-"]), t, r.choice(ints)) if i % 2 else ("bin", r.choice(["+", "*"]), r.choice(ints), t)
        return t
    raise ValueError(kind)


DEEP_KINDS = ["left-comb-int", "left-comb-bool", "left-comb-string", "right-nested-int", "right-nested-bool", "unary-neg", "unary-not", "zigzag-int"]


def run(ctx):
    plain = build.get("plain")
    quick = ctx.quick()
    BATCH = 24
    CHUNK = 6000          # trees in memory at a time (a big heap makes every fork of the checker slow)
    import sys
    sys.setrecursionlimit(20000)
    ctxs = ["let", "return", "set", "if"]
    enum_stats = {"pairs": {}, "positions": {}, "triples": {}, "triples_mixed_shapes": {}, "random": {"trees": 0}}

    def stream():
        ci = 0
        for ops, sname, tree in enumerate_tuples(ctx.rng("pairs"), 2, ["left-comb", "right-nested"], True if quick else "cartesian", enum_stats["pairs"]):
            ci += 1
            yield "pair", tree, ctxs[ci % 4]
        for tree in position_family(ctx.rng("positions"), enum_stats["positions"]):
            ci += 1
            yield "position", tree, ctxs[ci % 4]
        # conditions of `if` that end with an enum variant (the block's brace follows the variant), every run
        for op in EQ:
            for left in (("var", "col"), ("enumv", "Color", "Blue"), ("call", "pick", [("int", 2)])):
                yield "position", ("bin", op, left, ("enumv", "Color", "Red")), "if"
            yield "position", ("bin", "and", ("var", "c"), ("bin", op, ("var", "col"), ("enumv", "Color", "Green"))), "if"
        if quick:
            gens = [enumerate_tuples(ctx.rng("triples"), 3, list(SHAPES3), False, enum_stats["triples"], sample=300)]
        else:
            gens = [enumerate_tuples(ctx.rng("triples"), 3, ["left-comb", "right-nested"], True, enum_stats["triples"]),
                    enumerate_tuples(ctx.rng("triples-mixed"), 3, ["balanced", "left-of-right", "right-of-left"], True, enum_stats["triples_mixed_shapes"])]
        for g in gens:
            for ops, sname, tree in g:
                ci += 1
                yield "triple", tree, ctxs[ci % 4]
        n_rand = ctx.n(200, 5000)
        rr = ctx.rng("random")
        made = tries = 0
        while made < n_rand and tries < n_rand * 30:
            tries += 1
            ty = rr.choice(["int", "int", "bool", "bool", "string"])
            dmax = rr.choice([2, 3, 4, 5, 6, 8, 10, 12])
            t = random_tree(rr, ty, dmax)
            if t[0] not in ("bin", "un") or size(t) > 400 or not defined(t):
                continue
            made += 1
            enum_stats["random"]["trees"] = made
            yield "random", t, ctxs[made % 4]

    S = {"hist": {}, "shapes": set(), "ntrees": 0, "whole_equal": 0, "known_batches": 0, "samples": [], "new_keys": 0, "bi": 0,
         "pattern_counts": {}, "bound": 0, "normal": 0, "max_size": 0, "max_depth": 0, "by_group": {}, "watchdog": 0}
    hist = S["hist"]

    with Scratch("c07") as sc:
        def do(job):
            bi, (kind, lst) = job
            d = sc.sub("b%06d" % bi)
            o = compare(plain, d, lst)
            if o.cls == "watchdog":
                o = compare(plain, d, lst)
            import shutil
            shutil.rmtree(d, ignore_errors=True)
            return kind, lst, o

        def do1(job):
            i, (t, o) = job
            if o is None:
                d = sc.sub("s%06d" % i)
                o = compare(plain, d, [t])
            return t, o

        def process(batches):
            """run a list of (kind, [Tree]) and account for the outcomes"""
            jobs = []
            for b in batches:
                S["bi"] += 1
                jobs.append((S["bi"], b))
            singles = []
            for kind, lst, o in pmap(do, jobs):
                if o.cls == "watchdog":
                    S["watchdog"] += len(lst)
                    hist["watchdog"] = hist.get("watchdog", 0) + len(lst)
                    continue
                if o.cls == "prefix-rejected":
                    # the prefix spelling is the reference: a skeleton nano_virt does not accept is a harness problem
                    raise Inconclusive("nano_virt rejects the PREFIX spelling of a generated program: %s\n%s" % (o.detail, lst[0].prefix[:300]))
                if o.cls == "agree":
                    lab = "agree" if kind != "d" else "agree(deep)"
                    hist[lab] = hist.get(lab, 0) + len(lst)
                    for t in lst:
                        S["ntrees"] += 1
                        S["shapes"].add(t.key())
                    S["whole_equal"] += len(lst) if o.whole_file_equal else 0
                    if len(S["samples"]) < 3 and kind == "n" and len(lst[0].infix) > 12:
                        S["samples"].append({"prefix": lst[0].prefix[:200], "infix": lst[0].infix[:200], "value": fmt(lst[0].value), "context": lst[0].ctx})
                    if kind == "d" and len(S["samples"]) < 5 and "left-comb" in lst[0].origin:
                        S["samples"].append({"deep": lst[0].origin, "infix_head": lst[0].infix[:80], "prefix_head": lst[0].prefix[:80], "value": fmt(lst[0].value)})
                    continue
                if kind == "p":
                    # trees with a postfix operand behind an infix / unary operator: the known finding, by cause class
                    S["known_batches"] += 1
                    for t in lst:
                        S["ntrees"] += 1
                        hist["known:" + o.cls] = hist.get("known:" + o.cls, 0) + 1
                        for c in sorted(t.classes):
                            ctx.violation(c, "infix %s  <->  prefix %s: %s" % (t.infix, t.prefix, o.detail), o.files)
                    continue
                # a normal or deep batch that did not agree: attribute
                if len(lst) == 1:
                    singles.append((lst[0], o))
                else:
                    for t in (lst if o.bad is None else [lst[i] for i in o.bad]):
                        singles.append((t, None))
            # a broken parser makes every batch fail; a few hundred trees are enough to name the violation
            room = max(0, 400 - S.get("singles_done", 0))
            singles = singles[:room]
            S["singles_done"] = S.get("singles_done", 0) + len(singles)
            for t, o in pmap(do1, list(enumerate(singles))):
                S["ntrees"] += 1
                hist[o.cls] = hist.get(o.cls, 0) + 1
                if o.cls in ("agree", "watchdog"):
                    continue
                if o.cls == "prefix-rejected":
                    raise Inconclusive("nano_virt rejects the PREFIX spelling: %s\n%s" % (o.detail, t.prefix[:300]))
                small = None
                if S["new_keys"] < 6:
                    want_cls = o.cls

                    def fails(cand, _w=want_cls):
                        try:
                            ct = Tree(cand, "let")
                        except (Undefined, ValueError, KeyError):
                            return False
                        if ct.classes:
                            return False
                        return compare(plain, sc.sub("shrink"), [ct]).cls == _w
                    try:
                        start = inline_binds(t.tree, dict((n, ev(l)) for n, ty, l in t.binds)) if t.binds else t.tree
                        if not t.binds or fails(start):
                            small = shrink(start, fails)
                    except Exception:
                        small = None
                S["new_keys"] += 1
                if small is not None:
                    k = shape_key(small)
                    key = "shape|%s|%s|%s|%s" % (o.cls, " ".join(k[0]), k[1], ",".join(k[2]))
                else:
                    # only the first few disagreements of a run are reduced to their smallest failing tree
                    key = "shape|%s|not-reduced" % o.cls
                    small = t.tree
                st = Tree(small, "let") if small is not t.tree else t
                files = dict(o.files)
                files["smallest.txt"] = "infix:  %s\nprefix: %s\nvalue:  %s\n" % (st.infix, st.prefix, fmt(st.value))
                ctx.violation(key[:240], "infix `%s` and prefix `%s` (value %s) do not denote the same program: %s\n(smallest failing tree: `%s`)" % (
                    t.infix[:300], t.prefix[:300], fmt(t.value), o.detail, st.infix[:200]), files)

        def chunk_batches(chunk):
            """Tree objects of one chunk; trees with a known-finding position go into batches of their own (grouped by
            class set) and their bound variant into the normal batches"""
            normal = []
            pattern = {}
            todo = []
            for grp, tree, c in chunk:
                T = Tree(tree, c, origin=grp)
                S["by_group"][grp] = S["by_group"].get(grp, 0) + 1
                S["max_size"] = max(S["max_size"], size(tree))
                if grp == "random":
                    S["max_depth"] = max(S["max_depth"], depth_of(tree))
                if c == "if" and T.type == "bool" and ENDS_WITH_VARIANT.search(T.infix):
                    # `if x == Color.Red {`: the condition ends with TypeName.Variant and the block's brace follows - a cause of its
                    # own (K_BLOCK); the tree itself is judged in the `let` context as well
                    T.classes = frozenset([K_BLOCK])
                    todo.append((grp, tree, c, T))
                    todo.append((grp, tree, "let", Tree(tree, "let", origin=grp)))
                else:
                    todo.append((grp, tree, c, T))
            for grp, tree, c, T in todo:
                if T.classes:
                    pattern.setdefault(T.classes, []).append(T)
                    ck = ",".join(sorted(T.classes))
                    S["pattern_counts"][ck] = S["pattern_counts"].get(ck, 0) + 1
                    st_, binds = substituted(tree)
                    B = Tree(st_, c, binds=binds, origin=grp + "+bound")
                    if B.classes:
                        raise Inconclusive("substitution left a known-finding position in %s" % B.infix)
                    normal.append(B)
                    S["bound"] += 1
                else:
                    normal.append(T)
            S["normal"] += len(normal)
            out = [("n", normal[i:i + BATCH]) for i in range(0, len(normal), BATCH)]
            for cs, lst in sorted(pattern.items(), key=lambda kv: sorted(kv[0])):
                out += [("p", lst[i:i + BATCH]) for i in range(0, len(lst), BATCH)]
            return out, normal

        # ---- the parser's nesting limit (measured) --------------------------------------------------------
        def compiles(depth, kind="right-nested-int"):
            t = Tree(deep_tree(kind, depth, ctx.rng("probe", depth)), "let")
            d = sc.sub("probe")
            with open(os.path.join(d, "p.nano"), "w") as f:
                f.write(program([t], "prefix"))
            r = sh([plain.nano_virt, "p.nano", "--emit-nvm", "-o", "p.nvm"], cwd=d, cpu=30)
            return r.rc == 0 and not r.sig

        lo, hi = 64, 1100
        ctx.require(compiles(lo), "a right-nested expression of depth %d does not compile" % lo)
        if compiles(hi):
            lo = hi
        else:
            while hi - lo > 1:
                mid = (lo + hi) // 2
                if compiles(mid):
                    lo = mid
                else:
                    hi = mid
        limit = lo
        deep = []
        dr = ctx.rng("deep")
        depths = sorted(set([limit, limit - 1, limit - 7, limit // 2, 300, 100, 30]))
        if not quick:
            depths = sorted(set(depths + [limit - 2, limit - 3, limit - 50, (limit * 3) // 4, 700, 500, 200, 60]))
        for kind in DEEP_KINDS:
            for dp in depths:
                if dp < 2:
                    continue
                # the prefix spelling of a left comb / unary chain nests as deep as the chain is long
                deep.append(Tree(deep_tree(kind, dp, dr), "let", origin="deep:%s:%d" % (kind, dp)))
        process([("d", [t]) for t in deep])

        # ---- the enumerations and the random trees, chunk by chunk --------------------------------------------
        first = True
        chunk = []

        def flush():
            nonlocal first, chunk
            if not chunk:
                return
            batches, normal = chunk_batches(chunk)
            if first and normal:
                first = False
                # control: source positions do not reach the module
                d = sc.sub("poscontrol")
                base = program(normal[:BATCH], "infix")
                moved = "\n\n\n" + "\n".join(("      " + l if l.startswith("    ") else "\n" + l) for l in base.split("\n"))
                mods = []
                for name, text in (("a", base), ("b", moved)):
                    with open(os.path.join(d, name + ".nano"), "w") as f:
                        f.write(text)
                    r = sh([plain.nano_virt, name + ".nano", "--emit-nvm", "-o", name + ".nvm"], cwd=d, cpu=20)
                    ctx.require(r.rc == 0 and os.path.exists(os.path.join(d, name + ".nvm")), "position control did not compile")
                    with open(os.path.join(d, name + ".nvm"), "rb") as f:
                        mods.append(f.read())
                ctx.require(mods[0] == mods[1], "moving the source text (lines, columns) changes the module: byte equality is not the right relation")
            process(batches)
            chunk = []

        for it in stream():
            chunk.append(it)
            if len(chunk) >= CHUNK:
                flush()
        flush()

        # ---- identifier shapes -----------------------------------------------------------------------------------
        nitems = name_items()
        nstats = {"items": len(nitems), "shapes": len(set(i.shape for i in nitems)), "roles": sorted(set(i.role for i in nitems)),
                  "positions": sorted(set(i.position for i in nitems)), "outcomes": {}, "shape_not_usable": {}}
        nb = [nitems[i:i + BATCH] for i in range(0, len(nitems), BATCH)]

        def do_names(job):
            bi, lst = job
            d = sc.sub("nm%05d" % bi)
            o = compare(plain, d, lst)
            if o.cls == "watchdog":
                o = compare(plain, d, lst)
            out = []
            if o.cls == "agree" or len(lst) == 1:
                out = [(t, o) for t in lst]
            else:
                for k, t in enumerate(lst):
                    o1 = compare(plain, sc.sub("nm%05d-%d" % (bi, k)), [t])
                    out.append((t, o1))
            import shutil
            shutil.rmtree(d, ignore_errors=True)
            return out

        control_ok = set()
        name_results = [x for res in pmap(do_names, list(enumerate(nb))) for x in res]
        for t, o in name_results:
            if t.shape == "lowercase" and o.cls == "agree":
                control_ok.add(t.case)
        for t, o in name_results:
            S["ntrees"] += 1
            lab = "names:" + o.cls
            nstats["outcomes"][lab] = nstats["outcomes"].get(lab, 0) + 1
            hist[lab] = hist.get(lab, 0) + 1
            if o.cls == "agree":
                S["shapes"].add(t.key())
                continue
            if o.cls == "watchdog":
                S["watchdog"] += 1
                continue
            if t.shape == "lowercase":
                raise Inconclusive("identifier-shape family: the plain lower-case control of case '%s' does not agree (%s): %s" % (t.case, o.cls, o.detail))
            if t.infix == t.prefix and o.cls == "prefix-rejected":
                # the two spellings are the same text (match scrutinee, plain range): not a difference of notation
                nstats["shape_not_usable"]["%s|%s|%s" % (t.shape, t.role, t.case)] = first_diag(o.detail)
                continue
            files = dict(o.files)
            ctx.violation("identifier-shape|%s|%s|%s" % (t.shape.split(":")[0] if t.shape.startswith("keywordish+uid") else t.shape, t.role, t.cause()),
                          "identifier shape %s as %s, case `%s` (%s): infix `%s` and prefix `%s` do not denote the same program: %s" % (
                              t.shape, t.role, t.case, t.position, t.infix[:200], t.prefix[:200], o.detail), files)
        ctx.require(len(control_ok) >= 40, "identifier-shape family: too few lower-case control cases agreed (%d)" % len(control_ok))

        ntrees = S["ntrees"]
        ctx.require(S["watchdog"] <= max(2 * BATCH, ntrees // 50), "too many compilations hit the watchdog")
        agree = hist.get("agree", 0) + hist.get("agree(deep)", 0)
        if not ctx.violations:
            ctx.require(agree >= (S["normal"] + len(deep)) * 0.9, "too few trees reached a verdict: %s" % hist)
            ctx.require(hist.get("agree(deep)", 0) >= len(deep) * 0.9, "deep expressions did not reach a verdict: %s" % hist)
        tri = dict(enum_stats["triples"], operator_triples=len(ALL_OPS) ** 3,
                   exhaustive=(not quick) and enum_stats["triples"]["typed_shapes_covered"] == enum_stats["triples"]["typed_shapes_total"],
                   shapes=list(SHAPES3) if quick else ["left-comb", "right-nested"])
        if not quick:
            ms = enum_stats["triples_mixed_shapes"]
            tri["mixed_shapes"] = dict(ms, shapes=["balanced", "left-of-right", "right-of-left"], exhaustive=ms["typed_shapes_covered"] == ms["typed_shapes_total"])
        cov = {
            "evaluations": ntrees,
            "distinct_nontrivial": len(S["shapes"]),
            "rule": "distinct (operator tuple in preorder incl. operators inside call arguments / under unary operators, tree shape, operand-kind tuple) "
                    "among trees whose two spellings compiled to identical CODE / function table / string pool and printed the reference value",
            "trees": dict(S["by_group"], deep=len(deep), bound_variants_of_known_finding_trees=S["bound"]),
            "pairs": dict(enum_stats["pairs"], operator_pairs=len(ALL_OPS) ** 2, shapes=["left-comb", "right-nested"],
                          exhaustive=enum_stats["pairs"]["typed_shapes_covered"] == enum_stats["pairs"]["typed_shapes_total"],
                          operand_kinds="one-factor: every leaf position x every operand kind, the other leaves random" if quick else
                                        "cartesian: every combination of operand kinds over the three leaves"),
            "triples": tri,
            "positions_unary_and_call_argument": dict(enum_stats["positions"], exhaustive=True,
                                                      rule="every operator x typing x side x {operand of unary, call argument} x operand kind"),
            "operand_kinds": AVAIL,
            "identifier_shapes": nstats,
            "nesting_limit_measured": limit,
            "deep_depths": depths,
            "deep_kinds": DEEP_KINDS,
            "outcomes": dict(sorted(hist.items())),
            "trees_with_known_finding_position": dict(sorted(S["pattern_counts"].items())),
            "known_finding_batches": S["known_batches"],
            "whole_nvm_files_identical": S["whole_equal"],
            "max_tree_size": S["max_size"],
            "max_random_depth": S["max_depth"],
            "samples": S["samples"],
        }
        return ctx.finish(cov, assumptions=[
            "codegen emits no source positions (no DEBUG section / flag: checked on every module; a program whose text is moved by lines and columns compiles to the same bytes: checked in every run), so byte equality of CODE, function table and string pool is the right relation",
            "unary minus directly as a call argument is written (- x): `(f a -x)` is the juxtaposition a - x; unary minus is not applied to literals (`-5` is one token in either spelling)",
            "division / modulo operands are drawn so that every divisor is non-zero, also in operands that short-circuiting would skip",
            "trees containing a field access / tuple index behind an infix or bare unary operator are reported under the known cause keys; the same trees with those operands bound to a local are checked by the normal oracle",
        ])


def write_witnesses():
    os.makedirs(FIND, exist_ok=True)
    cases = [("field_after_infix", ("bin", "+", ("int", 1), ("field", ("var", "p"), "x"))),
             # this one is ACCEPTED (exit 0, module written) with a TYPE MISMATCH diagnostic and different code
             ("field_after_infix_accepted", ("bin", "+", ("bin", "+", ("var", "u"), ("field", ("var", "p"), "s")), ("str", "ab"))),
             ("tuple_index_after_infix", ("bin", "-", ("var", "a"), ("tidx", ("var", "t"), 0))),
             ("field_after_unary", ("un", "not", ("field", ("var", "p"), "b"))),
             ("tuple_index_after_unary", ("un", "neg", ("tidx", ("var", "t"), 3)))]
    t = Tree(("bin", "==", ("var", "col"), ("enumv", "Color", "Red")), "if")
    for sp in ("infix", "prefix"):
        with open(os.path.join(FIND, "enum_variant_before_block_%s.nano" % sp), "w") as f:
            f.write(program([t], sp))
    for it in name_items():
        if it.shape == "Capitalised" and it.role == "var" and it.case in ("A < B/let", "while wi != A"):
            tag = "uppercase_name_before_lt" if it.case == "A < B/let" else "uppercase_name_before_block"
            for sp in ("infix", "prefix"):
                with open(os.path.join(FIND, "%s_%s.nano" % (tag, sp)), "w") as f:
                    f.write(program([it], sp))
    for name, tree in cases:
        t = Tree(tree, "let")
        with open(os.path.join(FIND, name + "_infix.nano"), "w") as f:
            f.write(program([t], "infix"))
        with open(os.path.join(FIND, name + "_prefix.nano"), "w") as f:
            f.write(program([t], "prefix"))
