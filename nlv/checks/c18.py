"""C18 - the daemon survives malformed and abandoned client sessions (DESIGN §4 C18).

Private `nano_vmd` instances (asan flavor, hook H3 directory, NLVERIF_FUEL so that looping modules end) are fed
sequences (length 1..12) of client behaviours, dealt to 1..8 concurrent connections.  After every sequence:
  * the sessions that stayed to listen must have ended (error reply, exit code or closed connection),
  * well-formed execs inside the sequence must equal the standalone run (unless the daemon died in this sequence),
  * the daemon process is alive, answers PING with PONG, executes one more well-formed module like standalone,
  * the daemon's sanitizer log is empty.
A daemon death is a violation keyed by the crash signature from its sanitizer log (kind + innermost three in-repo
functions); the daemon is restarted and the run continues.  SHUTDOWN is not part of the alphabet.
"""
import importlib.util
import os
import re
import struct
import threading
import time
import zlib

from .. import build, core
from ..run import run as sh, pmap, Scratch

LEVEL = "fault_enumeration"

_spec = importlib.util.spec_from_file_location("nlv_vmd_client", os.path.join(core.VERIF, "tools", "vmd_client.py"))
vc = importlib.util.module_from_spec(_spec)
_spec.loader.exec_module(vc)

FUEL = 3000000
# requests that are malformed at the protocol level: they must end in an error reply or a closed connection
MALFORMED = ("wrong_version", "unknown_type", "unknown_type_payload", "len_over_max", "len_huge", "len_over_max_hold", "len_huge_hold",
             "len_zero", "non_module",
             "garbage", "trunc_half_shutwr")
_VLOCK = threading.RLock()


def _repo_hash():
    """Content hash of the build-relevant files of the tree under test only (build.tree_hash also covers /verif/tools and
    probes, which other people edit while a check runs)."""
    import hashlib
    h = hashlib.sha256()
    for p in build._iter_files(build.REPO):
        try:
            with open(p, "rb") as f:
                h.update(p.encode() + b"\0" + hashlib.sha256(f.read()).digest())
        except OSError:
            h.update(p.encode() + b"\0?")
    return h.hexdigest()


def _violation(ctx, key, what, files=None):
    with _VLOCK:
        return ctx.violation(key, what, files)


# ---------------------------------------------------------------------------------------------------------------
# Well-formed modules (small: they run on an ASan VM and must stay far below the fuel budget)
# ---------------------------------------------------------------------------------------------------------------

GOOD = {
    "hello": """
fn main() -> int {
    (println "W0:hello")
    return 0
}
shadow main { assert true }
""",
    "count": """
let mut G: int = 3
fn bump(x: int) -> int {
    set G (+ G x)
    return G
}
shadow bump { assert true }
fn main() -> int {
    let mut i: int = 0
    while (< i 60) {
        (println (+ "W1:bump " (+ (int_to_string i) (+ " -> " (int_to_string (bump i))))))
        set i (+ i 1)
    }
    return 0
}
shadow main { assert true }
""",
    "big": """
fn main() -> int {
    let mut i: int = 0
    while (< i 1500) {
        (println (+ "W2:line " (+ (int_to_string i) " ........................................................")))
        set i (+ i 1)
    }
    return 0
}
shadow main { assert true }
""",
    "fail": """
let mut G: int = 1
fn main() -> int {
    let mut i: int = 0
    while (< i 25) {
        set G (* G 2)
        (println (+ "W3:g=" (int_to_string G)))
        set i (+ i 1)
    }
    assert (== G 0)
    (println "W3:NOT REACHED")
    return 0
}
shadow main { assert true }
""",
    "fib": """
fn fib(n: int) -> int {
    if (< n 2) { return n } else { return (+ (fib (- n 1)) (fib (- n 2))) }
}
shadow fib { assert (== (fib 6) 8) }
fn main() -> int {
    let mut i: int = 0
    while (< i 16) {
        (println (+ "W4:fib " (int_to_string (fib i))))
        set i (+ i 1)
    }
    return 0
}
shadow main { assert true }
""",
}

# a module that really calls externs: the daemon serves it through a per-session `nano_cop` co-process (launched on the
# first extern call, stopped at the end of the session); standalone nano_vm calls the same functions in-process
GOOD["extern"] = """
fn rev(s: string) -> string {
    let mut i: int = (- (str_length s) 1)
    let mut r: string = ""
    while (>= i 0) {
        set r (+ r (string_from_char (char_at s i)))
        set i (- i 1)
    }
    return r
}
shadow rev { assert true }
fn main() -> int {
    let mut i: int = 0
    while (< i 12) {
        (println (+ "W6:rev " (rev (+ "extern-" (int_to_string (* i 1234567))))))
        set i (+ i 1)
    }
    return 0
}
shadow main { assert true }
"""

# a heap value nested 3000 levels deep, built in a loop and dropped: releasing it recurses once per level inside the VM, on
# the C stack of the thread that serves the session (standalone: the main thread)
GOOD["nest"] = """
struct Node {
    val: int,
    kids: array<Node>
}
fn build(n: int) -> Node {
    let empty: array<Node> = []
    let mut cur: Node = Node { val: 0, kids: empty }
    let mut i: int = 1
    while (< i n) {
        let mut ks: array<Node> = []
        set ks (array_push ks cur)
        set cur (Node { val: i, kids: ks })
        set i (+ i 1)
    }
    return cur
}
shadow build { assert true }
fn main() -> int {
    let top: Node = (build 3000)
    (println (+ "W7:top " (int_to_string top.val)))
    (println "W7:chain built")
    return 0
}
shadow main { assert true }
"""

LOOPS = {
    # never terminate by themselves; the daemon's NLVERIF_FUEL budget (hook H1) ends them
    "loop_silent": """
let mut G: int = 0
fn main() -> int {
    while (== 1 1) {
        set G (+ G 1)
    }
    return 0
}
shadow main { assert true }
""",
    "loop_print": """
let mut G: int = 0
fn main() -> int {
    while (== 1 1) {
        set G (+ G 1)
        (println (+ "L1:spin " (int_to_string G)))
    }
    return 0
}
shadow main { assert true }
""",
}


# ---------------------------------------------------------------------------------------------------------------
# Hostile modules: valid magic / version / checksum, inconsistent inside (layout: src/nanoisa/nvm_format.h)
# ---------------------------------------------------------------------------------------------------------------

SEC_CODE, SEC_STRINGS, SEC_FUNCTIONS = 1, 2, 3


def reseal(b):
    """Recompute the header checksum: CRC32 (poly 0xEDB88320 = zlib) over everything after the 32-byte header."""
    b = bytearray(b)
    struct.pack_into("<I", b, 28, zlib.crc32(bytes(b[32:])) & 0xFFFFFFFF)
    return bytes(b)


def sections(b):
    n = struct.unpack_from("<I", b, 16)[0]
    out = []
    for i in range(n):
        t, off, sz = struct.unpack_from("<III", b, 32 + 12 * i)
        out.append((i, t, off, sz))
    return out


def hostile_modules(base):
    """base: a compiler-produced image (the `count` module).  Deterministic, seed independent."""
    secs = sections(base)
    by = {t: (i, off, sz) for i, t, off, sz in secs}
    H = {}

    def patched(edits, drop_tail=0):
        b = bytearray(base)
        for off, fmt, val in edits:
            struct.pack_into(fmt, b, off, val)
        if drop_tail:
            del b[-drop_tail:]
        return reseal(b)

    d0 = 32
    # section directory entry whose offset+size wraps around 2^32 (passes `sec_offset + sec_size > size`)
    H["secdir_wrap"] = patched([(d0 + 4, "<I", 0xFFFFFFF0), (d0 + 8, "<I", 0x00000020)])
    # section that claims to extend past the end of the image (must simply be refused)
    H["secdir_past_end"] = patched([(d0 + 8, "<I", len(base))])
    # section count larger than the directory that is present
    H["section_count_16"] = patched([(16, "<I", 16)])
    if SEC_STRINGS in by:
        i, off, sz = by[SEC_STRINGS]
        H["strlen_wrap"] = patched([(off, "<I", 0xFFFFFFFC)])           # pos + slen wraps
        H["strlen_past_end"] = patched([(off, "<I", sz + 100)])
    if SEC_FUNCTIONS in by:
        i, off, sz = by[SEC_FUNCTIONS]
        nfn = sz // 18
        last = off + 18 * (nfn - 1)
        H["fn_code_offset_oob"] = patched([(last + 6, "<I", 0x7FFFFF00)])
        H["fn_code_length_oob"] = patched([(last + 10, "<I", 0x7FFFFFFF)])
        H["fn_name_idx_oob"] = patched([(off + 0, "<I", 0x00FFFFFF), (last + 0, "<I", 0x00FFFFFF)])
        H["fn_locals_huge"] = patched([(last + 14, "<H", 0xFFFF)])
        H["no_functions"] = patched([(32 + 12 * i + 8, "<I", 0)])         # empty function table
    # table-growth boundaries of the loader: valid images with many (never called) imports / extra strings
    def with_section(sec_type, data):
        n = struct.unpack_from("<I", base, 16)[0]
        b = bytearray(base[:32])
        struct.pack_into("<I", b, 16, n + 1)
        spo = struct.unpack_from("<I", base, 20)[0]
        struct.pack_into("<I", b, 20, spo + 12 if spo else 0)
        for i, t, off, sz in secs:
            b += struct.pack("<III", t, off + 12, sz)
        b += struct.pack("<III", sec_type, len(base) + 12, len(data))
        b += base[32 + 12 * n:]
        b += data
        return reseal(b)
    if len(secs) < 15:
        for k in (31, 32, 33, 40, 64, 65, 129):
            H["imports_%d" % k] = with_section(8, struct.pack("<IIHB", 0, 0, 0, 1) * k)
        for k in (255, 256, 257, 600):
            H["strings_%d" % k] = with_section(SEC_STRINGS, b"".join(struct.pack("<I", 6) + b"x%05d" % i for i in range(k)))
    H["entry_point_oob"] = patched([(12, "<I", 9999)])
    if SEC_CODE in by:
        i, off, sz = by[SEC_CODE]
        b = bytearray(base)
        b[off:off + sz] = b"\xff" * sz
        H["code_all_ff"] = reseal(b)
        b = bytearray(base)
        for k in range(off, off + sz):
            b[k] = (b[k] * 7 + 13) & 0xFF                                  # deterministic scramble of every code byte
        H["code_scrambled"] = reseal(b)
        b = bytearray(base)
        b[off + sz // 2: off + sz] = bytes(sz - sz // 2)                   # second half of the code zeroed
        H["code_half_zero"] = reseal(b)
        H["code_empty"] = patched([(32 + 12 * i + 8, "<I", 0)])
    return H


# ---------------------------------------------------------------------------------------------------------------
# Sanitizer log -> crash signature
# ---------------------------------------------------------------------------------------------------------------

_AFRAME = re.compile(r"^\s+#\d+\s+0x[0-9a-f]+\s+in\s+(\S+)\s+(\S+)")


def crash_signature(text):
    """kind + innermost three in-repo functions (line numbers stripped) of the first report in an ASan/UBSan log;
    None if the text contains no sanitizer report."""
    m = re.search(r"ERROR: AddressSanitizer: ([^\n]+)", text)
    if m:
        k = re.split(r" on | \(|:", m.group(1))[0]
        kind = "asan:" + re.sub(r"0x[0-9a-f]+|\d+", "N", k).strip()
    else:
        m = re.search(r"runtime error: ([^\n]+)", text)
        if m:
            msg = re.sub(r"0x[0-9a-f]+|-?\d+", "N", m.group(1))
            kind = "ubsan:" + re.sub(r"'[^']*'", "T", msg)[:60].strip()
        else:
            m = re.search(r"ERROR: (LeakSanitizer|UndefinedBehaviorSanitizer)[: ]+([^\n]{0,60})", text)
            if not m:
                return None
            kind = "san:" + re.sub(r"0x[0-9a-f]+|\d+", "N", m.group(2)).strip()
    frames = []
    seen_frame = False
    for line in text[m.start():].splitlines()[1:]:
        fm = _AFRAME.match(line)
        if fm:
            seen_frame = True
            if "src/" in fm.group(2) and "libsanitizer" not in fm.group(2):
                frames.append(fm.group(1))
        elif seen_frame:
            break                                             # end of the first stack
    return "%s|%s" % (kind, "<".join(frames[:3]) or "?")


# ---------------------------------------------------------------------------------------------------------------
# One lane = one private daemon + its share of the sequences
# ---------------------------------------------------------------------------------------------------------------

_SHIM_LOCK = threading.Lock()


def cop_shim(sc, fl):
    d = os.path.join(sc.path, "copshim")
    with _SHIM_LOCK:
        p = os.path.join(d, "nano_cop")
        if not os.path.exists(p):
            os.makedirs(d, exist_ok=True)
            with open(p + ".tmp", "w") as f:
                f.write("#!/bin/sh\n[ -n \"$NLV_COP_LOG\" ] && echo launch >> \"$NLV_COP_LOG\"\nexec %s \"$@\"\n" % fl.nano_cop)
            os.chmod(p + ".tmp", 0o755)
            os.rename(p + ".tmp", p)
    return d


class LaneAbort(Exception):
    """The lane cannot go on (its daemon does not come up any more); a violation has been recorded."""


class Lane:
    def __init__(self, ctx, no, fl, sc, good, loops, hostile, stats):
        self.ctx, self.no, self.fl, self.sc = ctx, no, fl, sc
        self.good, self.loops, self.hostile = good, loops, hostile
        self.st = stats
        self.dir = sc.sub("lane%d" % no)
        self.logbase = os.path.join(self.dir, "san")
        self.dm = vc.Daemon(fl.nano_vmd, self.dir, {
            "ASAN_OPTIONS": "log_path=%s:detect_leaks=0:exitcode=97:abort_on_error=0:allocator_may_return_null=1:"
                            "hard_rss_limit_mb=3072:detect_stack_use_after_return=0" % self.logbase,
            "UBSAN_OPTIONS": "print_stacktrace=1:halt_on_error=1:exitcode=97:log_path=%s" % self.logbase,
            "NLVERIF_FUEL": str(FUEL),
            # vm_ffi_cop_start does execlp("nano_cop"): first on PATH is a two-line shim that logs the launch and execs the
            # flavor's real nano_cop (same pid, same pipes), so launches of the co-process can be counted
            "PATH": cop_shim(sc, fl) + os.pathsep + fl.bin + os.pathsep + os.environ.get("PATH", "/usr/bin:/bin"),
            "NLV_COP_LOG": os.path.join(self.dir, "cop_launches.log"),
        })

    def cop_launches(self):
        try:
            with open(os.path.join(self.dir, "cop_launches.log"), "rb") as f:
                return f.read().count(b"\n")
        except OSError:
            return 0

    def start(self):
        if self.dm.start():
            return
        # The daemon came up (it announced its socket) but did not survive / answer the very first PING: that is a
        # daemon failure, not a harness problem.  Anything else (binary missing, socket never appeared) stays inconclusive.
        tail = self.dm.stderr_text(1500)
        log = self.san_logs()
        sig = crash_signature(log) or crash_signature(tail)
        if "Listening on" in tail and (sig or not self.dm.alive()):
            self.dm.wait_dead(5.0)
            _violation(self.ctx, "daemon-died|%s|on-first-ping" % (sig or "no-sanitizer-report|rc=%s" % self.dm.returncode()),
                       "a freshly started nano_vmd (asan flavor) announced its socket and then died / never answered the first PING "
                       "(rc=%s)\n%s" % (self.dm.returncode(), (log or tail)[:5000]), {"sanitizer.log": log or tail})
            raise LaneAbort()
        self.ctx.require(False, "could not start a private nano_vmd (asan flavor) in %s: %s" % (self.dir, tail[-400:]))

    def san_logs(self, consume=True):
        text = ""
        for f in sorted(os.listdir(self.dir)):
            if f.startswith("san."):
                p = os.path.join(self.dir, f)
                text += open(p, errors="replace").read()
                if consume:
                    os.unlink(p)
        return text

    # -- one client behaviour ------------------------------------------------------------------------------
    def act(self, sym, rng):
        """-> (reply, expectation) ; expectation: ('equal', good-name) | ('ended',) | ('none',)"""
        d = self.dir
        if sym.startswith("exec:"):
            g = self.good[sym[5:]]
            before = self.cop_launches()
            r = vc.exec_module(d, g["blob"], 60.0)
            if sym == "exec:extern" and r.exit_code is not None:
                with _VLOCK:
                    self.st["extern_sessions"] += 1
                    self.st["extern_sessions_with_cop_launch"] += 1 if self.cop_launches() > before else 0
            return r, ("equal", sym[5:])
        if sym == "ping":
            return vc.ping(d, 30.0), ("pong",)
        if sym == "status":
            return vc.status(d, 30.0), ("status",)
        if sym.startswith("hostile:"):
            return vc.exec_module(d, self.hostile[sym[8:]], 60.0), ("ended",)
        if sym in ("loop_silent", "loop_print"):
            return vc.exec_module(d, self.loops[sym], 120.0), ("ended",)
        if sym == "loop_print_disc":
            return vc.misbehave(d, "disc_while", self.loops["loop_print"], rng, 60.0), ("none",)
        if sym == "loop_silent_disc":
            return vc.misbehave(d, "disc_before", self.loops["loop_silent"], rng, 60.0), ("none",)
        kind = sym
        base = self.good["big" if kind.startswith("disc_") else "count"]
        r = vc.misbehave(d, kind, base["blob"], rng, 60.0)
        if kind in ("slow_loris", "flags_nonzero"):
            # a complete, correct request (sent slowly / with reserved flag bits the server does not look at)
            return r, ("equal", "count") if kind == "slow_loris" else ("ended",)
        if kind == "disc_after":
            return r, ("equal-upto-exit", "big")
        if r.closed_by_us:
            return r, ("none",)
        if kind in MALFORMED:
            return r, ("refused",)
        return r, ("ended",)

    def judge(self, sym, r, exp, died, seqdesc):
        """Record the outcome class; report what the property forbids.  Returns a trouble string or None."""
        st = self.st
        oc = ("not-ended" if r.lost else "exc" if r.exc else "timeout" if r.timeout else
              "error:" + r.errors[0].decode("utf-8", "replace")[:40].split("\n")[0] if r.errors and r.exit_code is None else
              "exit=%s%s" % (r.exit_code, "+error" if r.errors else "") if r.exit_code is not None else
              "pong" if r.pong else "status" if r.status is not None else
              "closed-by-us" if r.closed_by_us else "eof" if r.eof else "reset" if r.reset else "?")
        symkey = "exec" if sym.startswith("exec:") else sym
        with _VLOCK:
            h = st["outcomes"].setdefault(symkey, {})
            h[oc] = h.get(oc, 0) + 1
        if died:
            return None                                        # collateral of the daemon death, judged there
        if r.lost and sym in MALFORMED:
            # "a malformed message (... oversized or inconsistent length ...) ends the offending session with an error reply or a
            # closed connection" - not only once the client gives up
            _violation(self.ctx, "malformed-not-ended|" + sym.replace("_hold", ""),
                       "the malformed request `%s` in the sequence [%s] was neither answered with an error nor closed: %s"
                       % (sym, seqdesc, r.lost))
            return None
        if r.exc or r.timeout:
            return "%s: exc=%s timeout=%s" % (sym, r.exc, r.timeout)
        if exp[0] in ("equal", "equal-upto-exit"):
            g = self.good[exp[1]]
            got = (r.out, r.err_text(), r.exit_code)
            want = (g["out"], g["err"], g["rc"])
            with _VLOCK:
                st["wellformed_compared"] += 1
            if got != want:
                _violation(self.ctx, "wellformed!=standalone|%s|in-sequence" % sym.split(":")[0],
                           "a well-formed client (%s) inside the sequence [%s] got a result different from standalone\n"
                           "stdout got %d bytes want %d; stderr got %r want %r; exit got %r want %r\nreply: %s"
                           % (sym, seqdesc, len(r.out), len(g["out"]), got[1][:200], want[1][:200], got[2], want[2], r.brief()),
                           {"module.nvm": g["blob"], "got.stdout": r.out, "expected.stdout": g["out"]})
        elif exp[0] == "pong":
            if not r.pong:
                _violation(self.ctx, "ping-unanswered|in-sequence", "PING inside the sequence [%s] got no PONG: %s" % (seqdesc, r.brief()))
        elif exp[0] == "status":
            if r.active_clients() is None:
                _violation(self.ctx, "status-unanswered|in-sequence", "STATUS inside the sequence [%s] got no reply: %s" % (seqdesc, r.brief()))
        elif exp[0] in ("ended", "refused"):
            if not r.ended():
                return "%s: session neither answered nor closed" % sym
            if exp[0] == "refused" and (r.exit_code is not None or r.out):
                # "the offending session ends with an error reply or a closed connection": an execution result is neither
                _violation(self.ctx, "malformed-request-executed|" + sym,
                           "the malformed request `%s` in the sequence [%s] was answered with an execution result instead of an "
                           "error reply / closed connection: %s" % (sym, seqdesc, r.brief()))
        return None

    # -- after every sequence ------------------------------------------------------------------------------------
    def quiesce(self, limit=60.0):
        """Wait until the daemon reports no session but ours (abandoned sessions run until they end or the fuel ends them)."""
        t0 = time.monotonic()
        while time.monotonic() - t0 < limit:
            if not self.dm.alive():
                return True
            a = vc.status(self.dir, 10.0).active_clients()
            if a is not None and a <= 1:
                return True
            time.sleep(0.005)
        return False

    def post_check(self, seqdesc, rng):
        """-> 'ok' | 'died' | trouble string"""
        if not self.quiesce():
            if self.dm.alive():
                return "quiesce: the daemon still reports sessions in service 60 s after [%s]" % seqdesc
        if not self.dm.alive():
            return "died"
        p = vc.ping(self.dir, 30.0)
        if not self.dm.alive():
            return "died"
        if p.timeout or p.exc:
            return "post-sequence PING: exc=%s timeout=%s" % (p.exc, p.timeout)
        if not p.pong and self.dm.wait_dead(2.0):
            return "died"                                      # it was dying while we pinged; judged as a death
        if not p.pong:
            _violation(self.ctx, "ping-unanswered|after-sequence", "after the sequence [%s] the daemon (alive) did not answer PING with PONG: %s"
                       % (seqdesc, p.brief()))
        name = rng.choice(sorted(self.good))
        g = self.good[name]
        r = vc.exec_module(self.dir, g["blob"], 60.0)
        if not self.dm.alive():
            return "died"
        if r.timeout or r.exc:
            return "post-sequence exec: exc=%s timeout=%s" % (r.exc, r.timeout)
        with _VLOCK:
            self.st["wellformed_compared"] += 1
            self.st["post_checks"] += 1
        if (r.out, r.err_text(), r.exit_code) != (g["out"], g["err"], g["rc"]) and self.dm.wait_dead(2.0):
            return "died"
        if (r.out, r.err_text(), r.exit_code) != (g["out"], g["err"], g["rc"]):
            _violation(self.ctx, "wellformed!=standalone|exec|after-sequence",
                       "after the sequence [%s] a well-formed client (%s) got a result different from standalone\n"
                       "stdout got %d bytes want %d; stderr got %r want %r; exit got %r want %r\nreply: %s"
                       % (seqdesc, name, len(r.out), len(g["out"]), r.err_text()[:200], g["err"][:200], r.exit_code, g["rc"], r.brief()),
                       {"module.nvm": g["blob"], "got.stdout": r.out, "expected.stdout": g["out"]})
        log = self.san_logs()
        if log.strip():
            sig = crash_signature(log)
            _violation(self.ctx, "sanitizer-report|" + sig, "sanitizer report in the log of the (still running) daemon after [%s]\n%s"
                       % (seqdesc, log[:5000]), {"sanitizer.log": log})
        return "ok"

    def record_death(self, seq, seqdesc):
        self.dm.wait_dead(5.0)
        rc = self.dm.returncode()
        log = self.san_logs()
        sig = crash_signature(log)
        tail = self.dm.stderr_text()
        if sig is None:
            # no sanitizer report: the process was killed by a signal the sanitizer does not handle (e.g. SIGPIPE) or exited
            sig = crash_signature(tail) or ("no-sanitizer-report|%s" % ("signal %d" % -rc if rc is not None and rc < 0 else "exit %s" % rc))
        suspects = sorted(set(s for s in seq if s.startswith("hostile:") or s.startswith("loop")))
        with _VLOCK:
            self.st["deaths"].setdefault(sig, {"count": 0, "suspects": {}})
            dd = self.st["deaths"][sig]
            dd["count"] += 1
            for s in suspects:
                dd["suspects"][s] = dd["suspects"].get(s, 0) + 1
            self.st["restarts"] += 1
        files = {"sanitizer.log": log or tail, "sequence.txt": seqdesc + "\n"}
        for s in suspects:
            if s.startswith("hostile:"):
                files["hostile_%s.nvm" % s[8:]] = self.hostile[s[8:]]
        _violation(self.ctx, "daemon-died|" + sig,
                   "nano_vmd (asan flavor) died (rc=%s) during the sequence [%s]; hostile symbols in it: %s\n%s"
                   % (rc, seqdesc, ", ".join(suspects) or "none", (log or tail)[:5000]), files)
        self.start()

    def run_sequence(self, sno, seq, conc):
        """Returns trouble string or None."""
        ctx = self.ctx
        seqdesc = "%s | %d connection(s)" % (" ".join(seq) if len(seq) <= 24 else
                                            "burst of %d: %s ..." % (len(seq), " ".join(seq[:16])), conc)
        results = [None] * len(seq)
        barrier = threading.Barrier(conc)

        def worker(w):
            try:
                barrier.wait(timeout=30)
            except threading.BrokenBarrierError:
                pass
            for i in range(w, len(seq), conc):
                rng = ctx.rng("act", sno, i)
                try:
                    results[i] = self.act(seq[i], rng)
                except Exception as ex:
                    r = vc.Reply()
                    r.exc = "%s: %s" % (type(ex).__name__, ex)
                    results[i] = (r, ("none",))

        ths = [threading.Thread(target=worker, args=(w,), daemon=True) for w in range(conc)]
        for t in ths:
            t.start()
        for t in ths:
            t.join(600)
        verdict = self.post_check(seqdesc, ctx.rng("post", sno))
        died = verdict == "died"
        trouble = None if verdict in ("ok", "died") else verdict
        for sym, res in zip(seq, results):
            if res is None:
                trouble = trouble or "%s: worker did not finish" % sym
                continue
            t = self.judge(sym, res[0], res[1], died, seqdesc)
            trouble = trouble or t
        if died:
            self.record_death(seq, seqdesc)
            return None
        if trouble and self.dm.alive() and vc.proc_idle(self.dm.pid):
            # Not a slow machine: every client of this sequence has closed its socket, the daemon burns no CPU and all its
            # threads sleep, yet a request is unanswered / a session thread has not ended.  That session will never end.
            a = vc.status(self.dir, 10.0).active_clients()
            what = "exec" if trouble.startswith("exec:") or "post-sequence exec" in trouble else trouble.split(":")[0].split(" ")[0]
            _violation(self.ctx, "session-stuck|daemon-idle|" + what,
                       "after the sequence [%s]: %s -- while the daemon is idle (neither it nor its co-processes consumed CPU time over 6 s, all threads sleeping) "
                       "and reports active_clients=%s although every client connection of the sequence is closed\n%s"
                       % (seqdesc, trouble, a, vc.proc_report(self.dm.pid)),
                       {"sequence.txt": seqdesc + "\n"})
            with _VLOCK:
                self.st["restarts"] += 1
                self.st["stuck_sessions"] += 1
            self.dm.stop(grace=0.5)
            self.san_logs()
            self.start()
            return None
        return trouble


# ---------------------------------------------------------------------------------------------------------------
# Idle-timeout family: abandoned connections must not make the daemon shut down under a session that is still running
# ---------------------------------------------------------------------------------------------------------------
# A daemon started with `--idle-timeout T` leaves its accept loop when no connection arrived for T seconds AND no session
# is in service.  Scenario: k connections that go away (before / after a valid header), then j well-formed sessions of a
# module that runs several times longer than T, with nothing else connecting meanwhile.  Oracle: each of the j clients gets
# the standalone result (which implies that the daemon lived until it had sent the EXIT frame).  k = 0 is the control.
# Not flagged: the daemon exiting once it is really idle (that is what the option is for); an attempt in which a client
# received nothing at all (daemon idled out before it was reached, or the machine is overloaded) is repeated, not judged.

LONG_SRC = """
let mut ACC: int = 7
fn spin(n: int) -> int {
    let mut i: int = 0
    while (< i n) {
        set ACC (%% (+ (* ACC 31) i) 1000003)
        set i (+ i 1)
    }
    return ACC
}
shadow spin { assert true }
fn main() -> int {
    (println "W5:start")
    let mut r: int = 0
    while (< r 10) {
        (println (+ "W5:round " (+ (int_to_string r) (+ " acc=" (int_to_string (spin %d))))))
        set r (+ r 1)
    }
    (println "W5:done")
    return 0
}
shadow main { assert true }
"""

# abandoned-connection kinds: the first group never delivers a valid header, the second does
ABORT_KINDS = ("connect_close", "short_header", "wrong_version", "garbage", "len_over_max",
               "header_only", "trunc_half", "disc_before", "slow_loris_abandon")


class LongModule:
    """The long-running module, sized so that a standalone run (asan flavor, this machine, now) takes >= `want` seconds."""

    def __init__(self, ctx, fl, sc):
        self.ctx, self.fl, self.sc = ctx, fl, sc
        self.n = 0
        self.lock = threading.Lock()

    def build(self, n):
        src = self.sc.file("idle/long_%d.nano" % n, LONG_SRC % n)
        out = os.path.join(self.sc.path, "idle", "long_%d.nvm" % n)
        c = sh([self.fl.nano_virt, src, "--emit-nvm", "-o", out], cpu=60, san=True)
        self.ctx.require(c.rc == 0 and os.path.exists(out), "nano_virt failed on the long-running module: %s" % c.brief())
        t0 = time.monotonic()
        a = sh([self.fl.nano_vm, out], cpu=600, wall=1200, san=True)
        dur = time.monotonic() - t0
        self.ctx.require(not a.timeout and not a.sig and not a.sanitizer_report() and a.out.endswith(b"W5:done\n"),
                         "standalone run of the long-running module ended abnormally: %s" % a.brief())
        return dict(n=n, blob=open(out, "rb").read(), out=a.out, err=a.err, rc=a.rc, standalone_s=dur)

    def calibrate(self, want):
        with self.lock:
            n = max(self.n * 2, 20000)
            while True:
                m = self.build(n)
                if m["standalone_s"] >= want:
                    self.n = n
                    self.cur = m
                    return m
                # aim a little beyond the target; at least double
                n = max(n * 2, int(n * 1.3 * want / max(m["standalone_s"], 0.01)))
                self.ctx.require(n < 2000000000, "cannot size the long-running module")


def idle_scenario(ctx, fl, sc, no, T, aborts, j, longmod, good, ist):
    """One scenario on its own daemon.  Returns nothing; records into ist (under _VLOCK) and reports violations."""
    k = len(aborts)
    ddir = sc.sub("idle%03d" % no)
    logbase = os.path.join(ddir, "san")
    desc = "daemon --idle-timeout %d; %s; then %d long session(s), nothing else connecting" % (
        T, ("abandoned connections: " + " ".join(aborts)) if aborts else "no abandoned connection (control)", j)
    for attempt in range(4):
        m = longmod.cur
        dm = vc.Daemon(fl.nano_vmd, ddir, {
            "ASAN_OPTIONS": "log_path=%s:detect_leaks=0:exitcode=97:abort_on_error=0:allocator_may_return_null=1:"
                            "hard_rss_limit_mb=3072:detect_stack_use_after_return=0" % logbase,
            "UBSAN_OPTIONS": "print_stacktrace=1:halt_on_error=1:exitcode=97:log_path=%s" % logbase,
            "PATH": fl.bin + os.pathsep + os.environ.get("PATH", "/usr/bin:/bin"),
        }, args=("--foreground", "--verbose", "--idle-timeout", str(T)))
        try:
            if not dm.start():
                continue                                            # e.g. idled out between start and our first PING
            for i, kind in enumerate(aborts):
                vc.misbehave(ddir, kind, good["count"]["blob"], ctx.rng("idle-abort", no, attempt, i), 20.0)
            tmo = max(180.0, 40.0 * m["standalone_s"])
            if j == 1:
                reps = [vc.exec_module(ddir, m["blob"], tmo)]
            else:
                reps, _, _ = vc.run_wave(ddir, [m["blob"]] * j, mode="barrier", timeout=tmo, sample=False)
            alive_after = dm.alive()
            durs = [(r.t_end - r.t_release) if (r.t_release and r.t_end) else 0.0 for r in reps]
            if any(r.nbytes == 0 or r.timeout for r in reps):
                # not served at all / watchdog: the daemon had legitimately idled out before it was reached, or overload
                with _VLOCK:
                    ist["not_served_retries"] += 1
                continue
            bad = [r for r in reps if (r.out, r.err_text(), r.exit_code) != (m["out"], m["err"], m["rc"])]
            if not bad and min(durs) < 2.0 * T:
                # the sessions were too short to outlive the idle timeout (machine got faster since calibration): resize, repeat
                with _VLOCK:
                    ist["resized"] += 1
                longmod.calibrate(2.0 * m["standalone_s"])
                continue
            with _VLOCK:
                ist["scenarios"] += 1
                ist["sessions"] += j
                ist["with_aborts" if k else "control"] += 1
                ist["by_kind"].update({a: ist["by_kind"].get(a, 0) + 1 for a in aborts})
                ist["min_session_s"] = round(min([ist["min_session_s"]] + durs), 2)
                if len(ist["samples"]) < 4:
                    ist["samples"].append({"idle_timeout_s": T, "abandoned": list(aborts), "long_sessions": j,
                                           "session_s": [round(d, 2) for d in durs], "daemon_alive_after": alive_after})
            if bad:
                r = bad[0]
                tail = dm.stderr_text(1500)
                _violation(ctx, "wellformed!=standalone|long-session|idle-timeout-daemon|abandoned=%d,sessions=%d" % (k, j),
                           "%s\na long-running well-formed session did not get the standalone result: stdout %d of %d bytes, "
                           "stderr %r (want %r), exit %r (want %r); session lasted %.1f s (standalone %.1f s); daemon alive afterwards: %s "
                           "(rc=%s)\ndaemon log:\n%s"
                           % (desc, len(r.out), len(m["out"]), r.err_text()[:200], m["err"][:200], r.exit_code, m["rc"],
                              durs[reps.index(r)], m["standalone_s"], alive_after, dm.returncode(), tail),
                           {"long.nvm": m["blob"], "got.stdout": r.out, "expected.stdout": m["out"], "daemon.log": tail})
            log = ""
            for f in sorted(os.listdir(ddir)):
                if f.startswith("san."):
                    log += open(os.path.join(ddir, f), errors="replace").read()
            if log.strip():
                _violation(ctx, "sanitizer-report|" + str(crash_signature(log)), "sanitizer report of the idle-timeout daemon (%s)\n%s"
                           % (desc, log[:4000]), {"sanitizer.log": log})
            if not bad and k == 0:
                # the legitimate case, observed (never flagged): left alone, the daemon shuts down by itself after the timeout
                t0 = time.monotonic()
                while dm.alive() and time.monotonic() - t0 < T + 20:
                    time.sleep(0.05)
                dm.wait_dead(10.0)          # the leader may already be a zombie while a detached thread is still exiting
                with _VLOCK:
                    if not dm.alive() and dm.returncode() == 0:
                        ist["idle_exits_observed"] += 1
                    else:
                        ist.setdefault("idle_exit_not_seen", []).append(
                            {"alive": dm.alive(), "rc": dm.returncode(), "waited_s": round(time.monotonic() - t0, 1),
                             "status": str(vc.status(ddir, 5.0).status), "log_tail": dm.stderr_text(400)})
            return
        finally:
            dm.stop(grace=0.5)
    with _VLOCK:
        ist["gave_up"] += 1


def idle_family(ctx, fl, sc, good, ist):
    T = 1
    longmod = LongModule(ctx, fl, sc)
    longmod.calibrate(4.0 * T)
    ist["long_module_iterations"] = longmod.cur["n"] * 10
    ist["long_module_standalone_s"] = round(longmod.cur["standalone_s"], 2)
    plans = [(T, (), 1), (T, ("connect_close",), 1)]
    rng = ctx.rng("idle-plans")
    early = ABORT_KINDS[:5]
    if ctx.quick():
        plans += [(T, (rng.choice(early[1:]),), 1), (T, (rng.choice(early), rng.choice(ABORT_KINDS)), 2)]
    else:
        plans += [(T, (a,), 1) for a in ABORT_KINDS[1:]]
        plans += [(T, (rng.choice(early), rng.choice(ABORT_KINDS)), 2) for _ in range(3)]
        plans += [(T, tuple(rng.choice(ABORT_KINDS) for _ in range(3)), 3), (T, tuple(rng.choice(early) for _ in range(3)), 3),
                  (T, tuple(rng.choice(ABORT_KINDS) for _ in range(2)), 1), (2, ("connect_close",), 1), (2, (), 1)]
    jobs = [(i,) + p for i, p in enumerate(plans)]
    pmap(lambda jb: idle_scenario(ctx, fl, sc, jb[0], jb[1], jb[2], jb[3], longmod, good, ist), jobs, workers=4)
    ist["planned"] = len(plans)


# ---------------------------------------------------------------------------------------------------------------
# Resource-exhaustion family: the accept loop must survive a failing accept()
# ---------------------------------------------------------------------------------------------------------------
# (1) Descriptor exhaustion for real: the daemon runs under a lowered RLIMIT_NOFILE; more stalled sessions than it has
#     descriptors are opened and kept open (silent / partial header / header announcing a payload that never comes /
#     half a payload); a well-formed client connects during the exhaustion (it waits in the listen backlog); then the
#     stalled clients close.  Steps are logical: "exhausted" = the daemon's own `accept:` diagnostic appeared in its log.
# (2) Fault injection: the daemon runs under `strace -e inject=accept,accept4:error=E:when=K`, so that its K-th accept
#     fails with E (the connection stays in the backlog and is taken by the next accept); "(INJECTED)" in the strace
#     log proves that the fault fired.
# Verdict for both: daemon process alive, PING answered, the well-formed clients (the waiting one and later ones) get the
# standalone result.  Watchdogs only make a scenario inconclusive (repeated once).

STALL_KINDS = ("silent", "partial_header", "header_no_payload", "half_payload")
INJECT_ERRNOS = ("EMFILE", "ENFILE", "ENOMEM", "EPROTO", "ENOBUFS", "ECONNABORTED", "EPERM")


def _equal(r, g):
    return (r.out, r.err_text(), r.exit_code) == (g["out"], g["err"], g["rc"])


def _asan_env(fl, logbase):
    return {"ASAN_OPTIONS": "log_path=%s:detect_leaks=0:exitcode=97:abort_on_error=0:allocator_may_return_null=1:"
                            "hard_rss_limit_mb=3072:detect_stack_use_after_return=0" % logbase,
            "UBSAN_OPTIONS": "print_stacktrace=1:halt_on_error=1:exitcode=97:log_path=%s" % logbase,
            "PATH": fl.bin + os.pathsep + os.environ.get("PATH", "/usr/bin:/bin")}


def _gone_key(dm, where):
    dm.wait_dead(10.0)
    rc = dm.returncode()
    return "daemon-gone|%s|%s" % (where, "signal %d" % -rc if rc is not None and rc < 0 else "exit %s" % rc)


def _san_report(ctx, ddir, desc):
    log = ""
    for f in sorted(os.listdir(ddir)):
        if f.startswith("san."):
            log += open(os.path.join(ddir, f), errors="replace").read()
    if log.strip():
        _violation(ctx, "sanitizer-report|" + str(crash_signature(log)), "sanitizer report of the daemon (%s)\n%s" % (desc, log[:4000]),
                   {"sanitizer.log": log})


def fd_exhaustion_scenario(ctx, fl, sc, no, limit, good, xst):
    ddir = sc.sub("fdx%03d" % no)
    desc = "daemon under RLIMIT_NOFILE=%d; %d stalled sessions kept open; a well-formed client connects meanwhile; stalled clients close" % (limit, limit + 4)
    g1, g2 = good["count"], good["hello"]
    for attempt in (0, 1):
        dm = vc.Daemon(fl.nano_vmd, ddir, _asan_env(fl, os.path.join(ddir, "san")), nofile=limit)
        socks = []
        try:
            if not dm.start():
                continue
            if not _equal(vc.exec_module(ddir, g2["blob"], 60.0), g2):
                continue                                          # reference exec before any stress: harness trouble, not a verdict
            # more stalled sessions than the process has descriptors; the surplus waits in the listen backlog (16)
            trouble = None
            rng = ctx.rng("fdx", no, attempt)
            for i in range(limit + 4):
                kind = STALL_KINDS[(i + no) % len(STALL_KINDS)]
                try:
                    s = vc.connect(ddir, 30.0)
                except Exception as ex:
                    trouble = "stalled connection %d: %s" % (i, ex)
                    break
                socks.append(s)
                blob = g1["blob"]
                data = {"silent": b"", "partial_header": vc.header(vc.LOAD_EXEC, len(blob))[:rng.randrange(1, 8)],
                        "header_no_payload": vc.header(vc.LOAD_EXEC, 4096),
                        "half_payload": vc.header(vc.LOAD_EXEC, len(blob)) + blob[:len(blob) // 2]}[kind]
                rep = vc.Reply()
                if data:
                    vc._send(s, data, rep, 30.0)
            # logical step: the daemon itself has reported a failing accept()
            t0 = time.monotonic()
            exhausted = False
            while not trouble and time.monotonic() - t0 < 60:
                if "accept:" in dm.stderr_text(400) or not dm.alive():
                    exhausted = True
                    break
                time.sleep(0.005)
            if trouble or not exhausted:
                with _VLOCK:
                    xst["fd_retries"] += 1
                continue
            # a well-formed client arrives during the exhaustion
            res = {}
            th = threading.Thread(target=lambda: res.setdefault("w1", vc.exec_module(ddir, g1["blob"], 120.0)), daemon=True)
            th.start()
            time.sleep(0.05)
            for s in socks:
                try:
                    s.close()
                except OSError:
                    pass
            socks = []
            th.join(150)
            w1 = res.get("w1")
            alive = dm.alive()
            w2 = vc.exec_module(ddir, g2["blob"], 60.0) if alive else None
            pg = vc.ping(ddir, 30.0) if alive else None
            alive = dm.alive()
            if alive and (w1 is None or w1.timeout or w2.timeout or w2.exc or pg.timeout or pg.exc):
                with _VLOCK:
                    xst["fd_retries"] += 1                       # watchdog: not a verdict
                continue
            with _VLOCK:
                xst["fd_scenarios"] += 1
                xst["fd_limits"][str(limit)] = xst["fd_limits"].get(str(limit), 0) + 1
                xst["fd_stalled_sessions"] += limit + 4
                xst["wellformed_compared"] += 2
            tail = dm.stderr_text(600)
            if not alive:
                _violation(ctx, _gone_key(dm, "descriptor-exhaustion"),
                           "%s\nthe daemon process went away (rc=%s) when accept() failed for lack of descriptors; waiting client: %s\ndaemon log tail:\n%s"
                           % (desc, dm.returncode(), w1.brief() if w1 else None, tail), {"daemon.log": tail})
            else:
                if not _equal(w1, g1):
                    _violation(ctx, "wellformed!=standalone|exec|during-descriptor-exhaustion",
                               "%s\nthe client that connected during the exhaustion did not get the standalone result: %s" % (desc, w1.brief()))
                if not _equal(w2, g2):
                    _violation(ctx, "wellformed!=standalone|exec|after-descriptor-exhaustion",
                               "%s\na client that connected after the exhaustion did not get the standalone result: %s" % (desc, w2.brief()))
                if not pg.pong:
                    _violation(ctx, "ping-unanswered|after-descriptor-exhaustion", "%s\nPING unanswered: %s" % (desc, pg.brief()))
            _san_report(ctx, ddir, desc)
            return
        finally:
            for s in socks:
                try:
                    s.close()
                except OSError:
                    pass
            dm.stop(grace=0.5)
            try:
                os.truncate(dm.log, 0)                           # the unmodified daemon logs every failed accept
            except OSError:
                pass
    with _VLOCK:
        xst["gave_up"] += 1


def accept_inject_scenario(ctx, fl, sc, no, err, when, good, xst):
    ddir = sc.sub("inj%03d" % no)
    slog = os.path.join(ddir, "strace.log")
    desc = "daemon under strace, accept() #%d fails with %s (injected)" % (when, err)
    g = good["hello"]
    for attempt in (0, 1):
        if os.path.exists(slog):
            os.unlink(slog)
        dm = vc.Daemon(fl.nano_vmd, ddir, _asan_env(fl, os.path.join(ddir, "san")),
                       prefix=["strace", "-f", "-o", slog, "-e", "trace=accept,accept4",
                               "-e", "inject=accept,accept4:error=%s:when=%d" % (err, when), "--"])
        try:
            if not dm.start():
                continue
            reps = []
            for i in range(when + 3):                          # Daemon.start used at least one accept itself
                reps.append(vc.exec_module(ddir, g["blob"], 60.0))
                if not dm.alive():
                    break
            alive = dm.alive()
            pg = vc.ping(ddir, 30.0) if alive else None
            alive = dm.alive()
            fired = "(INJECTED)" in (open(slog, errors="replace").read() if os.path.exists(slog) else "")
            if not fired or (alive and (pg.timeout or pg.exc or any(r.timeout or r.exc for r in reps))):
                with _VLOCK:
                    xst["inject_retries"] += 1
                continue
            with _VLOCK:
                xst["inject_scenarios"] += 1
                xst["inject_errnos"][err] = xst["inject_errnos"].get(err, 0) + 1
                xst["wellformed_compared"] += len(reps)
            tail = dm.stderr_text(600)
            if not alive:
                _violation(ctx, _gone_key(dm, "accept-failure-injected"),
                           "%s\nthe daemon process went away (rc=%s) after the injected accept() failure; clients so far: %s\ndaemon log tail:\n%s"
                           % (desc, dm.returncode(), [r.brief()["exit"] for r in reps], tail), {"daemon.log": tail})
            else:
                bad = [r for r in reps if not _equal(r, g)]
                if bad:
                    _violation(ctx, "wellformed!=standalone|exec|around-injected-accept-failure",
                               "%s\n%d of %d well-formed clients did not get the standalone result: %s" % (desc, len(bad), len(reps), bad[0].brief()))
                if not pg.pong:
                    _violation(ctx, "ping-unanswered|after-injected-accept-failure", "%s\nPING unanswered: %s" % (desc, pg.brief()))
            _san_report(ctx, ddir, desc)
            return
        finally:
            dm.stop(grace=0.5)
    with _VLOCK:
        xst["gave_up"] += 1


def strace_usable(fl, sc):
    """strace present, ptrace permitted and injection syntax understood: `true` must see an injected failure."""
    import shutil
    if not shutil.which("strace"):
        return False
    log = os.path.join(sc.sub("strace-probe"), "p.log")
    r = sh(["strace", "-o", log, "-e", "trace=getpid", "-e", "inject=getpid:error=EPERM:when=1", "python3", "-c", "import os; os.getpid()"],
           cpu=30)
    try:
        return r.rc == 0 and "(INJECTED)" in open(log, errors="replace").read()
    except OSError:
        return False


def exhaustion_family(ctx, fl, sc, good, xst):
    jobs = []
    limits = (40, 64) if ctx.quick() else (24, 32, 40, 48, 64, 96, 128)
    for i, lim in enumerate(limits):
        jobs.append(("fd", i, lim))
    xst["strace_usable"] = strace_usable(fl, sc)
    if xst["strace_usable"]:
        rng = ctx.rng("inject-plans")
        errs = list(INJECT_ERRNOS)
        if ctx.quick():
            errs = ["ENFILE", "ENOMEM", rng.choice(["EPROTO", "ENOBUFS", "ECONNABORTED", "EPERM", "EMFILE"])]
        for i, e in enumerate(errs):
            for w in ((3,) if ctx.quick() else (2, 3, 6)):
                jobs.append(("inj", len(jobs), e, w))
    xst["planned"] = len(jobs)

    def one(jb):
        if jb[0] == "fd":
            fd_exhaustion_scenario(ctx, fl, sc, jb[1], jb[2], good, xst)
        else:
            accept_inject_scenario(ctx, fl, sc, jb[1], jb[2], jb[3], good, xst)
    pmap(one, jobs, workers=4)


def make_sequences(ctx, n, alphabet, weights):
    seqs = []
    for s in range(n):
        rng = ctx.rng("seq", s)
        ln = rng.randrange(1, 13)
        seq = tuple(rng.choices(alphabet, weights)[0] for _ in range(ln))
        conc = min(ln, rng.randrange(1, 9))
        seqs.append((s, seq, conc))
    return seqs


def run(ctx):
    fl = build.get("asan")
    for b in (fl.nano_vmd, fl.nano_vm, fl.nano_virt):
        ctx.require(os.path.exists(b), "asan flavor lacks %s" % b)
    with Scratch("c18") as sc:
        lanes = []
        try:
            return _run(ctx, fl, sc, lanes)
        finally:
            for ln in lanes:
                ln.dm.stop(grace=1.0)
            for dp, dn, fn in os.walk(sc.path):
                if "vmd.pid" in fn:
                    vc.Daemon("/bin/false", dp).stop(grace=0.2)


def _run(ctx, fl, sc, lanes):
    repo_hash0 = _repo_hash()
    # ---- modules + standalone expectations -----------------------------------------------------------------------
    good, loops = {}, {}

    def prep(item):
        name, text = item
        src = sc.file("mods/%s.nano" % name, text)
        out = os.path.join(sc.path, "mods", name + ".nvm")
        c = sh([fl.nano_virt, src, "--emit-nvm", "-o", out], cpu=60, san=True)
        if c.rc != 0 or not os.path.exists(out):
            return name, None, "nano_virt failed on %s: %s" % (name, c.brief())
        blob = open(out, "rb").read()
        if name in LOOPS:
            return name, {"blob": blob}, None
        a = sh([fl.nano_vm, out], cpu=60, san=True, max_out=64 << 20)
        b = sh([fl.nano_vm, out], cpu=60, san=True, env={"NLVERIF_FUEL": str(FUEL)}, max_out=64 << 20)
        if a.timeout or a.sig or a.sanitizer_report():
            return name, None, "standalone run of %s ended abnormally: %s" % (name, a.brief())
        if (a.out, a.err, a.rc) != (b.out, b.err, b.rc):
            return name, None, "well-formed module %s does not fit into the fuel budget %d" % (name, FUEL)
        return name, {"blob": blob, "out": a.out, "err": a.err, "rc": a.rc, "path": out}, None

    for name, info, problem in pmap(prep, list(GOOD.items()) + list(LOOPS.items())):
        ctx.require(problem is None, problem)
        if name in LOOPS:
            loops[name] = info["blob"]
        else:
            good[name] = info
    ctx.require(struct.unpack_from("<I", good["extern"]["blob"], 8)[0] & 2, "module `extern` lacks NVM_FLAG_NEEDS_EXTERN")
    ctx.require(good["fail"]["rc"] != 0 and b"Runtime error" in good["fail"]["err"], "module `fail` is meant to end in a runtime error")
    ctx.require(len(good["big"]["out"]) >= 65536, "module `big` is meant to print >= 64 KiB")
    hostile = hostile_modules(good["count"]["blob"])

    # ---- alphabet -------------------------------------------------------------------------------------------------
    alphabet, weights = [], []
    for g in sorted(good):
        alphabet.append("exec:" + g)
        weights.append(1.6)
    for s in ("ping", "status"):
        alphabet.append(s)
        weights.append(1.5)
    for k in vc.MISBEHAVIOURS:
        alphabet.append(k)
        weights.append(1.0)
    for h in sorted(hostile):
        alphabet.append("hostile:" + h)
        weights.append(0.5)
    for s, w in (("loop_silent", 0.6), ("loop_print_disc", 0.6), ("loop_silent_disc", 0.6), ("loop_print", 0.3)):
        alphabet.append(s)
        weights.append(w)

    nseq = ctx.n(150, 5000)
    seqs = make_sequences(ctx, nseq, alphabet, weights)
    # every symbol at least once, alone, first (so a killer is attributed to exactly one behaviour)
    singles = [(-(i + 1), (a,), 1) for i, a in enumerate(alphabet)]

    # bursts: long runs of sessions that fail while / right after the header is read, interleaved with small well-formed
    # execs on 8 connections (descriptor turnover: every failed session closes its socket while others are being accepted)
    burst_alpha = ["short_header", "wrong_version", "garbage", "header_only", "trunc_0", "len_over_max", "exec:hello", "exec:count", "ping",
                   "len_over_max_hold", "len_huge_hold"]
    burst_w = [2, 2, 1, 2, 1, 1, 3, 2, 1, 0.5, 0.5]
    bursts = []
    for b in range(ctx.n(18, 120)):
        rng = ctx.rng("burst", b)
        bursts.append((100000 + b, tuple(rng.choices(burst_alpha, burst_w)[0] for _ in range(320)), 8))

    # stateful pairs: for every X of the alphabet and every abandoning behaviour Y: fresh daemon, then (X, Y) + post-sequence
    # checks for each Y.  Process-wide state that one kind of session leaves behind (signal dispositions, descriptors, counters)
    # shows when a particular later kind of session meets it.
    pair_y = ["disc_while", "disc_before", "disc_after", "slow_loris_abandon", "loop_print_disc", "trunc_half", "connect_close"]
    pairs = []
    for xi, x in enumerate(alphabet):
        for yi, y in enumerate(pair_y):
            pairs.append((200000 + xi * len(pair_y) + yi, (x, y), 1))

    stats = {"outcomes": {}, "wellformed_compared": 0, "post_checks": 0, "deaths": {}, "restarts": 0,
             "sequences": 0, "pairs": 0, "extern_sessions": 0, "extern_sessions_with_cop_launch": 0, "stuck_sessions": 0, "bursts": 0, "burst_sessions": 0, "symbols": {}, "reruns": 0, "distinct": set(), "max_conc": 0}
    nl = 6
    work = singles + seqs
    # pairs are dealt by X (blocks of len(pair_y)) so that one lane restarts its daemon once per X
    pair_blocks = [pairs[i:i + len(pair_y)] for i in range(0, len(pairs), len(pair_y))]
    shares = [work[i::nl] + bursts[i::nl] + [p for blk in pair_blocks[i::nl] for p in blk] for i in range(nl)]
    errs = []

    def lane_fn(no):
        ln = Lane(ctx, no, fl, sc, good, loops, hostile, stats)
        with _VLOCK:
            lanes.append(ln)
        ln.start()
        for sno, seq, conc in shares[no]:
            if sno >= 200000 and (sno - 200000) % len(pair_y) == 0:
                ln.dm.stop(grace=0.5)                       # fresh daemon for every X of the stateful pairs
                ln.san_logs()
                ln.start()
            trouble = ln.run_sequence(sno, seq, conc)
            if trouble:
                # client-side watchdog / connection trouble is not a verdict: once more on a fresh daemon
                with _VLOCK:
                    stats["reruns"] += 1
                ln.dm.stop(grace=0.5)
                ln.san_logs()
                ln.start()
                trouble2 = ln.run_sequence(sno, seq, conc)
                if trouble2 and ctx.violations:
                    ctx.note("client-side watchdog trouble persisted in [%s] (%s); violations were already recorded, run ends here"
                             % (" ".join(seq)[:200], trouble2))
                    break
                if trouble2:
                    raise core.Inconclusive("client-side watchdog/connection trouble persisted after one re-run of [%s]: %s / %s"
                                            % (" ".join(seq)[:400], trouble, trouble2))
            with _VLOCK:
                if 100000 <= sno < 200000:
                    stats["bursts"] += 1
                    stats["burst_sessions"] += len(seq)
                    continue
                if sno >= 200000:
                    stats["pairs"] += 1
                stats["sequences"] += 1
                stats["distinct"].add(seq)
                stats["max_conc"] = max(stats["max_conc"], conc)
                for s in seq:
                    stats["symbols"][s] = stats["symbols"].get(s, 0) + 1
        ln.dm.stop(grace=1.0)

    def guarded(no):
        try:
            lane_fn(no)
        except LaneAbort:
            pass
        except BaseException as ex:
            errs.append(ex)

    ist = {"scenarios": 0, "sessions": 0, "with_aborts": 0, "control": 0, "by_kind": {}, "min_session_s": 1e9, "samples": [],
           "not_served_retries": 0, "resized": 0, "gave_up": 0, "idle_exits_observed": 0}

    xst = {"fd_scenarios": 0, "fd_limits": {}, "fd_stalled_sessions": 0, "fd_retries": 0, "inject_scenarios": 0, "inject_errnos": {},
           "inject_retries": 0, "wellformed_compared": 0, "gave_up": 0}

    def exhaustion_guarded():
        try:
            exhaustion_family(ctx, fl, sc, good, xst)
        except BaseException as ex:
            errs.append(ex)

    def idle_guarded():
        try:
            idle_family(ctx, fl, sc, good, ist)
        except BaseException as ex:
            errs.append(ex)

    ths = [threading.Thread(target=guarded, args=(i,)) for i in range(nl)] + [threading.Thread(target=idle_guarded), threading.Thread(target=exhaustion_guarded)]
    for t in ths:
        t.start()
    for t in ths:
        t.join()
    if errs and not (ctx.violations and all(isinstance(e, core.Inconclusive) for e in errs)):
        raise errs[0]
    for e in errs:
        ctx.note("ignored after recorded violations: %s" % str(e)[:300])

    if ctx.violations and (_repo_hash() != repo_hash0 or not all(os.path.exists(b) for b in (fl.nano_vmd, fl.nano_vm, fl.nano_cop))):
        # what was observed cannot be attributed to one definite tree / build: not a verdict
        raise core.Inconclusive("/repo (or the cached build in %s) changed while the check was running; unattributable observations: %s"
                                % (fl.root, [v[0] for v in ctx.violations][:6]))
    if ctx.violations:
        stats["symbols"].update({a: stats["symbols"].get(a, 0) for a in alphabet})      # a cut-short run still reports its violations
    ctx.require(ctx.violations or stats["sequences"] >= len(alphabet) + 20, "too few sequences executed (%d)" % stats["sequences"])
    ctx.require(all(a in stats["symbols"] for a in alphabet), "not every symbol of the alphabet was executed")
    ctx.require(ctx.violations or stats["wellformed_compared"] >= 50, "too few well-formed clients compared (%d)" % stats["wellformed_compared"])
    ctx.require(ctx.violations or stats["extern_sessions_with_cop_launch"] >= 5,
                "the extern-calling module was served %d times but a nano_cop launch was seen only %d times: the co-process path "
                "was not exercised" % (stats["extern_sessions"], stats["extern_sessions_with_cop_launch"]))
    ctx.require(ctx.violations or stats["pairs"] == len(pairs), "not all stateful pairs were executed (%d of %d)" % (stats["pairs"], len(pairs)))
    ctx.require(ctx.violations or xst["fd_scenarios"] >= 2,
                "resource-exhaustion family: fewer than two descriptor-exhaustion scenarios reached the failing accept() (%s)" % xst)
    ctx.require(ctx.violations or not xst.get("strace_usable") or xst["inject_scenarios"] >= 2,
                "resource-exhaustion family: strace is usable but fewer than two injected accept() failures fired (%s)" % xst)
    ctx.require(ctx.violations or (ist["with_aborts"] >= 2 and ist["control"] >= 1),
                "idle-timeout family: too few scenarios in which the long sessions outlived the timeout (%s)" % ist)
    ctx.require(ctx.violations or ist["idle_exits_observed"] >= 1,
                "idle-timeout family: the control daemon never shut down by itself, so the idle timeout was not shown to be armed: %s"
                % ist.get("idle_exit_not_seen"))
    samples = [{"sequence": list(seq), "connections": conc} for _, seq, conc in seqs[:5]]
    return ctx.finish({
        "evaluations": stats["sequences"] + stats["bursts"] + ist["scenarios"] + xst["fd_scenarios"] + xst["inject_scenarios"],
        "distinct_nontrivial": len(stats["distinct"]),
        "rule": "distinct symbol sequences (tuples over the alphabet below, length 1..12) executed against a live daemon and followed "
                "by the post-sequence checks; every sequence contains at least one client behaviour and is followed by a liveness, "
                "PING and well-formed-exec check, so none is trivial; the %d single-symbol sequences enumerate the alphabet, the %d "
                "stateful pairs enumerate alphabet x abandoning behaviours (each X on a fresh daemon)" % (len(alphabet), len(pairs)),
        "exhaustive": False,
        "sequences": stats["sequences"], "single_symbol_sequences": len(singles), "random_sequences": nseq,
        "stateful_pairs": stats["pairs"], "stateful_pairs_X": len(alphabet), "stateful_pairs_Y": pair_y,
        "extern_sessions_served": stats["extern_sessions"], "extern_sessions_with_cop_launch": stats["extern_sessions_with_cop_launch"],
        "bursts_320_sessions_on_8_connections": stats["bursts"], "burst_sessions": stats["burst_sessions"], "burst_alphabet": burst_alpha,
        "alphabet": alphabet, "alphabet_size": len(alphabet), "max_concurrent_connections": stats["max_conc"],
        "per_symbol_counts": dict(sorted(stats["symbols"].items())),
        "per_symbol_outcomes": {k: dict(sorted(v.items())) for k, v in sorted(stats["outcomes"].items())},
        "daemon_restarts_needed": stats["restarts"],
        "daemon_deaths_by_signature": stats["deaths"],
        "wellformed_clients_compared": stats["wellformed_compared"], "post_sequence_checks": stats["post_checks"],
        "reruns_after_client_trouble": stats["reruns"],
        "hostile_modules": {k: len(v) for k, v in sorted(hostile.items())},
        "fuel": FUEL, "daemon_lanes": nl,
        "idle_timeout_family": ist,
        "resource_exhaustion_family": xst,
        "samples": samples,
    }, assumptions=[
        "expected values of well-formed modules come from `nano_vm x.nvm` (asan flavor), also run with the same NLVERIF_FUEL to show "
        "that the budget does not touch them",
        "termination of looping modules is restated as 'ends within NLVERIF_FUEL=%d VM instructions' (hook H1)" % FUEL,
        "well-formed sessions that share a sequence with a daemon death are attributed to that death and not judged separately",
        "a session that stays to listen must end with an error reply, an exit code or a closed connection; a client-side watchdog "
        "(60 s) is treated as inconclusive after one re-run, never as a violation",
        "SHUTDOWN is not part of the alphabet (it legitimately stops the daemon)",
        "resource-exhaustion family: descriptor exhaustion is produced for real under a lowered RLIMIT_NOFILE ('exhausted' = the daemon's "
        "own accept diagnostic appeared in its log); other accept() errors are injected with strace (fired = '(INJECTED)' in the strace "
        "log; skipped and reported if strace/ptrace is unusable); watchdog expiry repeats a scenario once and is never a verdict",
        "idle-timeout family: the long module is sized by wall-clock calibration (standalone >= 4x the timeout) and a scenario only "
        "counts if every long session lasted >= 2x the timeout; a daemon that exits when no session is in service is correct and "
        "never flagged; attempts in which a client received no byte at all are repeated, not judged",
        "hostile modules are built here from a compiler-produced image (fixed edits + recomputed CRC32); the C13 mutator is not used",
    ])
