"""C14 - the VM heap never frees or loses count of an object that is still referenced (DESIGN §4 C14).

E: (audit family) at an instruction boundary of a run on the NanoVM a heap object reachable from the operand
   stack / locals / globals / frame closures / other live objects is no longer registered as allocated
   (`dangling`), or its ref_count is smaller than its in-degree (`undercount`), or an object is unregistered
   twice (`double-release`); an ASan report (use-after-free / double free of a VM object); the audited run
   printing something else than the un-audited run (the monitor must not perturb the program).
   (churn family) a loop that allocates values which die in every iteration leaves (or holds at its peak) a
   number of live objects that grows with the number of iterations.
O: hook H2 of /repo (`NLVERIF_AUDIT=<every-n>`, `NLVERIF_AUDIT_LOG`): the registry of live heap objects and the
   in-degree audit at the top of the dispatch loop and at vm_destroy; its records are parsed here.  The
   inequality is `>=` (the VM may hold extra counts).  Everything runs on the asan flavor of `nano_virt --run`.
W: (1) hand-written aliasing templates, (2) the "alias machine" - a dedicated random generator whose only
   business is sharing heap objects between locals, containers, struct fields, globals, frames, unions, tuples,
   hashmaps and function values, (3) nlv.gen programs with the switches that favour aggregates turned on,
   (4) the churn family: one allocating construct per program, run with K and 4K iterations.
"""
import hashlib
import os
import re

from .. import build, sweep, nvmfuzz
from ..run import run as sh, pmap, Scratch

LEVEL = "exploration"

K_ITER = 200                 # churn: K and 4K iterations
EVERY1_LIMIT = 50000         # audit every instruction up to this many instructions, every 64th above
TAGS = {0: "void", 1: "int", 2: "u8", 3: "float", 4: "bool", 5: "string", 6: "bstring", 7: "array", 8: "struct",
        9: "enum", 10: "union", 11: "function", 12: "tuple", 13: "hashmap", 14: "opaque"}

# ------------------------------------------------------------------------------------------------
# running one program
# ------------------------------------------------------------------------------------------------

REC_RE = re.compile(r"^VERIF-AUDIT kind=(\S+)(.*)$")
NUMERIC_FIELDS = ("type", "tag", "rc", "indeg", "ip", "fn", "audits", "objs_seen", "maxdeg", "violations", "registered", "unregistered",
                  "live", "peak_live", "bad_unreg", "orphans", "orphan_records", "new", "total", "count")


def parse_log(path, limit=24 << 20):
    """[(kind, {field: value})] in file order"""
    out = []
    try:
        with open(path, "rb") as f:
            data = f.read(limit)
    except OSError:
        return out
    lines = data.decode("utf-8", "replace").split("\n")
    lines.pop()          # text after the last newline: empty, or a record cut short by a crash / by `limit`
    for line in lines:
        m = REC_RE.match(line)
        if not m:
            continue
        d = {}
        for tok in m.group(2).split():
            if "=" in tok:
                k, v = tok.split("=", 1)
                d[k] = v
        if any(k in d and not d[k].isdigit() for k in NUMERIC_FIELDS):
            continue        # a record garbled by a crash in mid-write
        out.append((m.group(1), d))
    return out


def parse_opstats(path):
    h = {}
    try:
        with open(path) as f:
            for line in f:
                if not line.startswith("OPSTATS"):
                    continue
                for tok in line.split()[1:]:
                    a, b = tok.split(":")
                    h[int(a)] = h.get(int(a), 0) + int(b)
    except OSError:
        pass
    return h


def tag_names(asan):
    """value-tag numbers -> names, read from the repository's header (falls back to the table above)"""
    names = dict(TAGS)
    try:
        txt = open(os.path.join(asan.root, "src", "nanoisa", "isa.h")).read()
        for m in re.finditer(r"\bTAG_([A-Z0-9_]+)\s*=\s*(0x[0-9A-Fa-f]+|\d+)", txt):
            names[int(m.group(2), 0)] = m.group(1).lower()
    except OSError:
        pass
    return names


class Obs:
    __slots__ = ("plain", "aud", "every", "instrs", "records", "summary", "ops", "dir", "main", "retried")


def vm(asan, d, main, env=None, cpu=120):
    return sh([asan.nano_virt, main, "--run"], cwd=d, env=env or {}, cpu=cpu, san=True)


def observe(asan, d, files, main="main.nano", every=None):
    """un-audited run (instruction count from the opcode histogram), then the audited run"""
    os.makedirs(d, exist_ok=True)
    for fn, text in files.items():
        with open(os.path.join(d, fn), "w") as f:
            f.write(text)
    o = Obs()
    o.dir, o.main, o.retried = d, main, False
    st0 = os.path.join(d, "ops0.txt")
    try:
        os.unlink(st0)
    except OSError:
        pass
    o.plain = vm(asan, d, main, {"NLVERIF_OPSTATS": st0})
    if o.plain.timeout:
        o.retried = True
        o.plain = vm(asan, d, main, {"NLVERIF_OPSTATS": st0})
    o.instrs = sum(parse_opstats(st0).values())
    o.every = every or (1 if o.instrs <= EVERY1_LIMIT else 64)
    log = os.path.join(d, "audit.log")
    st1 = os.path.join(d, "ops1.txt")
    for p in (log, st1):
        try:
            os.unlink(p)
        except OSError:
            pass
    env = {"NLVERIF_AUDIT": str(o.every), "NLVERIF_AUDIT_LOG": log, "NLVERIF_OPSTATS": st1}
    o.aud = vm(asan, d, main, env)
    if o.aud.timeout:
        o.retried = True
        for p in (log, st1):
            try:
                os.unlink(p)
            except OSError:
                pass
        o.aud = vm(asan, d, main, env)
    o.records = parse_log(log)
    o.summary = None
    for k, f in o.records:
        if k == "summary":
            o.summary = f
    o.ops = parse_opstats(st1)
    return o


# ------------------------------------------------------------------------------------------------
# violation keys
# ------------------------------------------------------------------------------------------------

CALLS = ("CALL", "CALL_INDIRECT", "CLOSURE_CALL", "CALL_MODULE")


class Keyer:
    """maps the ip of an audit record to the opcode that was executed just before the audit (audit-every-1 runs):
    the linear predecessor of ip inside its function; a function's first instruction means 'just called'."""

    def __init__(self, asan, isa, tags):
        self.asan, self.isa, self.tags = asan, isa, tags
        self._seeds = {}

    def prev_op(self, o, ip, fn):
        try:
            nvm = os.path.join(o.dir, "key.nvm")
            if not os.path.exists(nvm):
                sh([self.asan.nano_virt, o.main, "--emit-nvm", "-o", nvm], cwd=o.dir, cpu=60, san=True)
            s = self._seeds.get(nvm)
            if s is None:
                s = self._seeds[nvm] = nvmfuzz.Seed(open(nvm, "rb").read(), self.isa)
            cands = [fn] + [i for i in range(len(s.fns)) if i != fn]
            for i in cands:
                if i >= len(s.fns):
                    continue
                f = s.fns[i]
                off, ln = f[3], f[4]
                if not (off <= ip <= off + ln):
                    continue
                if ip == off:
                    return "ENTRY"
                for pos, ins in s.fn_ins(i):
                    name, kinds, size = self.isa.ops[ins.op]
                    if off + pos + size == ip:
                        return "RET" if name in CALLS else name
                return "?"
        except Exception:
            pass
        return "?"

    def orphan_keys(self, o):
        """`orphan` records (a live object that no root reaches: a count nothing owns).  Unlike the other kinds they are
        not consequences of each other, so every distinct (type, opcode) is reported.  The opcode needs an
        every-instruction audit: a run audited more coarsely is repeated once at every instruction."""
        recs = [f for k, f in o.records if k == "orphan"]
        if not recs:
            return []
        note = ""
        if o.every != 1:
            log = os.path.join(o.dir, "audit1.log")
            try:
                os.unlink(log)
            except OSError:
                pass
            r = vm(self.asan, o.dir, o.main, {"NLVERIF_AUDIT": "1", "NLVERIF_AUDIT_LOG": log}, cpu=600)
            recs1 = [f for k, f in parse_log(log) if k == "orphan"]
            if recs1 and not r.timeout:
                recs, note = recs1, " [located by repeating the run with an audit at every instruction]"
            else:
                note = " [audit every %d instructions and the every-instruction repeat did not reproduce it: opcode unknown]" % o.every
        out, seen = [], set()
        for f in recs[:400]:
            where = f.get("where", "?")
            after = "destroy" if where == "destroy" else "?"
            if where != "destroy" and "ip" in f and (o.every == 1 or "located" in note):
                after = self.prev_op(o, int(f["ip"]), int(f.get("fn", 0)))
            t = self.tags.get(int(f.get("type", -1)), f.get("type", "?"))
            key = "audit|orphan|type=%s|after=%s" % (t, after)
            if key in seen:
                continue
            seen.add(key)
            out.append((key, "a live %s object (ref_count %s) is not reachable from the operand stack, locals, globals, frame closures or any "
                             "live container at the instruction boundary at ip=%s fn=%s (%s): its count is owned by nothing and it can never "
                             "be released; %d such record(s) in this run%s" % (t, f.get("rc"), f.get("ip"), f.get("fn"), where, len(recs), note)))
        return out

    def keys(self, o):
        """[(key, text)] for the violation records of one observed run: the FIRST record of every kind (later ones are
        consequences that depend on the program), plus the registry's double-release counter."""
        out = self.orphan_keys(o)
        seen = set(["orphan"])
        for kind, f in o.records:
            if kind == "summary" or kind in seen:
                continue
            seen.add(kind)
            if kind == "double-release":
                out.append(("audit|double-release|site=%s" % f.get("site", "?"),
                            "an object was unregistered %s time(s) without being registered (released twice), last site %s" % (f.get("count"), f.get("site"))))
                continue
            where = f.get("where", "?")
            after = "?"
            if where == "destroy":
                after = "destroy"
            elif o.every == 1 and "ip" in f:
                after = self.prev_op(o, int(f["ip"]), int(f.get("fn", 0)))
            if kind == "undercount":
                t = self.tags.get(int(f.get("type", -1)), f.get("type", "?"))
                key = "audit|undercount|type=%s|after=%s" % (t, after)
                txt = "%s object with ref_count %s but in-degree %s at the instruction boundary at ip=%s fn=%s (%s)" % (
                    t, f.get("rc"), f.get("indeg"), f.get("ip"), f.get("fn"), where)
            elif kind == "dangling":
                t = self.tags.get(int(f.get("tag", -1)), f.get("tag", "?"))
                key = "audit|dangling|tag=%s|via=%s|after=%s" % (t, f.get("via", "?"), after)
                txt = "a %s value reachable via %s points to an object that is not allocated any more, at ip=%s fn=%s (%s)" % (
                    t, f.get("via"), f.get("ip"), f.get("fn"), where)
            else:
                key = "audit|%s" % kind
                txt = "unknown audit record %s %s" % (kind, f)
            if o.every != 1:
                txt += " [audit every %d instructions: the opcode is not identified]" % o.every
            out.append((key, txt))
        return out


FRAME_RE = re.compile(r"#\d+ 0x[0-9a-f]+ in (\S+) (\S+)")


def asan_key(report, src_root=None):
    """kind + the innermost two distinct in-repo functions of the FIRST stack of the report"""
    m = re.search(r"(?:AddressSanitizer|UndefinedBehaviorSanitizer): ([A-Za-z0-9_-]+)", report)
    kind = m.group(1) if m else "report"
    if not m and "runtime error:" in report:
        m2 = re.search(r"runtime error: ([a-z -]+)", report)
        kind = "ubsan:" + (m2.group(1).strip().replace(" ", "-")[:40] if m2 else "?")
    first = report[report.find("#0"):] if "#0" in report else report
    first = first.split("\n\n")[0]
    frames = []
    for fm in FRAME_RE.finditer(first):
        fn, loc = fm.group(1), fm.group(2)
        if ("/src/" in loc or loc.startswith("src/")) and (not frames or frames[-1].split("@")[0] != fn):
            if fn == "vm_core_execute":
                fn += _opcode_at(loc, src_root)
            frames.append(fn)
        if len(frames) >= 2:
            break
    return "asan|%s|%s" % (kind, "<".join(frames) or "?")


_VM_CASES = {}


def _opcode_at(loc, src_root):
    """'@OP_X' for a src/nanovm/vm.c:LINE location inside the dispatch switch (the handler the line belongs to)"""
    m = re.search(r"nanovm/vm\.c:(\d+)", loc)
    if not m or not src_root:
        return ""
    if src_root not in _VM_CASES:
        cases = []
        try:
            with open(os.path.join(src_root, "src", "nanovm", "vm.c")) as f:
                for i, line in enumerate(f, 1):
                    cm = re.match(r"\s*case (OP_[A-Z0-9_]+):", line)
                    if cm:
                        cases.append((i, cm.group(1)))
        except OSError:
            pass
        _VM_CASES[src_root] = cases
    line = int(m.group(1))
    name = ""
    for i, nm in _VM_CASES[src_root]:
        if i <= line:
            name = nm
        else:
            break
    return "@" + name if name else ""


# ------------------------------------------------------------------------------------------------
# churn family
# ------------------------------------------------------------------------------------------------

CHURN_DECLS = """struct P { name: string, xs: array<int> }
struct Q { p1: P, p2: P, label: string }
union U { Str { us: string }, Arr { uxs: array<int> }, Non { uz: int } }
union Result<T, E> {
    Ok { value: T },
    Err { error: E }
}
fn inc(x: int) -> int { return (+ x 1) }
fn big(x: int) -> bool { return (> x 1) }
fn add(a: int, b: int) -> int { return (+ a b) }
fn apply(f: fn(int) -> int, x: int) -> int { return (f x) }
fn getf(c: int) -> fn(int) -> int { return inc }
fn mkp(i: int) -> P { return P { name: (int_to_string i), xs: [i, i] } }
fn mkq(i: int) -> Q { return Q { p1: (mkp i), p2: (mkp (+ i 1)), label: (+ "q" (int_to_string i)) } }
fn mkm(i: int) -> HashMap<string, int> {
    let m: HashMap<string, int> = (map_new)
    (map_set m (int_to_string i) 1)
    (map_set m (int_to_string i) 2)
    return m
}
fn mkms(i: int) -> HashMap<string, string> {
    let m: HashMap<string, string> = (map_new)
    (map_set m (int_to_string i) (+ "value-" (int_to_string i)))
    return m
}
fn mkr(i: int) -> Result<string, string> {
    if (== (% i 2) 0) { return Result.Ok { value: (+ "ok-" (int_to_string i)) } } else { return Result.Err { error: (+ "err-" (int_to_string i)) } }
}
fn bump(m: HashMap<string, int>, k: string) -> int {
    if (map_has m k) { (map_set m k (+ (map_get m k) 1)) } else { (map_set m k 1) }
    return (map_get m k)
}
union Parsed { POk { pval: string }, PBad { pwhy: string } }
fn parse(i: int) -> Parsed {
    if (== (% i 3) 0) { return Parsed.PBad { pwhy: (+ "bad-" (int_to_string i)) } } else { return Parsed.POk { pval: (+ "v" (int_to_string i)) } }
}
fn join3(a: string, b: string, c: string) -> string { return (+ a (+ b c)) }
fn cat3(a: array<string>, p: P, s: string) -> string { return (+ (at a 0) (+ p.name s)) }
fn er_concat(i: int) -> string {
    let r: Parsed = (parse i)
    let text: string = (+ (+ (+ "item " (int_to_string i)) ": ") (match r {
        POk(v) => v.pval
        PBad(_e) => { return "skipped" }
    }))
    return text
}
fn er_args(i: int) -> string {
    return (join3 (+ "a" (int_to_string i)) (+ "b" (int_to_string i)) (match (parse i) {
        POk(v) => v.pval
        PBad(_e) => { return "skipped" }
    }))
}
fn er_arrlit(i: int) -> string {
    let r: Parsed = (parse i)
    let a: array<string> = [(+ "a" (int_to_string i)), (+ "b" (int_to_string i)), (match r {
        POk(v) => v.pval
        PBad(_e) => { return "skipped" }
    })]
    return (at a 2)
}
fn er_aggr(i: int) -> string {
    let r: Parsed = (parse i)
    return (cat3 [(+ "a" (int_to_string i)), "z"] P { name: (+ "n" (int_to_string i)), xs: [i, i] } (match r {
        POk(v) => v.pval
        PBad(_e) => { return (+ "skipped-" (int_to_string i)) }
    }))
}
fn er_nested(i: int) -> string {
    let r: Parsed = (parse i)
    let q: Parsed = (parse (+ i 1))
    return (+ (+ "x" (int_to_string i)) (match r {
        POk(v) => (+ (+ v.pval "/") (match q {
            POk(w) => w.pval
            PBad(_f) => { return "inner" }
        }))
        PBad(_e) => { return "outer" }
    }))
}
fn er_struct(i: int) -> string {
    let r: Parsed = (parse i)
    let q: Q = Q { p1: (mkp i), p2: P { name: (+ "m" (int_to_string i)), xs: [i] }, label: (match r {
        POk(v) => v.pval
        PBad(_e) => { return "skipped" }
    }) }
    return q.label
}
fn ids(s: string) -> string { return s }
fn idp(p: P) -> P { return p }
fn ida(a: array<string>) -> array<string> { return a }
fn deep(n: int, s: string) -> string {
    if (<= n 0) { return (+ s "!") } else { return (deep (- n 1) (+ s "x")) }
}
fn ulen(u: U) -> int {
    let mut r: int = 0
    match u {
        Str(a) => { set r (str_length a.us) },
        Arr(b) => { set r (array_length b.uxs) },
        Non(c) => { set r c.uz }
    }
    return r
}
fn uname(u: U) -> string {
    match u {
        Str(a) => { return a.us },
        Arr(b) => { return "arr" },
        Non(c) => { return "non" }
    }
    return "?"
}
fn early(a: array<string>, i: int) -> string {
    let mut j: int = 0
    while (< j (array_length a)) {
        let cur: string = (+ (at a j) "_")
        if (== j (% i 3)) { return cur } else {}
        set j (+ j 1)
    }
    return "none"
}
"""

# construct -> (statements before the loop, loop body, statements after the loop).  `i` is the loop counter, `acc` an
# int accumulator that is printed at the end so that every construct has an observable result.
CHURN = {
    "str_concat": ("", 'let s: string = (+ "a" (int_to_string i))\nset acc (+ acc (str_length s))', ""),
    "str_concat_builtin": ("", 'let s: string = (str_concat "ab" (int_to_string i))\nset acc (+ acc (str_length s))', ""),
    "str_substring": ("", 'let s: string = (str_substring (+ "abcdef" (int_to_string i)) 2 5)\nset acc (+ acc (str_length s))', ""),
    "int_to_string": ("", 'let s: string = (int_to_string (* i 7))\nset acc (+ acc (str_length s))', ""),
    "string_to_int": ("", 'set acc (+ acc (string_to_int (int_to_string i)))', ""),
    "string_from_char": ("", 'let s: string = (string_from_char (+ 65 (% i 26)))\nset acc (+ acc (str_length s))', ""),
    "str_compare": ("", 'if (== (int_to_string i) (+ "1" "0")) { set acc (+ acc 1) } else {}\nif (str_equals (int_to_string i) "11") { set acc (+ acc 1) } else {}\nif (str_contains (int_to_string i) "9") { set acc (+ acc 1) } else {}', ""),
    "char_at": ("", 'set acc (+ acc (char_at (+ "q" (int_to_string i)) 1))', ""),
    "string_reassign": ("let mut s: string = \"\"", 'set s (+ "v" (int_to_string i))\nset acc (+ acc (str_length s))', ""),
    "string_interned_same": ("", 'let a: string = (+ "sa" "me")\nlet b: string = (str_substring "xsamex" 1 4)\nif (== a b) { set acc (+ acc 1) } else {}', ""),
    "println_string": ("", 'if (== (% i 100) 0) { (println (+ "p" (int_to_string i))) } else {}\nlet t: string = (+ "p" (int_to_string i))\nset acc (+ acc (str_length t))', ""),
    "cond_string": ("", 'let s: string = (cond ((== (% i 2) 0) (+ "e" (int_to_string i))) (else (+ "o" (int_to_string i))))\nset acc (+ acc (str_length s))', ""),
    "logic_string_operands": ("", 'if (and (== (int_to_string i) "5") (!= (int_to_string i) "6")) { set acc (+ acc 1) } else {}\nif (or (== (int_to_string i) "5") (== (int_to_string i) "7")) { set acc (+ acc 1) } else {}', ""),
    "array_literal_int": ("", 'let a: array<int> = [i, 1, 2]\nset acc (+ acc (array_length a))', ""),
    "array_literal_string": ("", 'let a: array<string> = [(int_to_string i), "x", (+ "y" (int_to_string i))]\nset acc (+ acc (array_length a))', ""),
    "array_push_int": ("", 'let mut a: array<int> = []\nset a (array_push a i)\nset a (array_push a 2)\nset acc (+ acc (array_length a))', ""),
    "array_push_string": ("", 'let mut a: array<string> = []\nset a (array_push a (int_to_string i))\nset a (array_push a (+ "k" (int_to_string i)))\nset acc (+ acc (array_length a))', ""),
    "array_new_fill_int": ("", 'let a: array<int> = (array_new 3 i)\nset acc (+ acc (array_length a))', ""),
    "array_new_fill_string": ("", 'let a: array<string> = (array_new 3 (int_to_string i))\nset acc (+ acc (array_length a))', ""),
    "array_get_string": ('let keep: array<string> = ["a", "b", "c"]', 'let s: string = (at keep (% i 3))\nset acc (+ acc (str_length s))', ""),
    "array_set_string": ('let mut keep: array<string> = ["a", "b", "c"]', '(array_set keep (% i 3) (int_to_string i))\nset acc (+ acc (array_length keep))', ""),
    "array_set_array": ('let mut keep: array<array<int>> = [[1], [2]]', '(array_set keep (% i 2) [i, i])\nset acc (+ acc (array_length keep))', ""),
    "array_pop_string": ('let mut keep: array<string> = ["a"]', 'set keep (array_push keep (int_to_string i))\nlet s: string = (array_pop keep)\nset acc (+ acc (str_length s))', ""),
    "array_pop_discarded": ('let mut keep: array<string> = ["a"]', 'set keep (array_push keep (int_to_string i))\n(array_pop keep)\nset acc (+ acc (array_length keep))', ""),
    "array_remove_at_int": ('let mut keep: array<int> = [1]', 'set keep (array_push keep i)\n(array_remove_at keep 0)\nset acc (+ acc (array_length keep))', ""),
    "array_remove_at_string": ('let mut keep: array<string> = ["a"]', 'set keep (array_push keep (int_to_string i))\n(array_remove_at keep 0)\nset acc (+ acc (array_length keep))', ""),
    "array_remove_at_array": ('let mut keep: array<array<int>> = [[1]]', 'set keep (array_push keep [i])\n(array_remove_at keep 0)\nset acc (+ acc (array_length keep))', ""),
    "array_slice": ('let keep: array<string> = ["a", "b", "c", "d"]', 'let s: array<string> = (array_slice keep 1 3)\nset acc (+ acc (array_length s))', ""),
    "array_nested": ("", 'let a: array<array<int>> = [[i], [1, 2]]\nlet r: array<int> = (at a 1)\nset acc (+ acc (array_length r))', ""),
    "for_in_fresh_array": ("", 'for s in [(int_to_string i), "z"] {\n set acc (+ acc (str_length s))\n}', ""),
    "for_range": ("", 'for j in (range 0 3) {\n set acc (+ acc j)\n}', ""),
    "struct_literal": ("", 'let p: P = P { name: (int_to_string i), xs: [i] }\nset acc (+ acc (array_length p.xs))', ""),
    "struct_nested": ("", 'let p: P = (mkp i)\nlet q: Q = Q { p1: p, p2: p, label: p.name }\nset acc (+ acc (str_length q.p2.name))', ""),
    "struct_field_read": ('let p: P = (mkp 5)', 'let s: string = p.name\nlet x: array<int> = p.xs\nset acc (+ acc (+ (str_length s) (array_length x)))', ""),
    "struct_array": ("", 'let a: array<P> = [(mkp i), (mkp 1)]\nlet e: P = (at a 0)\nset acc (+ acc (str_length e.name))', ""),
    "tuple": ("", 'let t: (int, string) = (i, (int_to_string i))\nset acc (+ acc (str_length t.1))', ""),
    "tuple_array": ("", 'let t: (string, array<int>) = ((int_to_string i), [i])\nlet a: array<int> = t.1\nset acc (+ acc (array_length a))', ""),
    "union_construct_match": ("", 'let u: U = U.Str { us: (int_to_string i) }\nlet v: U = U.Arr { uxs: [i, 2] }\nset acc (+ acc (+ (ulen u) (ulen v)))', ""),
    "union_match_return": ("", 'let u: U = U.Str { us: (int_to_string i) }\nset acc (+ acc (str_length (uname u)))', ""),
    "match_in_loop": ("", 'let u: U = U.Str { us: (int_to_string i) }\nmatch u {\n Str(a) => { set acc (+ acc (str_length a.us)) },\n Arr(b) => { set acc (+ acc 1) },\n Non(c) => { set acc (+ acc 2) }\n}', ""),
    "continue_in_match": ("", 'let u: U = U.Str { us: (int_to_string i) }\nset i (+ i 1)\nmatch u {\n Str(a) => { continue },\n Arr(b) => { set acc (+ acc 1) },\n Non(c) => { set acc (+ acc 2) }\n}\nset i (- i 1)', ""),
    "break_in_inner_loop": ("", 'let mut j: int = 0\nwhile true {\n let t: string = (+ "t" (int_to_string j))\n set j (+ j 1)\n if (> j 2) { break } else {}\n set acc (+ acc (str_length t))\n}', ""),
    "continue_with_temporaries": ("", 'let t: string = (+ "t" (int_to_string i))\nif (== (% i 2) 0) {\n set i (+ i 1)\n continue\n} else {}\nset acc (+ acc (str_length t))', ""),
    "early_return_in_loop": ('let keep: array<string> = ["a", "b", "c"]', 'set acc (+ acc (str_length (early keep i)))', ""),
    "call_through_frames": ("", 'let s: string = (ids (ids (int_to_string i)))\nlet p: P = (idp (mkp i))\nlet a: array<string> = (ida [s, p.name])\nset acc (+ acc (array_length a))', ""),
    "recursion_string": ("", 'set acc (+ acc (str_length (deep 6 (int_to_string i))))', ""),
    "global_string_reassign": ("", 'set g_s (+ "g" (int_to_string i))\nset acc (+ acc (str_length g_s))', ""),
    "global_array_reassign": ("", 'set g_a [(int_to_string i), "h"]\nset acc (+ acc (array_length g_a))', ""),
    "global_array_push_pop": ("", 'set g_a (array_push g_a (int_to_string i))\nlet s: string = (array_pop g_a)\nset acc (+ acc (str_length s))', ""),
    "fn_indirect_call": ("", 'set acc (+ (apply inc i) (- acc i))', ""),
    "fn_value_local_call": ("", 'let f: fn(int) -> int = inc\nset acc (+ (f i) (- acc i))', ""),
    "fn_value_returned": ("", 'let f: fn(int) -> int = (getf i)\nset acc (+ (f i) (- acc i))', ""),
    "fn_value_unused": ("", 'let f: fn(int) -> int = inc\nset acc (+ acc 1)', ""),
    "map_builtin": ("let keep: array<int> = [1, 2, 3]", 'let m: array<int> = (map keep inc)\nset acc (+ acc (at m 0))', ""),
    "filter_builtin": ("let keep: array<int> = [1, 2, 3]", 'let m: array<int> = (filter keep big)\nset acc (+ acc (array_length m))', ""),
    "reduce_builtin": ("let keep: array<int> = [1, 2, 3]", 'set acc (+ acc (reduce keep 0 add))', ""),
    "hashmap_new_set": ("", 'let m: HashMap<string, int> = (map_new)\n(map_set m (int_to_string i) i)\n(map_set m "k" 1)\nset acc (+ acc (map_length m))', ""),
    "hashmap_overwrite": ('let m: HashMap<string, int> = (map_new)', '(map_set m (+ "k" "ey") i)\n(map_set m (int_to_string (% i 4)) i)\nset acc (+ acc (map_length m))', ""),
    "hashmap_get_has": ('let m: HashMap<string, int> = (map_new)\n(map_set m "1" 5)', 'if (map_has m (int_to_string (% i 3))) { set acc (+ acc (map_get m (int_to_string (% i 3)))) } else {}', ""),
    # -- the update path of the hashmap (same key written again) with key TEXT that differs per iteration: with identical
    #    text the interning table folds every key object into one and a lost key reference cannot show as growth
    "hashmap_update_string_key": ("", 'let m: HashMap<string, int> = (map_new)\nlet key: string = (+ "word-" (int_to_string i))\n(map_set m key 1)\n(map_set m "fixed" i)\n(map_set m key 2)\nset acc (+ acc (map_get m key))', ""),
    "hashmap_update_rebuilt_key": ("", 'let m: HashMap<string, int> = (map_new)\n(map_set m (+ "w" (int_to_string i)) 1)\n(map_set m (str_concat "w" (int_to_string i)) 2)\n(map_set m (+ "w" (int_to_string i)) 3)\nset acc (+ acc (map_length m))', ""),
    "hashmap_counter_update": ("", 'let m: HashMap<string, int> = (map_new)\nlet key: string = (+ "cnt-" (int_to_string i))\n(map_set m key 0)\nlet mut j: int = 0\nwhile (< j 3) {\n (map_set m key (+ (map_get m key) 1))\n set j (+ j 1)\n}\nset acc (+ acc (map_get m key))', ""),
    "hashmap_scoped_many_keys": ("", 'let m: HashMap<string, int> = (map_new)\nlet mut j: int = 0\nwhile (< j 4) {\n (map_set m (+ (int_to_string i) (+ "/" (int_to_string j))) j)\n set j (+ j 1)\n}\nset j 0\nwhile (< j 4) {\n (map_set m (+ (int_to_string i) (+ "/" (int_to_string j))) (+ j 10))\n set j (+ j 1)\n}\nset acc (+ acc (map_length m))', ""),
    "hashmap_update_fixed_keys_fresh_values": ('let m: HashMap<string, string> = (map_new)\nlet keys: array<string> = ["a", "b", "c"]\n(map_set m "a" "0")\n(map_set m "b" "0")\n(map_set m "c" "0")', '(map_set m (at keys (% i 3)) (+ "v" (int_to_string i)))\nset acc (+ acc (map_length m))', ""),
    "hashmap_string_values_scoped": ("", 'let m: HashMap<string, string> = (map_new)\nlet key: string = (+ "k" (int_to_string i))\n(map_set m key (+ "first" (int_to_string i)))\n(map_set m key (+ "second" (int_to_string i)))\nlet v: string = (map_get m key)\nset acc (+ acc (str_length v))', ""),
    "hashmap_values_of_string_map": ('let m: HashMap<string, string> = (map_new)\n(map_set m "a" "x")', '(map_set m "a" (+ "val" (int_to_string i)))\nlet vs: array<string> = (map_values m)\nset acc (+ acc (str_length (at vs 0)))', ""),
    "hashmap_passed_and_updated": ("", 'let m: HashMap<string, int> = (map_new)\nset acc (+ acc (bump m (+ "p" (int_to_string i))))\nset acc (+ acc (bump m (+ "p" (int_to_string i))))', ""),
    # -- builtins that are compiled to OP_CALL_EXTERN and take / return heap values
    "extern_call_string_arg": ("", 'set acc (+ acc (bstr_utf8_length (+ "abc" (int_to_string i))))', ""),
    "extern_call_string_arg_bool": ("", 'if (bstr_validate_utf8 (+ "abc" (int_to_string i))) { set acc (+ acc 1) } else {}', ""),
    "extern_call_string_result": ("", 'let e: string = (getenv (+ "NLV_C14_NO_SUCH_VAR_" (int_to_string i)))\nset acc (+ acc (str_length e))', ""),
    "extern_call_array_result": ("", 'let b: array<int> = (bytes_from_string (+ "abc" (int_to_string i)))\nset acc (+ acc (array_length b))', ""),
    "extern_call_int_arg": ("", 'let s: string = (string_from_char (+ 65 (% i 26)))\nif (is_digit (+ 48 (% i 12))) { set acc (+ acc (str_length s)) } else {}', ""),
    # -- projections applied to temporaries (the container's only reference is the operand-stack slot)
    "temp_struct_field": ("", 'let s: string = (mkp i).name\nlet x: array<int> = (mkp i).xs\nset acc (+ acc (+ (str_length s) (array_length x)))', ""),
    "temp_nested_field": ("", 'let s: string = (mkq i).p2.name\nlet t: string = (mkq i).label\nset acc (+ acc (+ (str_length s) (str_length t)))', ""),
    "temp_literal_projection": ("", 'let s: string = (at [(+ "e" (int_to_string i)), "z"] 0)\nlet t: string = (i, (+ "t" (int_to_string i))).1\nlet u: string = P { name: (+ "n" (int_to_string i)), xs: [i] }.name\nset acc (+ acc (+ (str_length s) (+ (str_length t) (str_length u))))', ""),
    "temp_result_unwrap": ("", 'let s: string = (result_unwrap (mkr (* 2 i)))\nlet e: string = (result_unwrap_err (mkr (+ 1 (* 2 i))))\nset acc (+ acc (+ (str_length s) (str_length e)))', ""),
    "temp_string_map_get": ("", 'let s: string = (map_get (mkms i) (int_to_string i))\nset acc (+ acc (str_length s))', ""),
    "keys_of_temporary_map": ("", 'let ks: array<string> = (map_keys (mkm i))\nset acc (+ acc (+ (array_length ks) (map_get (mkm i) (int_to_string i))))', ""),
    # -- `return` executed INSIDE an expression (block arm of a match expression) while operands of the enclosing
    #    expression are pending on the operand stack: OP_RET has to release them
    "early_return_pending_string": ("", 'set acc (+ acc (str_length (er_concat i)))', ""),
    "early_return_pending_call_args": ("", 'set acc (+ acc (str_length (er_args i)))', ""),
    "early_return_pending_array_literal": ("", 'set acc (+ acc (str_length (er_arrlit i)))', ""),
    "early_return_pending_array_struct": ("", 'set acc (+ acc (str_length (er_aggr i)))', ""),
    "early_return_pending_nested": ("", 'set acc (+ acc (str_length (er_nested i)))', ""),
    "early_return_pending_in_callee_of_pending": ("", 'let s: string = (+ (+ "outer-" (int_to_string i)) (er_concat i))\nset acc (+ acc (str_length s))', ""),
    "early_return_pending_struct_fields": ("", 'set acc (+ acc (str_length (er_struct i)))', ""),
    "hashmap_keys_values": ('let m: HashMap<string, int> = (map_new)\n(map_set m "a" 1)\n(map_set m "b" 2)', 'let ks: array<string> = (map_keys m)\nlet vs: array<int> = (map_values m)\nset acc (+ acc (+ (array_length ks) (array_length vs)))', ""),
}


def churn_program(name, n):
    pre, body, post = CHURN[name]
    ind = lambda t, k: "\n".join(" " * k + l for l in t.split("\n") if l.strip())
    return (CHURN_DECLS + 'let mut g_s: string = "g"\nlet mut g_a: array<string> = []\n\nfn main() -> int {\n    let mut acc: int = 0\n    let mut i: int = 0\n'
            + (ind(pre, 4) + "\n" if pre else "") + "    while (< i %d) {\n" % n + ind(body, 8) + "\n        set i (+ i 1)\n    }\n"
            + (ind(post, 4) + "\n" if post else "") + '    (println acc)\n    return 0\n}\nshadow main { assert true }\n')


# ------------------------------------------------------------------------------------------------
# the alias machine: random programs whose only business is sharing heap objects
# ------------------------------------------------------------------------------------------------

TY = {"S": "string", "AI": "array<int>", "AS": "array<string>", "AA": "array<array<int>>", "AP": "array<P>", "P": "P",
      "Q": "Q", "U": "U", "TS": "(int, string)", "TA": "(string, array<int>)", "M": "HashMap<string, int>",
      "F": "fn(array<int>) -> array<int>"}
ELEM = {"AI": "I", "AS": "S", "AA": "AI", "AP": "P"}
GLOBALS = {"S": "g_s", "AI": "g_ai", "AS": "g_as", "P": "g_p", "AA": "g_aa"}
ID_TYPES = ["S", "AI", "AS", "AA", "AP", "P", "Q", "U", "TS", "TA"]


def am_decls():
    out = ["struct P { name: string, xs: array<int>, tags: array<string> }",
           "struct Q { p1: P, p2: P, label: string }",
           "union U { Str { us: string }, Arr { uxs: array<int> }, Rec { rp: P }, Non { uz: int } }",
           "union Result<T, E> {\n    Ok { value: T },\n    Err { error: E }\n}",
           'let mut g_s: string = "g"', "let mut g_ai: array<int> = []", "let mut g_as: array<string> = []",
           'let mut g_p: P = P { name: "gp", xs: [], tags: [] }', "let mut g_aa: array<array<int>> = []", ""]
    for t in ID_TYPES:
        T = TY[t]
        out.append("fn id_%s(x: %s) -> %s { return x }" % (t, T, T))
        out.append("fn id2_%s(x: %s) -> %s {\n    let y: %s = (id_%s x)\n    return y\n}" % (t, T, T, T, t))
        out.append("fn id3_%s(x: %s) -> %s { return (id2_%s (id_%s x)) }" % (t, T, T, t, t))
        out.append("fn pick_%s(a: %s, b: %s, c: bool) -> %s {\n    if c { return a } else { return b }\n}" % (t, T, T, T))
    for t, g in GLOBALS.items():
        T = TY[t]
        out.append("fn keep_%s(x: %s) -> %s {\n    set %s x\n    return x\n}" % (t, T, T, g))
        out.append("fn swap_%s(x: %s) -> %s {\n    let old: %s = %s\n    set %s x\n    return old\n}" % (t, T, T, T, g, g))
    out.append("""fn get_AS(a: array<string>, i: int, d: string) -> string {
    if (< i (array_length a)) { return (at a i) } else { return d }
}
fn get_AA(a: array<array<int>>, i: int, d: array<int>) -> array<int> {
    if (< i (array_length a)) { return (at a i) } else { return d }
}
fn get_AP(a: array<P>, i: int, d: P) -> P {
    if (< i (array_length a)) { return (at a i) } else { return d }
}
fn u_s(u: U, d: string) -> string {
    let mut o: string = d
    match u {
        Str(a) => { set o a.us },
        Arr(b) => { set o d },
        Rec(c) => {
            let pp: P = c.rp
            set o pp.name
        },
        Non(e) => { set o (int_to_string e.uz) }
    }
    return o
}
fn u_xs(u: U, d: array<int>) -> array<int> {
    let mut o: array<int> = d
    match u {
        Str(a) => { set o d },
        Arr(b) => { set o b.uxs },
        Rec(c) => {
            let pp: P = c.rp
            set o pp.xs
        },
        Non(e) => { set o [e.uz] }
    }
    return o
}
fn u_p(u: U, d: P) -> P {
    let mut o: P = d
    match u {
        Str(a) => { set o d },
        Arr(b) => { set o d },
        Rec(c) => { set o c.rp },
        Non(e) => { set o d }
    }
    return o
}
fn mk_as(n: int, pre: string) -> array<string> {
    let mut out: array<string> = []
    let mut i: int = 0
    while (< i n) {
        set out (array_push out (+ pre (int_to_string i)))
        set i (+ i 1)
    }
    return out
}
fn mk_p(nm: string, xs: array<int>, tags: array<string>) -> P {
    return P { name: nm, xs: xs, tags: tags }
}
fn twice(f: fn(array<int>) -> array<int>, a: array<int>) -> array<int> { return (f (f a)) }
fn apply_f(f: fn(array<int>) -> array<int>, a: array<int>) -> array<int> {
    let r: array<int> = (f a)
    return r
}
fn choose_f(c: bool) -> fn(array<int>) -> array<int> {
    if c { return id_AI } else { return id2_AI }
}
fn dbl(x: int) -> int { return (* x 2) }
fn fresh_s(i: int) -> string { return (+ "fresh-string-number-" (int_to_string i)) }
fn fresh_p(i: int) -> P { return P { name: (fresh_s i), xs: [i, i], tags: [(fresh_s (+ i 1)), (fresh_s (+ i 2))] } }
fn fresh_q(i: int) -> Q { return Q { p1: (fresh_p i), p2: (fresh_p (+ i 10)), label: (fresh_s (+ i 20)) } }
fn fresh_as(i: int) -> array<string> { return [(fresh_s i), (fresh_s (+ i 1)), (fresh_s (+ i 2))] }
fn fresh_aa(i: int) -> array<array<int>> { return [[i], [i, i], []] }
fn fresh_ap(i: int) -> array<P> { return [(fresh_p i), (fresh_p (+ i 5))] }
fn fresh_ts(i: int) -> (int, string) { return (i, (fresh_s i)) }
fn fresh_m(i: int) -> HashMap<string, int> {
    let m: HashMap<string, int> = (map_new)
    (map_set m (fresh_s i) i)
    (map_set m (fresh_s i) (+ i 1))
    return m
}
fn fresh_ms(i: int) -> HashMap<string, string> {
    let m: HashMap<string, string> = (map_new)
    (map_set m (fresh_s i) (fresh_s (+ i 1)))
    (map_set m (fresh_s i) (fresh_s (+ i 2)))
    return m
}
fn fresh_r(i: int) -> Result<string, string> {
    if (== (% i 2) 0) { return Result.Ok { value: (fresh_s i) } } else { return Result.Err { error: (fresh_s i) } }
}
fn fresh_ra(i: int) -> Result<array<string>, string> {
    return Result.Ok { value: (fresh_as i) }
}
union Parsed { POk { pval: string }, PBad { pwhy: string } }
fn parse_i(i: int) -> Parsed {
    if (== (% i 3) 0) { return Parsed.PBad { pwhy: (fresh_s i) } } else { return Parsed.POk { pval: (fresh_s i) } }
}
fn cat3(a: array<string>, p: P, s: string) -> string { return (+ (get_AS a 0 "-") (+ p.name s)) }
fn early_s(i: int, a: array<string>, p: P) -> string {
    let r: Parsed = (parse_i i)
    return (+ (+ (fresh_s (+ i 7)) p.name) (match r {
        POk(v) => v.pval
        PBad(_e) => { return (get_AS a 0 "none") }
    }))
}
fn early_args(i: int, a: array<string>, p: P) -> string {
    return (cat3 (array_slice a 0 2) P { name: (fresh_s i), xs: p.xs, tags: a } (match (parse_i i) {
        POk(v) => v.pval
        PBad(_e) => { return p.name }
    }))
}
fn early_arr(i: int, a: array<string>, p: P) -> string {
    let r: Parsed = (parse_i i)
    let t: array<string> = [(fresh_s i), p.name, (match r {
        POk(v) => v.pval
        PBad(_e) => { return (get_AS a 1 "none") }
    })]
    return (get_AS t 2 "-")
}
fn fresh_u(i: int) -> U {
    if (== (% i 3) 0) { return U.Str { us: (fresh_s i) } } else {
        if (== (% i 3) 1) { return U.Arr { uxs: [i, i, i] } } else { return U.Rec { rp: (fresh_p i) } }
    }
}
fn temp_u_s(i: int) -> string {
    let mut o: string = "-"
    match (fresh_u i) {
        Str(a) => {
            let s: string = a.us
            set o s
        },
        Arr(b) => {
            let x: array<int> = b.uxs
            set o (int_to_string (array_length x))
        },
        Rec(c) => {
            let pp: P = c.rp
            set o pp.name
        },
        Non(e) => { set o "non" }
    }
    return o
}
""")
    return "\n".join(out)


WORDS = ["alpha", "beta7", "k1", "zz", "hello", "42", "A", "nano"]


class AliasMachine:
    def __init__(self, rng, size=1.0):
        self.r = rng
        self.size = size
        self.n = 0
        self.scopes = [[]]        # [(name, type, mutable)]
        self.counters = []
        self.workers = []         # (name, ret type)
        self.depth = 0
        self.ops = {}

    # ---- bookkeeping ----
    def fresh(self, p="v"):
        self.n += 1
        return "%s%d" % (p, self.n)

    def vars_of(self, t, mutable=False):
        return [n for sc in self.scopes for (n, vt, m) in sc if vt == t and (m or not mutable)]

    def add(self, name, t, mutable=True):
        self.scopes[-1].append((name, t, mutable))

    def count(self, op):
        self.ops[op] = self.ops.get(op, 0) + 1

    # ---- leaves ----
    def uniq(self):
        """an int expression whose value is unlikely to repeat (fresh_* helpers build their strings from it, so that
        the strings are not shared with other live objects through the intern table)"""
        self.n += 1
        base = self.n * 37
        if self.counters and self.r.random() < 0.6:
            return "(+ %d %s)" % (base, self.r.choice(self.counters))
        return str(base)

    def small_int(self):
        if self.counters and self.r.random() < 0.4:
            return self.r.choice(self.counters)
        return str(self.r.choice([0, 0, 1, 1, 2, 3]))

    def boolean(self):
        r = self.r
        k = r.random()
        arrs = [n for t in ("AI", "AS", "AA", "AP") for n in self.vars_of(t)]
        if k < 0.4 and arrs:
            return "(== (%% (array_length %s) 2) %d)" % (r.choice(arrs), r.randrange(2))
        if k < 0.6 and self.counters:
            return "(< %s %d)" % (r.choice(self.counters), r.randint(1, 2))
        return r.choice(["true", "false"])

    def word(self):
        """one of a few target strings, built in one of several ways (interning collisions)"""
        r = self.r
        w = r.choice(WORDS)
        k = r.random()
        if k < 0.3 or len(w) < 2:
            if w.isdigit() and r.random() < 0.5:
                return "(int_to_string %s)" % w
            if len(w) == 1 and r.random() < 0.5:
                return "(string_from_char %d)" % ord(w)
            return '"%s"' % w
        if k < 0.6:
            c = r.randint(1, len(w) - 1)
            return '(+ "%s" "%s")' % (w[:c], w[c:])
        if k < 0.8:
            a, b = r.randint(0, 3), r.randint(0, 3)
            return '(str_substring "%s%s%s" %d %d)' % ("_" * a, w, "#" * b, a, len(w))
        c = r.randint(1, len(w) - 1)
        return '(str_concat "%s" "%s")' % (w[:c], w[c:])

    def minimal(self, t):
        if t == "S":
            return self.word()
        if t == "AI":
            return "[%s]" % ", ".join(str(self.r.randint(0, 9)) for _ in range(self.r.randint(0, 3)))
        if t == "AS":
            return "[%s]" % ", ".join(self.word() for _ in range(self.r.randint(1, 3)))
        if t == "AA":
            return "[[1, 2], [3]]"
        if t == "P":
            return "P { name: %s, xs: [1, 2], tags: [%s] }" % (self.word(), self.word())
        if t == "AP":
            return "[%s]" % self.minimal("P")
        if t == "Q":
            return "Q { p1: %s, p2: %s, label: %s }" % (self.minimal("P"), self.minimal("P"), self.word())
        if t == "U":
            return self.r.choice(["U.Str { us: %s }" % self.word(), "U.Arr { uxs: [4, 5] }", "U.Non { uz: 3 }"])
        if t == "TS":
            return "(%d, %s)" % (self.r.randint(0, 9), self.word())
        if t == "TA":
            return "(%s, [7, 8])" % self.word()
        if t == "F":
            return self.r.choice(["id_AI", "id2_AI", "id3_AI"])
        raise ValueError(t)

    # ---- expressions ----
    def e(self, t, d=2):
        r = self.r
        vs = self.vars_of(t)
        if vs and r.random() < (0.5 if d > 0 else 0.85):
            return r.choice(vs)
        if d <= 0:
            if t in GLOBALS and r.random() < 0.3:
                return GLOBALS[t]
            return self.minimal(t)
        alts = []
        d1 = d - 1
        if t in ID_TYPES:
            alts += [lambda: "(%s_%s %s)" % (r.choice(["id", "id2", "id3"]), t, self.e(t, d1)),
                     lambda: "(pick_%s %s %s %s)" % (t, self.e(t, d1), self.e(t, d1), self.boolean())]
        if t in GLOBALS:
            alts += [lambda: GLOBALS[t], lambda: "(keep_%s %s)" % (t, self.e(t, d1)), lambda: "(swap_%s %s)" % (t, self.e(t, d1))]
        ws = [w for w, rt in self.workers if rt == t]
        if ws:
            alts.append(lambda: "(%s %s %s %s %s)" % (r.choice(ws), self.e("AI", d1), self.e("S", d1), self.e("P", d1), self.e("AS", d1)))
        # ---- projections applied to TEMPORARIES: the container's only reference is the operand-stack slot ----
        TEMP = {
            "S": [lambda: "(fresh_p %s).name" % self.uniq(), lambda: "(fresh_q %s).label" % self.uniq(),
                  lambda: "(fresh_q %s).%s.name" % (self.uniq(), r.choice(["p1", "p2"])),
                  lambda: "(mk_p (fresh_s %s) %s %s).name" % (self.uniq(), self.e("AI", 0), self.e("AS", 0)),
                  lambda: "P { name: (fresh_s %s), xs: %s, tags: %s }.name" % (self.uniq(), self.e("AI", 0), self.e("AS", 0)),
                  lambda: "Q { p1: (fresh_p %s), p2: %s, label: (fresh_s %s) }.%s" % (self.uniq(), self.e("P", 0), self.uniq(), r.choice(["label", "p1.name"])),
                  lambda: "(at [(fresh_s %s), %s] %d)" % (self.uniq(), self.e("S", 0), r.randrange(2)),
                  lambda: "(%d, (fresh_s %s)).1" % (r.randint(0, 9), self.uniq()),
                  lambda: "((fresh_s %s), %s).0" % (self.uniq(), self.e("AI", 0)),
                  lambda: "(temp_u_s %s)" % self.uniq(),
                  lambda: "(early_s %s %s %s)" % (self.uniq(), self.e("AS", 0), self.e("P", 0)),
                  lambda: "(early_args %s %s %s)" % (self.uniq(), self.e("AS", 0), self.e("P", 0)),
                  lambda: "(early_arr %s %s %s)" % (self.uniq(), self.e("AS", 0), self.e("P", 0)),
                  lambda: "(result_unwrap (fresh_r (* 2 %s)))" % self.uniq(),
                  lambda: "(result_unwrap_err (fresh_r (+ 1 (* 2 %s))))" % self.uniq(),
                  lambda: "(map_get (fresh_ms %d) (fresh_s %d))" % ((self.n + 1) * 37, (self.uniq(), self.n * 37)[1]),
                  lambda: "(get_AS (fresh_as %s) %d %s)" % (self.uniq(), r.randrange(3), self.e("S", 0)),
                  lambda: "(get_AP (fresh_ap %s) %d %s).name" % (self.uniq(), r.randrange(2), self.e("P", 0)),
                  lambda: "(u_s (fresh_u %s) %s)" % (self.uniq(), self.e("S", 0))],
            "AI": [lambda: "(fresh_p %s).xs" % self.uniq(), lambda: "(fresh_q %s).%s.xs" % (self.uniq(), r.choice(["p1", "p2"])),
                   lambda: "P { name: %s, xs: [%s, 1], tags: %s }.xs" % (self.e("S", 0), self.uniq(), self.e("AS", 0)),
                   lambda: "(get_AA (fresh_aa %s) %d %s)" % (self.uniq(), r.randrange(3), self.e("AI", 0)),
                   lambda: "(u_xs (fresh_u %s) %s)" % (self.uniq(), self.e("AI", 0))],
            "AS": [lambda: "(fresh_p %s).tags" % self.uniq(), lambda: "(fresh_q %s).%s.tags" % (self.uniq(), r.choice(["p1", "p2"])),
                   lambda: "(array_slice (fresh_as %s) %d 3)" % (self.uniq(), r.randrange(2)),
                   lambda: "(map_keys (fresh_m %s))" % self.uniq(), lambda: "(map_values (fresh_ms %s))" % self.uniq(),
                   lambda: "(result_unwrap (fresh_ra %s))" % self.uniq()],
            "P": [lambda: "(fresh_q %s).%s" % (self.uniq(), r.choice(["p1", "p2"])),
                  lambda: "Q { p1: (fresh_p %s), p2: %s, label: %s }.p1" % (self.uniq(), self.e("P", 0), self.e("S", 0)),
                  lambda: "(u_p (fresh_u %s) %s)" % (self.uniq(), self.e("P", 0)),
                  lambda: "(get_AP (fresh_ap %s) %d %s)" % (self.uniq(), r.randrange(2), self.e("P", 0))],
            "Q": [lambda: "(fresh_q %s)" % self.uniq()], "U": [lambda: "(fresh_u %s)" % self.uniq()],
            "AP": [lambda: "(fresh_ap %s)" % self.uniq()], "AA": [lambda: "(fresh_aa %s)" % self.uniq()],
            "TS": [lambda: "(fresh_ts %s)" % self.uniq()],
        }
        if t in TEMP and r.random() < 0.22:
            self.count("temp." + t)
            return r.choice(TEMP[t])()
        if t == "S":
            alts += [self.word, self.word, lambda: "(+ %s %s)" % (self.e("S", 0), self.word())]
            if self.vars_of("P"):
                alts += [lambda: "%s.name" % r.choice(self.vars_of("P"))] * 2
            if self.vars_of("Q"):
                alts += [lambda: "%s.label" % r.choice(self.vars_of("Q")), lambda: "%s.%s.name" % (r.choice(self.vars_of("Q")), r.choice(["p1", "p2"]))]
            if self.vars_of("U"):
                alts.append(lambda: "(u_s %s %s)" % (r.choice(self.vars_of("U")), self.e("S", 0)))
            if self.vars_of("TS"):
                alts.append(lambda: "%s.1" % r.choice(self.vars_of("TS")))
            if self.vars_of("TA"):
                alts.append(lambda: "%s.0" % r.choice(self.vars_of("TA")))
            alts.append(lambda: "(get_AS %s %s %s)" % (self.e("AS", d1), self.small_int(), self.e("S", 0)))
        elif t == "AI":
            alts += [lambda: self.minimal("AI"), lambda: "(array_slice %s %d %d)" % (self.e("AI", d1), r.randint(0, 2), r.randint(1, 4)),
                     lambda: "(map %s dbl)" % self.e("AI", d1), lambda: "(twice %s %s)" % (self.e("F", d1), self.e("AI", d1)),
                     lambda: "(get_AA %s %s %s)" % (self.e("AA", d1), self.small_int(), self.e("AI", 0))]
            if self.vars_of("P"):
                alts += [lambda: "%s.xs" % r.choice(self.vars_of("P"))] * 2
            if self.vars_of("U"):
                alts.append(lambda: "(u_xs %s %s)" % (r.choice(self.vars_of("U")), self.e("AI", 0)))
            if self.vars_of("TA"):
                alts.append(lambda: "%s.1" % r.choice(self.vars_of("TA")))
            if self.vars_of("F"):
                alts.append(lambda: "(apply_f %s %s)" % (r.choice(self.vars_of("F")), self.e("AI", d1)))
        elif t == "AS":
            alts += [lambda: "[%s]" % ", ".join(self.e("S", d1) for _ in range(r.randint(1, 4))),
                     lambda: "(mk_as %d %s)" % (r.randint(0, 4), self.e("S", 0)),
                     lambda: "(array_slice %s %d %d)" % (self.e("AS", d1), r.randint(0, 2), r.randint(1, 4))]
            if self.vars_of("P"):
                alts += [lambda: "%s.tags" % r.choice(self.vars_of("P"))] * 2
            if self.vars_of("M"):
                alts.append(lambda: "(map_keys %s)" % r.choice(self.vars_of("M")))
        elif t == "AA":
            alts += [lambda: "[%s]" % ", ".join(self.e("AI", d1) for _ in range(r.randint(1, 3)))]
        elif t == "AP":
            alts += [lambda: "[%s]" % ", ".join(self.e("P", d1) for _ in range(r.randint(1, 3)))]
        elif t == "P":
            alts += [lambda: "P { name: %s, xs: %s, tags: %s }" % (self.e("S", d1), self.e("AI", d1), self.e("AS", d1))] * 2
            alts += [lambda: "(mk_p %s %s %s)" % (self.e("S", d1), self.e("AI", d1), self.e("AS", d1)),
                     lambda: "(get_AP %s %s %s)" % (self.e("AP", d1), self.small_int(), self.e("P", 0))]
            if self.vars_of("Q"):
                alts += [lambda: "%s.%s" % (r.choice(self.vars_of("Q")), r.choice(["p1", "p2"]))] * 2
            if self.vars_of("U"):
                alts.append(lambda: "(u_p %s %s)" % (r.choice(self.vars_of("U")), self.e("P", 0)))
        elif t == "Q":
            alts += [lambda: "Q { p1: %s, p2: %s, label: %s }" % (self.e("P", d1), self.e("P", d1), self.e("S", d1))] * 2
        elif t == "U":
            alts += [lambda: "U.Str { us: %s }" % self.e("S", d1), lambda: "U.Arr { uxs: %s }" % self.e("AI", d1),
                     lambda: "U.Rec { rp: %s }" % self.e("P", d1), lambda: "U.Non { uz: %d }" % r.randint(0, 9)]
        elif t == "TS":
            alts += [lambda: "(%d, %s)" % (r.randint(0, 9), self.e("S", d1))] * 2
        elif t == "TA":
            alts += [lambda: "(%s, %s)" % (self.e("S", d1), self.e("AI", d1))] * 2
        elif t == "F":
            # a function-typed ARGUMENT must be a name for the type checker; calls yielding functions only initialise lets
            return r.choice(vs) if vs and r.random() < 0.6 else self.minimal("F")
        return r.choice(alts)()

    # ---- statements ----
    def arrays(self, mutable=True):
        out = [(n, t) for t in ("AI", "AS", "AA", "AP") for n in self.vars_of(t, mutable)]
        if not self.in_worker:
            out += [("g_ai", "AI"), ("g_as", "AS"), ("g_aa", "AA")]
        return out

    def elem_expr(self, at, d=1):
        et = ELEM[at]
        return str(self.r.randint(0, 99)) if et == "I" else self.e(et, d)

    def let_stmt(self, pad):
        t = self.r.choice(["S", "S", "AI", "AS", "AS", "AA", "AP", "P", "P", "Q", "U", "U", "TS", "TA", "F"])
        v = self.fresh()
        init = "(choose_f %s)" % self.boolean() if t == "F" and self.r.random() < 0.4 else self.e(t, 2)
        line = "%slet mut %s: %s = %s" % (pad, v, TY[t], init)
        self.add(v, t)
        self.count("let." + t)
        return [line]

    def stmt(self, ind):
        r = self.r
        pad = "    " * ind
        k = r.random()
        if k < 0.26:
            return self.let_stmt(pad)
        if k < 0.36:
            c = [(n, t) for sc in self.scopes for (n, t, m) in sc if m and t != "M"]
            if c:
                n, t = r.choice(c)
                self.count("set." + t)
                return ["%sset %s %s" % (pad, n, self.e(t, 2))]
        if k < 0.64 and not self.arrays():
            k = 0.0 if self.in_worker else 0.65
        if k < 0.26:
            return self.let_stmt(pad)
        if k < 0.48:
            a, t = r.choice(self.arrays())
            self.count("push." + t)
            return ["%sset %s (array_push %s %s)" % (pad, a, a, self.elem_expr(t))]
        if k < 0.54:
            a, t = r.choice(self.arrays())
            i = self.small_int()
            self.count("aset." + t)
            return ["%sif (< %s (array_length %s)) { (array_set %s %s %s) } else {}" % (pad, i, a, a, i, self.elem_expr(t))]
        if k < 0.60:
            c = [(a, t) for a, t in self.arrays() if t != "AI"]
            if c:
                a, t = r.choice(c)
                xs = self.vars_of(ELEM[t], True)
                out = []
                if not xs:
                    x = self.fresh()
                    out.append("%slet mut %s: %s = %s" % (pad, x, TY[ELEM[t]], self.minimal(ELEM[t])))
                    self.add(x, ELEM[t])
                else:
                    x = r.choice(xs)
                self.count("pop." + t)
                return out + ["%sif (> (array_length %s) 0) { set %s (array_pop %s) } else {}" % (pad, a, x, a)]
        if k < 0.64:
            a, t = r.choice(self.arrays())
            i = self.small_int()
            self.count("remove." + t)
            return ["%sif (< %s (array_length %s)) { (array_remove_at %s %s) } else {}" % (pad, i, a, a, i)]
        if k < 0.70 and not self.in_worker:
            t = r.choice(list(GLOBALS))
            self.count("gset." + t)
            return ["%sset %s %s" % (pad, GLOBALS[t], self.e(t, 2))]
        if k < 0.80:
            j = r.random()
            self.count("print")
            if j < 0.18:
                self.count("temp.print")
                return ["%s(println %s)" % (pad, r.choice([
                    lambda: "(fresh_ts %s).1" % self.uniq(), lambda: "(at (fresh_as %s) %d)" % (self.uniq(), r.randrange(3)),
                    lambda: "(array_length (at (fresh_aa %s) %d))" % (self.uniq(), r.randrange(3)),
                    lambda: "(map_get (fresh_m %s) (fresh_s 1))" % self.uniq(),
                    lambda: "(== (fresh_p %s).name (fresh_s 3))" % self.uniq(),
                    lambda: "(str_length (fresh_q %s).p1.name)" % self.uniq(),
                    lambda: "(+ (fresh_p %s).name (fresh_q %s).label)" % (self.uniq(), self.uniq())])())]
            if j < 0.6:
                return ["%s(println %s)" % (pad, self.e("S", 2))]
            c = self.arrays(False)
            if not c:
                return ["%s(println %s)" % (pad, self.e("S", 2))]
            a, t = r.choice(c)
            return ["%s(println (array_length %s))" % (pad, a)]
        if k < 0.85:
            ms = self.vars_of("M")
            if not ms or r.random() < 0.2:
                m = self.fresh("m")
                self.add(m, "M", False)
                self.count("map.new")
                return ["%slet %s: HashMap<string, int> = (map_new)" % (pad, m)]
            m = r.choice(ms)
            if r.random() < 0.65:
                self.count("map.set")
                return ["%s(map_set %s %s %d)" % (pad, m, self.e("S", 1), r.randint(0, 50))]
            kv = self.fresh("k")
            ke = self.e("S", 1)
            self.add(kv, "S", False)
            self.count("map.get")
            return ["%slet %s: string = %s" % (pad, kv, ke),
                    "%sif (map_has %s %s) { (println (map_get %s %s)) } else { (println (map_length %s)) }" % (pad, m, kv, m, kv, m)]
        if k < 0.89:
            t = r.choice(["P", "AS", "S", "U", "Q", "AA"])
            self.count("discard." + t)
            return ["%s(id_%s %s)" % (pad, t, self.e(t, 2))]
        if k < 0.95 and self.depth < 2:
            c = self.fresh("i")
            n = r.randint(2, 4) if self.depth else r.randint(2, int(4 + 8 * self.size))
            self.count("loop")
            out = ["%slet mut %s: int = 0" % (pad, c), "%swhile (< %s %d) {" % (pad, c, n)]
            self.scopes.append([])
            self.counters.append(c)
            self.depth += 1
            for _ in range(r.randint(2, 7)):
                out += self.stmt(ind + 1)
            self.depth -= 1
            self.counters.pop()
            self.scopes.pop()
            out += ["%s    set %s (+ %s 1)" % (pad, c, c), "%s}" % pad]
            return out
        if self.depth < 2:
            self.count("if")
            out = ["%sif %s {" % (pad, self.boolean())]
            for branch in range(2):
                self.scopes.append([])
                self.depth += 1
                for _ in range(r.randint(1, 3)):
                    out += self.stmt(ind + 1)
                self.depth -= 1
                self.scopes.pop()
                if branch == 0:
                    out.append("%s} else {" % pad)
            out.append("%s}" % pad)
            return out
        self.count("print")
        return ["%s(println %s)" % (pad, self.e("S", 2))]

    def worker(self):
        name = self.fresh("w")
        rt = self.r.choice(["S", "AI", "AS", "P", "P", "U", "Q", "AA"])
        self.in_worker = True
        self.scopes = [[("a", "AI", False), ("s", "S", False), ("p", "P", False), ("t", "AS", False)]]
        body = []
        for _ in range(self.r.randint(2, int(4 + 5 * self.size))):
            body += self.stmt(1)
        body.append("    return %s" % self.e(rt, 2))
        self.in_worker = False
        text = "fn %s(a: array<int>, s: string, p: P, t: array<string>) -> %s {\n%s\n}\n" % (name, TY[rt], "\n".join(body))
        return name, rt, text

    def program(self):
        r = self.r
        self.in_worker = False
        parts = [am_decls()]
        for _ in range(r.choice([0, 1, 1, 2])):
            w, rt, text = self.worker()
            parts.append(text)
            self.workers.append((w, rt))
        self.scopes = [[]]
        body = []
        # a few seed objects so that aliasing starts early
        for t in r.sample(["S", "AI", "AS", "P", "U", "AA", "AP", "Q"], r.randint(3, 6)):
            v = self.fresh()
            body.append("    let mut %s: %s = %s" % (v, TY[t], self.e(t, 2)))
            self.add(v, t)
        for _ in range(r.randint(12, int(20 + 40 * self.size))):
            body += self.stmt(1)
        for t in ("S", "AS", "P"):
            for v in self.vars_of(t)[:2]:
                body.append("    (println %s)" % {"S": v, "AS": "(array_length %s)" % v, "P": "%s.name" % v}[t])
        body += ["    (println g_s)", "    (println (array_length g_as))", "    (println g_p.name)", "    return 0"]
        parts.append("fn main() -> int {\n%s\n}\n" % "\n".join(body))
        return "\n".join(parts)


def alias_program(rng, size=1.0):
    m = AliasMachine(rng, size)
    text = m.program()
    return text, m.ops


# ------------------------------------------------------------------------------------------------
# hand-written aliasing templates (light parametrisation: sizes and strings from the rng)
# ------------------------------------------------------------------------------------------------

T_DECLS = """struct P { name: string, xs: array<int>, tags: array<string> }
struct In { s: string, n: int }
struct Out { a: In, b: In, xs: array<string> }
union Sh { Circle { cname: string, r: int }, Box { btags: array<string> }, Holder { hp: P }, Nil { z: int } }
union Result<T, E> {
    Ok { value: T },
    Err { error: E }
}
let mut G_S: string = "g0"
let mut G_A: array<int> = [1, 2, 3]
let mut G_AS: array<string> = []
let mut G_P: P = P { name: "gp", xs: [], tags: [] }
"""


def _t_two_locals(r):
    n = r.randint(2, 6)
    w = r.choice(WORDS)
    return T_DECLS + """
fn main() -> int {
    let a: array<int> = [10, 20, 30]
    let b: array<int> = a
    let mut c: array<int> = b
    let s: string = (+ "%s" (int_to_string %d))
    let s2: string = s
    let mut s3: string = s2
    let p: P = P { name: s, xs: a, tags: [s, s2, "%s"] }
    let mut q: P = p
    let mut i: int = 0
    while (< i %d) {
        set c [i, i]
        set c b
        set s3 (+ s3 "x")
        set s3 s
        set q P { name: s3, xs: c, tags: q.tags }
        set q p
        set i (+ i 1)
    }
    set c [7]
    (println (at a 1))
    (println (at b 2))
    (println (array_length c))
    (println s2)
    (println q.name)
    (println (at q.tags 1))
    return 0
}
""" % (w, n, w, n)


def _t_containers(r):
    n = r.randint(2, 5)
    return T_DECLS + """
fn main() -> int {
    let row: array<int> = [1, 2, 3]
    let mut grid: array<array<int>> = []
    let mut i: int = 0
    while (< i %d) {
        set grid (array_push grid row)
        set grid (array_push grid [i, (* i 2)])
        set i (+ i 1)
    }
    let back: array<int> = (at grid 0)
    let other: array<int> = (at grid 1)
    (println (array_length back))
    (println (at other 1))
    let p: P = P { name: "%s", xs: row, tags: ["t"] }
    let mut ps: array<P> = [p, p]
    set ps (array_push ps P { name: p.name, xs: back, tags: p.tags })
    let e: P = (at ps 2)
    (println e.name)
    (println (array_length e.xs))
    (array_set grid 0 other)
    (array_set grid 1 other)
    set grid [row]
    (println (array_length grid))
    let last: P = (array_pop ps)
    (println last.name)
    set ps []
    (println (at last.tags 0))
    (println (at row 2))
    return 0
}
""" % (n, r.choice(WORDS))


def _t_struct_sharing(r):
    w = r.choice(WORDS)
    return T_DECLS + """
fn mkin(s: string) -> In {
    return In { s: s, n: (str_length s) }
}
fn describe(u: Sh) -> string {
    match u {
        Circle(c) => {
            let nm: string = c.cname
            return (+ nm "!")
        },
        Box(b) => {
            let tg: array<string> = b.btags
            return (at tg 0)
        },
        Holder(h) => {
            let hp: P = h.hp
            return hp.name
        },
        Nil(n) => { return "nil" }
    }
    return "?"
}
fn main() -> int {
    let i1: In = (mkin "%s")
    let o: Out = Out { a: i1, b: i1, xs: ["x", "y"] }
    let o2: Out = o
    (println o2.b.s)
    let t: (int, string) = (1, (+ "t" "u"))
    let t2: (int, string) = t
    (println t2.1)
    let u: Sh = Sh.Circle { cname: i1.s, r: 2 }
    let v: Sh = Sh.Box { btags: o.xs }
    let hp: P = P { name: o.a.s, xs: [4], tags: o2.xs }
    let w: Sh = Sh.Holder { hp: hp }
    let w2: Sh = w
    (println (describe u))
    (println (describe v))
    (println (describe w2))
    set G_S o.a.s
    set G_AS o.xs
    set G_AS (array_push G_AS G_S)
    (println (array_length o.xs))
    let sa: array<In> = [i1, (mkin "zz"), i1]
    let e: In = (at sa 2)
    (println e.s)
    return 0
}
""" % w


def _t_frames(r):
    d = r.randint(2, 7)
    return T_DECLS + """
fn pass1(a: array<string>) -> array<string> { return a }
fn pass2(a: array<string>) -> array<string> {
    let b: array<string> = (pass1 a)
    return b
}
fn down(a: array<string>, p: P, n: int) -> P {
    if (<= n 0) {
        return P { name: (at a 0), xs: p.xs, tags: a }
    } else {
        let q: P = P { name: p.name, xs: p.xs, tags: (pass2 a) }
        return (down (array_push a (int_to_string n)) q (- n 1))
    }
}
fn first(p: P) -> string {
    let t: array<string> = p.tags
    return (at t 0)
}
fn main() -> int {
    let a: array<string> = [(+ "r" "oot")]
    let p: P = P { name: "p", xs: [1, 2], tags: a }
    let r: P = (down a p %d)
    (println (array_length a))
    (println (array_length r.tags))
    (println (first r))
    (println (first (down (pass2 (pass1 a)) r 1)))
    (println r.name)
    return 0
}
""" % d


def _t_globals(r):
    n = r.randint(2, 5)
    return T_DECLS + """
fn stash(a: array<int>) -> int {
    let loc: array<int> = a
    set G_A loc
    return (array_length G_A)
}
fn fresh_into_global(i: int) -> string {
    let s: string = (+ "made" (int_to_string i))
    set G_S s
    set G_AS (array_push G_AS s)
    return s
}
fn take() -> P {
    let old: P = G_P
    set G_P P { name: G_S, xs: G_A, tags: G_AS }
    return old
}
fn main() -> int {
    let mine: array<int> = [5, 6]
    (println (stash mine))
    set G_A [9]
    (println (at mine 1))
    let mut i: int = 0
    while (< i %d) {
        let s: string = (fresh_into_global i)
        let old: P = (take)
        (println old.name)
        set i (+ i 1)
    }
    let keep: array<string> = G_AS
    set G_AS []
    (println (array_length keep))
    (println (at keep 0))
    (println G_P.name)
    (println (array_length G_P.tags))
    return 0
}
""" % n


def _t_interning(r):
    w = r.choice([x for x in WORDS if len(x) >= 4])
    c = r.randint(1, len(w) - 1)
    return T_DECLS + """
fn build(i: int) -> string {
    if (== (%% i 3) 0) { return "%s" } else {
        if (== (%% i 3) 1) { return (+ "%s" "%s") } else { return (str_substring "__%s__" 2 %d) }
    }
}
fn main() -> int {
    let mut all: array<string> = []
    let mut i: int = 0
    while (< i 9) {
        set all (array_push all (build i))
        set i (+ i 1)
    }
    let a: string = (at all 0)
    let b: string = (at all 1)
    let c: string = (at all 2)
    (println (== a b))
    (println (== b c))
    set all []
    (println a)
    let n1: string = (int_to_string 42)
    let n2: string = (+ "4" "2")
    let n3: string = (str_concat "4" (int_to_string 2))
    let p: P = P { name: n1, xs: [], tags: [n2, n3, "42"] }
    (println (== p.name (at p.tags 2)))
    let e1: string = ""
    let e2: string = (str_substring "abc" 1 0)
    (println (== e1 e2))
    (println (str_length (+ e1 e2)))
    return 0
}
""" % (w, w[:c], w[c:], w, len(w))


def _t_string_arrays(r):
    n = r.randint(4, 12)
    return T_DECLS + """
fn main() -> int {
    let mut names: array<string> = []
    let mut i: int = 0
    while (< i %d) {
        set names (array_push names (+ "n" (int_to_string (%% i 3))))
        set i (+ i 1)
    }
    let alias: array<string> = names
    set i 0
    while (< i (array_length alias)) {
        if (== (%% i 2) 0) { (array_set names i (at alias (- (- (array_length alias) 1) i))) } else {}
        set i (+ i 1)
    }
    let mut last: string = ""
    while (> (array_length names) 2) {
        set last (array_pop names)
    }
    (println last)
    (println (array_length alias))
    (println (at alias 0))
    for nm in alias {
        (println nm)
    }
    return 0
}
""" % n


def _t_fnvalues(r):
    n = r.randint(2, 5)
    return T_DECLS + """
fn dbl(x: int) -> int { return (* x 2) }
fn big(x: int) -> bool { return (> x 2) }
fn add(a: int, b: int) -> int { return (+ a b) }
fn ida(a: array<int>) -> array<int> { return a }
fn rev2(a: array<int>) -> array<int> { return [(at a 1), (at a 0)] }
fn app(f: fn(array<int>) -> array<int>, a: array<int>) -> array<int> { return (f (f a)) }
fn pick(c: bool) -> fn(array<int>) -> array<int> {
    if c { return ida } else { return rev2 }
}
fn main() -> int {
    let a: array<int> = [1, 2, 3, 4]
    let f: fn(array<int>) -> array<int> = (pick true)
    let g: fn(array<int>) -> array<int> = (pick false)
    let f2: fn(array<int>) -> array<int> = f
    let mut i: int = 0
    while (< i %d) {
        let r1: array<int> = (app f2 a)
        let r2: array<int> = (app g [i, 9])
        (println (+ (array_length r1) (at r2 0)))
        set i (+ i 1)
    }
    let m: array<int> = (map a dbl)
    let fl: array<int> = (filter m big)
    (println (reduce fl 0 add))
    (println (array_length (app f a)))
    return 0
}
""" % n


def _t_hashmap(r):
    w = r.choice(WORDS)
    return T_DECLS + """
fn fill(m: HashMap<string, int>, keys: array<string>) -> int {
    let mut i: int = 0
    while (< i (array_length keys)) {
        (map_set m (at keys i) i)
        set i (+ i 1)
    }
    return (map_length m)
}
fn main() -> int {
    let m: HashMap<string, int> = (map_new)
    let m2: HashMap<string, int> = m
    let keys: array<string> = ["%s", (+ "k" "1"), (str_substring "_k1" 1 2), "z"]
    (println (fill m keys))
    (map_set m2 (at keys 0) 77)
    (println (map_get m "%s"))
    (println (map_has m2 (+ "" "z")))
    let ks: array<string> = (map_keys m)
    let vs: array<int> = (map_values m2)
    (println (array_length ks))
    (println (array_length vs))
    let k0: string = (at ks 0)
    (println (map_has m k0))
    (println (map_length m2))
    return 0
}
""" % (w, w)


def _t_slices(r):
    return T_DECLS + """
fn main() -> int {
    let base: array<string> = [(+ "a" "1"), (+ "b" "2"), (+ "c" "3"), (+ "d" "4")]
    let s1: array<string> = (array_slice base 1 3)
    let s2: array<string> = (array_slice s1 0 1)
    let mut s3: array<string> = (array_slice base 0 4)
    set s3 (array_push s3 (at s2 0))
    (array_set s3 0 (at base 3))
    (println (at s1 0))
    (println (at s2 0))
    (println (array_length s3))
    (println (at s3 4))
    let nested: array<array<int>> = [[1], [2, 3], [4]]
    let ns: array<array<int>> = (array_slice nested 1 3)
    let row: array<int> = (at ns 0)
    (println (array_length row))
    let t: (string, array<int>) = ((at base 0), row)
    let t2: (string, array<int>) = t
    let tr: array<int> = t2.1
    (println (at tr 1))
    (println t.0)
    return 0
}
"""


def _t_control(r):
    n = r.randint(3, 7)
    return T_DECLS + """
fn find(a: array<string>, want: string) -> string {
    let mut i: int = 0
    while (< i (array_length a)) {
        let cur: string = (at a i)
        let dec: string = (+ cur "?")
        if (== cur want) { return dec } else {}
        set i (+ i 1)
    }
    return "none"
}
fn classify(u: Sh, a: array<string>) -> string {
    let local: array<string> = a
    match u {
        Circle(c) => { return (find local c.cname) },
        Box(b) => { return (find b.btags "x") },
        Holder(h) => { return "holder" },
        Nil(n) => { return (at local 0) }
    }
    return "?"
}
fn main() -> int {
    let names: array<string> = ["x", "y", (+ "z" "z")]
    (println (find names "zz"))
    (println (find names "q"))
    (println (classify Sh.Circle { cname: (at names 1), r: 1 } names))
    (println (classify Sh.Box { btags: names } []))
    (println (classify Sh.Nil { z: 0 } names))
    let mut i: int = 0
    let mut acc: string = ""
    while true {
        let t: string = (+ "t" (int_to_string i))
        set i (+ i 1)
        if (> i %d) { break } else {}
        if (== (%% i 2) 0) { continue } else {}
        set acc (+ acc t)
    }
    (println acc)
    return 0
}
""" % n


def _t_temporaries(r):
    n = r.randint(3, 8)
    b = r.randint(10, 90)
    return T_DECLS + """
struct Inner { nm: string, itags: array<string> }
struct Person { pname: string, age: int, inner: Inner, nums: array<int> }
fn mk_name(i: int) -> string { return (+ "person-number-" (int_to_string i)) }
fn mk_in(i: int) -> Inner { return Inner { nm: (mk_name i), itags: [(mk_name (+ i 1)), "t"] } }
fn mk(i: int) -> Person { return Person { pname: (mk_name i), age: i, inner: (mk_in (+ i 50)), nums: [i, i] } }
fn pair(i: int) -> (int, string) { return (i, (mk_name i)) }
fn mk_arr(n: int) -> array<string> {
    let mut o: array<string> = []
    let mut i: int = 0
    while (< i n) {
        set o (array_push o (mk_name (+ 1000 i)))
        set i (+ i 1)
    }
    return o
}
fn mk_aa(n: int) -> array<array<int>> { return [[n], [n, n]] }
fn mk_sh(i: int) -> Sh {
    if (== (%% i 3) 0) { return Sh.Circle { cname: (mk_name i), r: i } } else {
        if (== (%% i 3) 1) { return Sh.Box { btags: (mk_arr 2) } } else { return Sh.Holder { hp: P { name: (mk_name i), xs: [i], tags: [] } } }
    }
}
fn mkm(i: int) -> HashMap<string, int> {
    let m: HashMap<string, int> = (map_new)
    (map_set m (mk_name i) i)
    (map_set m (mk_name i) (+ i 1))
    return m
}
fn shname(i: int) -> string {
    let mut o: string = "?"
    match (mk_sh i) {
        Circle(c) => {
            let s: string = c.cname
            set o s
        },
        Box(b) => {
            let t: array<string> = b.btags
            set o (at t 1)
        },
        Holder(h) => {
            let q: P = h.hp
            set o q.name
        },
        Nil(n) => { set o "nil" }
    }
    return o
}
fn lookup(i: int) -> Result<string, string> {
    if (== (%% i 2) 0) { return Result.Ok { value: (mk_name i) } } else { return Result.Err { error: (+ "no-" (int_to_string i)) } }
}
fn mkms(i: int) -> HashMap<string, string> {
    let m: HashMap<string, string> = (map_new)
    (map_set m (mk_name i) (mk_name (+ i 1)))
    return m
}
fn same(a: string, b: string, want_a: string, want_b: string) -> int {
    let mut bad: int = 0
    if (!= a want_a) { set bad (+ bad 1) } else {}
    if (!= b want_b) { set bad (+ bad 1) } else {}
    return bad
}
fn main() -> int {
    let mut bad: int = 0
    let a: string = (mk %d).pname
    let spoil: string = (mk_name 7)
    (println a)
    set bad (+ bad (same (mk 3).pname (mk_name 4) (mk_name 3) (mk_name 4)))
    (println (+ (mk 4).pname (mk_name 9)))
    (println (mk 5).inner.nm)
    let t: array<string> = (mk 6).inner.itags
    (println (at t 0))
    let inn: Inner = (mk 14).inner
    (println inn.nm)
    let xs: array<int> = (mk 2).nums
    (println (array_length xs))
    (println (== (mk 12).pname "person-number-12"))
    (println (pair 7).1)
    (println (at (mk_arr 3) 2))
    (println (array_length (at (mk_aa 2) 1)))
    let sl: array<string> = (array_slice (mk_arr 4) 1 3)
    (println (at sl 0))
    let ks: array<string> = (map_keys (mkm 3))
    (println (at ks 0))
    (println (map_get (mkm 4) (mk_name 4)))
    (println (shname 0))
    (println (shname 1))
    (println (shname 2))
    let w: string = (result_unwrap (lookup 4))
    (println w)
    let e: string = (result_unwrap_err (lookup 5))
    (println (+ e "!"))
    let mv: string = (map_get (mkms 8) (mk_name 8))
    (println (+ mv "."))
    let lit: string = Person { pname: (mk_name 11), age: 1, inner: (mk_in 2), nums: [] }.pname
    (println lit)
    let lit2: string = (at [(mk_name 21), (mk_name 22)] 1)
    (println lit2)
    let lit3: string = (3, (mk_name 23)).1
    (println lit3)
    let mut names: array<string> = []
    let mut tags: array<array<string>> = []
    let mut i: int = 0
    while (< i %d) {
        set names (array_push names (mk (+ 100 i)).pname)
        set names (array_push names (mk (+ 200 i)).inner.nm)
        set tags (array_push tags (mk (+ 300 i)).inner.itags)
        set G_S (mk (+ 400 i)).pname
        set G_P P { name: (mk (+ 500 i)).pname, xs: (mk i).nums, tags: (mk i).inner.itags }
        set i (+ i 1)
    }
    set i 0
    while (< i %d) {
        if (!= (at names (* i 2)) (mk_name (+ 100 i))) { set bad (+ bad 1) } else {}
        set i (+ i 1)
    }
    (println (array_length tags))
    (println G_S)
    (println G_P.name)
    (println spoil)
    (println bad)
    return 0
}
""" % (b, n, n)


def _t_early_return_expr(r):
    n = r.randint(4, 9)
    return T_DECLS + """
union Parsed { POk { pval: string }, PBad { pwhy: string } }
fn mk_name(i: int) -> string { return (+ "name-number-" (int_to_string i)) }
fn parse(i: int) -> Parsed {
    if (== (%% i 3) 0) { return Parsed.PBad { pwhy: (mk_name i) } } else { return Parsed.POk { pval: (mk_name i) } }
}
fn join3(a: string, b: string, c: string) -> string { return (+ a (+ b c)) }
fn cat3(a: array<string>, p: P, s: string) -> string { return (+ (at a 0) (+ p.name s)) }
fn concat_or_skip(i: int, keep: array<string>) -> string {
    let r: Parsed = (parse i)
    let local: array<string> = keep
    let text: string = (+ (+ (+ "item " (int_to_string i)) ": ") (match r {
        POk(v) => v.pval
        PBad(_e) => { return (at local 0) }
    }))
    return text
}
fn args_or_skip(i: int) -> string {
    return (join3 (mk_name (+ i 100)) (mk_name (+ i 200)) (match (parse i) {
        POk(v) => v.pval
        PBad(_e) => { return "skipped" }
    }))
}
fn aggr_or_skip(i: int, p: P) -> string {
    let r: Parsed = (parse i)
    return (cat3 [(mk_name (+ i 300)), p.name] P { name: (mk_name (+ i 400)), xs: p.xs, tags: p.tags } (match r {
        POk(v) => v.pval
        PBad(_e) => { return p.name }
    }))
}
fn nested_or_skip(i: int) -> string {
    let r: Parsed = (parse i)
    let q: Parsed = (parse (+ i 1))
    return (+ (mk_name (+ i 500)) (match r {
        POk(v) => (+ (+ v.pval "/") (match q {
            POk(w) => w.pval
            PBad(_f) => { return "inner" }
        }))
        PBad(_e) => { return "outer" }
    }))
}
fn main() -> int {
    let keep: array<string> = [(mk_name 1), (mk_name 2)]
    let p: P = P { name: (mk_name 3), xs: [1, 2], tags: keep }
    let mut all: array<string> = []
    let mut i: int = 0
    while (< i %d) {
        set all (array_push all (concat_or_skip i keep))
        set all (array_push all (+ (mk_name (+ i 600)) (args_or_skip i)))
        set all (array_push all (aggr_or_skip i p))
        set G_S (nested_or_skip i)
        (println G_S)
        set i (+ i 1)
    }
    (println (array_length all))
    (println (at all 0))
    (println (at all 4))
    (println (at keep 0))
    (println p.name)
    return 0
}
""" % n


TEMPLATES = [("temporaries", _t_temporaries), ("early_return_expr", _t_early_return_expr), ("two_locals", _t_two_locals), ("containers", _t_containers), ("struct_sharing", _t_struct_sharing),
             ("frames", _t_frames), ("globals", _t_globals), ("interning", _t_interning), ("string_arrays", _t_string_arrays),
             ("fnvalues", _t_fnvalues), ("hashmap", _t_hashmap), ("slices", _t_slices), ("control", _t_control)]


# ------------------------------------------------------------------------------------------------
# high fan-in family: ONE heap object referenced N times at once (boundaries of 8 and 16 bit counters)
# ------------------------------------------------------------------------------------------------

FANIN_N = [255, 256, 257, 65535, 65536, 65537, 70000]
FANIN_KINDS = {
    # kind -> (element type, fresh value, replacement of the local, statements that use an element `e` again)
    "string": ("string", '(+ "label-" (int_to_string 1000))', '"none"', '(println e)\n    (println (== e (+ "label-" (int_to_string 1000))))'),
    "array": ("array<int>", "[1000, 7, 7]", "[]", "(println (array_length e))\n    (println (at e 0))"),
    "struct": ("P", 'P { name: (+ "label-" (int_to_string 1000)), xs: [4, 5] }', 'P { name: "none", xs: [] }', "(println e.name)\n    (println (array_length e.xs))"),
}


def fanin_program(kind, n, how):
    et, fresh, repl, use = FANIN_KINDS[kind]
    if how == "push":
        fill = ("    let mut table: array<%s> = []\n    let mut i: int = 0\n    while (< i %d) {\n        set table (array_push table label)\n"
                "        set i (+ i 1)\n    }\n" % (et, n))
    else:
        fill = "    let mut table: array<%s> = (array_new %d label)\n" % (et, n)
    return """struct P { name: string, xs: array<int> }
fn main() -> int {
    let mut label: %s = %s
%s    (println (array_length table))
    let mut spin: int = 0
    while (< spin SPIN) {
        set spin (+ spin 1)
    }
    set label %s
    (array_set table 0 %s)
    (array_set table 1 %s)
    let mut dropped: %s = (array_pop table)
    set dropped (array_pop table)
    set dropped (array_pop table)
    set dropped %s
    let other1: string = (+ "label-" (int_to_string 1001))
    let other2: string = (+ "label-" (int_to_string 1002))
    let e: %s = (at table 2)
    %s
    let e2: %s = (at table %d)
    set label e2
    (println (array_length table))
    set spin 0
    while (< spin SPIN) {
        set spin (+ spin 1)
    }
    (println other1)
    (println other2)
    return 0
}
""".replace("SPIN", str(2500 if n > 1000 else 30)) % (et, fresh, fill, repl, repl, repl, et, repl, et, use, et, n - 5)


# ------------------------------------------------------------------------------------------------
# the check
# ------------------------------------------------------------------------------------------------

# nlv.gen profile: everything that builds aggregates, plus the aliasing constructs that are switched off by default
# because of defects of the OTHER engines (native transpiler / nanoc's evaluator); all of them run correctly on the VM
GEN_FEATURES = {"multifile": False, "floats": False, "aggregate_string_alias": True, "string_field_direct": True,
                "fnvalue_copy": True, "tuple_string": True, "tuple_param": True, "fnvalue_let_nested": True,
                "self_assign": True, "match_expr_string": True, "print_indirect_call": True, "break_in_match": True,
                "array_literal_effect": True, "multi_effect_args": True, "zero_arg_fnvalue": True, "global_call_init": True}

HEAP_OPS_EXPECTED = ["DUP", "POP", "LOAD_LOCAL", "STORE_LOCAL", "LOAD_GLOBAL", "STORE_GLOBAL", "CALL", "CALL_INDIRECT", "RET",
                     "STR_CONCAT", "STR_SUBSTR", "ARR_NEW", "ARR_PUSH", "ARR_POP", "ARR_GET", "ARR_SET", "ARR_SLICE", "ARR_REMOVE",
                     "ARR_LITERAL", "STRUCT_GET", "STRUCT_LITERAL", "UNION_CONSTRUCT", "UNION_FIELD", "TUPLE_NEW", "TUPLE_GET",
                     "HM_NEW", "HM_SET", "HM_GET", "HM_KEYS", "CLOSURE_NEW", "CAST_STRING"]


def _stderr_brief(r):
    ls = [l for l in r.errtext().splitlines() if l.strip() and not l.startswith("Warning")]
    return "\n".join(ls[:12])[:1500]


class Tally:
    def __init__(self):
        self.audits = self.objs_seen = self.registered = self.unregistered = self.instrs = 0
        self.maxdeg = self.peak = 0
        self.orphan_records = self.exit_all_reachable = 0
        self.ops = {}
        self.every = {1: 0, 64: 0}
        self.outcomes = {}
        self.nontrivial = set()
        self.by_family = {}
        self.frontend_reports = []
        self.inconclusive = 0
        self.samples = []

    def out(self, k):
        self.outcomes[k] = self.outcomes.get(k, 0) + 1


def judge(ctx, keyer, tally, family, label, files, o):
    """all oracles on one observed program; returns True when the program ran under audit"""
    text = files.get("main.nano", "")
    rfiles = dict(files)
    rfiles["cmd.txt"] = ("NLVERIF_AUDIT=%d NLVERIF_AUDIT_LOG=audit.log nano_virt main.nano --run   (asan flavor; %s)\n" % (o.every, label))
    rfiles["audited.stdout"] = o.aud.out
    rfiles["audited.stderr"] = o.aud.err[-20000:]
    rfiles["unaudited.stdout"] = o.plain.out
    try:
        rfiles["audit.log"] = open(os.path.join(o.dir, "audit.log"), "rb").read(400000)
    except OSError:
        pass
    if o.plain.timeout or o.aud.timeout:
        tally.inconclusive += 1
        tally.out("watchdog")
        return False
    reported = False
    for which, r in (("audited", o.aud), ("un-audited", o.plain)):
        rep = r.sanitizer_report()
        if not rep:
            continue
        if "/nanovm/" in rep or "src/nanovm" in rep:
            rfiles["sanitizer.txt"] = rep
            ctx.violation(asan_key(rep, keyer.asan.root), "%s: sanitizer report inside the VM in the %s run of %s\n%s" % (family, which, label, rep[:1500]), rfiles)
            reported = True
        else:
            tally.out("sanitizer-report-outside-vm")
            if len(tally.frontend_reports) < 5:
                tally.frontend_reports.append({"program": label, "key": asan_key(rep, keyer.asan.root)})
        break
    for key, txt in keyer.keys(o):
        n = sum(1 for k, f in o.records if k != "summary")
        ctx.violation(key, "%s program %s: %s\n(%d audit record(s) in this run; audited every %d instruction(s))" % (family, label, txt, n, o.every), rfiles)
        reported = True
    s = o.summary
    if s is None:
        if o.instrs == 0:
            tally.out("not-run:" + ("type-or-parse-error" if o.plain.rc == 1 else "rc=%s" % o.plain.status))
        elif not reported:
            tally.out("no-summary")
            tally.inconclusive += 1
        return False
    if int(s.get("violations", 0)) > 0 and not reported:
        ctx.violation("audit|unparsed-records", "%s: the summary counts %s violations but no record could be parsed" % (label, s.get("violations")), rfiles)
    if not reported and (o.plain.out != o.aud.out or o.plain.status != o.aud.status):
        what = "stdout" if o.plain.out != o.aud.out else "status"
        ctx.violation("perturb|" + what, "%s program %s: the audited run and the un-audited run differ in %s (un-audited exit %s, audited exit %s)\n%s" % (
            family, label, what, o.plain.status, o.aud.status, _stderr_brief(o.aud)), rfiles)
    a = int(s.get("audits", 0))
    tally.audits += a
    tally.objs_seen += int(s.get("objs_seen", 0))
    tally.registered += int(s.get("registered", 0))
    tally.unregistered += int(s.get("unregistered", 0))
    tally.maxdeg = max(tally.maxdeg, int(s.get("maxdeg", 0)))
    tally.peak = max(tally.peak, int(s.get("peak_live", 0)))
    tally.orphan_records += int(s.get("orphan_records", 0))
    if int(s.get("orphans", 0)) == 0:
        tally.exit_all_reachable += 1
    tally.instrs += sum(o.ops.values())
    tally.every[o.every] = tally.every.get(o.every, 0) + 1
    for op, c in o.ops.items():
        tally.ops[op] = tally.ops.get(op, 0) + c
    fam = tally.by_family.setdefault(family, {"programs": 0, "audits": 0})
    fam["programs"] += 1
    fam["audits"] += a
    tally.out("ran:signal-%d" % o.aud.sig if o.aud.sig else "ran:vm-runtime-error" if "runtime error" in o.aud.errtext() else "ran")
    if a >= 1000 and int(s.get("maxdeg", 0)) >= 2:
        tally.nontrivial.add(hashlib.sha256(text.encode()).hexdigest())
    if len(tally.samples) < 4 and a >= 300 and family not in [x["family"] for x in tally.samples]:
        tally.samples.append({"family": family, "program": label, "instructions": o.instrs, "audit_every": o.every, "audits": a,
                              "max_in_degree": int(s.get("maxdeg", 0)), "registered": int(s.get("registered", 0)),
                              "live_at_exit": int(s.get("live", 0)), "source_tail": text[-700:]})
    return True


def run(ctx):
    asan = build.get("asan")
    r = sh([asan.probe("isa_probe"), "--dump"], cpu=20, san=True)
    isa = nvmfuzz.Isa(r.text())
    ctx.require(len(isa.ops) > 60, "isa_probe --dump gave no opcode table")
    opname = {op: v[0] for op, v in isa.ops.items()}
    keyer = Keyer(asan, isa, tag_names(asan))
    tally = Tally()
    with Scratch("c14") as sc:
        # ---- the hook must be alive: a control program under audit yields a summary with audits > 0 ----
        ctl = {"main.nano": _t_two_locals(ctx.rng("control"))}
        o = observe(asan, sc.sub("control"), ctl)
        judge(ctx, keyer, tally, "template", "control", ctl, o)
        if not ctx.violations:
            ctx.require(o.summary is not None and int(o.summary.get("audits", 0)) > 50,
                        "heap-audit hook not active (no summary record): %s" % _stderr_brief(o.aud))
            ctx.require("orphans" in o.summary, "the heap-audit hook of this tree has no orphan detection (hook H2c missing)")

        # ---- audit family ----
        items = []
        for v in range(ctx.n(1, 10)):
            for name, fn in TEMPLATES:
                items.append(("template", "%s#%d" % (name, v), {"main.nano": fn(ctx.rng("template", name, v))}))
        am_ops = {}
        for i in range(ctx.n(84, 1700)):
            rng = ctx.rng("alias", i)
            text, ops = alias_program(rng, rng.choice([1.0, 2.0, 3.0]))
            for k, c in ops.items():
                am_ops[k] = am_ops.get(k, 0) + c
            items.append(("alias-machine", "am%05d" % i, {"main.nano": text}))
        n_gen = ctx.n(55, 1190)
        batch = sweep.gen_batch(ctx, n_gen, features=GEN_FEATURES, size=1.5, label="c14gen")
        ctx.require(len(batch) >= n_gen * 0.6, "generator produced too few programs (%d of %d)" % (len(batch), n_gen))
        unprintable = 0
        for i, prog, exp in batch:
            try:
                files = prog.files()
            except (TypeError, KeyError, IndexError, ValueError, AttributeError):
                # nlv.gen occasionally leaves a hole (None) in a part of the tree that its reference model never
                # evaluates (a function-typed argument for which no function exists); such a program cannot be printed
                unprintable += 1
                continue
            items.append(("nlv.gen", "gen%05d" % i, files))
        ctx.require(unprintable <= max(2, len(batch) // 50), "%d of %d generated programs could not be printed" % (unprintable, len(batch)))

        def do(item):
            fam, label, files = item
            return item, observe(asan, sc.sub("%s/%s" % (fam, label.replace("#", "_"))), files)

        ran = 0
        for (fam, label, files), o in pmap(do, items):
            if judge(ctx, keyer, tally, fam, label, files, o):
                ran += 1

        # ---- high fan-in family (coarse audit: the undercount persists once the stored count has wrapped) ----
        fitems = []
        kinds = list(FANIN_KINDS)
        for j, n in enumerate(FANIN_N):
            if ctx.quick():
                fitems.append(("string", n, "push"))
                fitems.append((kinds[1 + j % 2], n, "array_new"))
            else:
                fitems += [(k, n, how) for k in kinds for how in ("push", "array_new")]

        def do_fanin(it):
            kind, n, how = it
            files = {"main.nano": fanin_program(kind, n, how)}
            return it, files, observe(asan, sc.sub("fanin/%s_%d_%s" % (kind, n, how)), files, every=10000 if n > 1000 else 100)

        fan_ran = 0
        fan_maxdeg = 0
        for (kind, n, how), files, o in pmap(do_fanin, fitems):
            if judge(ctx, keyer, tally, "fan-in", "%s x%d via %s" % (kind, n, how), files, o):
                if o.aud.status == 0 and o.summary and int(o.summary.get("maxdeg", 0)) >= n:
                    fan_ran += 1
                fan_maxdeg = max(fan_maxdeg, int(o.summary.get("maxdeg", 0)))
        if not ctx.violations:
            ctx.require(fan_ran == len(fitems), "only %d of %d high fan-in programs reached their in-degree" % (fan_ran, len(fitems)))

        # ---- churn family ----
        pairs = [(K_ITER, 4 * K_ITER)] if ctx.quick() else [(K_ITER, 4 * K_ITER), (5 * K_ITER, 20 * K_ITER)]
        citems = [(name, k, k4) for name in CHURN for (k, k4) in pairs]

        def do_churn(it):
            name, k, k4 = it
            res = []
            for n, ev in ((k, 1 if k <= K_ITER else 16), (k4, 16)):
                # the small cell is audited at every instruction (orphan / undercount records name the opcode)
                res.append(observe(asan, sc.sub("churn/%s/%d" % (name, n)), {"main.nano": churn_program(name, n)}, every=ev))
            return it, res

        churn_table = {}
        churn_ok = 0
        for (name, k, k4), (o1, o4) in pmap(do_churn, citems):
            okrun = True
            for n, o in ((k, o1), (k4, o4)):
                if not judge(ctx, keyer, tally, "churn", "%s@%d" % (name, n), {"main.nano": churn_program(name, n)}, o):
                    okrun = False
            if not okrun or o1.aud.status != 0 or o4.aud.status != 0:
                churn_table["%s@%d" % (name, k)] = "did-not-run"
                continue
            churn_ok += 1
            l1, l4 = int(o1.summary["live"]), int(o4.summary["live"])
            p1, p4 = int(o1.summary["peak_live"]), int(o4.summary["peak_live"])
            growth = max(l4 - l1, p4 - p1)
            churn_table["%s@%d" % (name, k)] = {"live": [l1, l4], "peak_live": [p1, p4], "growth": growth}
            if growth > 0.10 * (k4 - k):
                ctx.violation("leak|" + name, "churn construct '%s': live objects at exit %d after %d iterations, %d after %d iterations (peak %d / %d): "
                              "%.2f objects per iteration are never released" % (name, l1, k, l4, k4, p1, p4, growth / float(k4 - k)),
                              {"main.nano": churn_program(name, k4), "main_k.nano": churn_program(name, k),
                               "cmd.txt": "NLVERIF_AUDIT=16 NLVERIF_AUDIT_LOG=audit.log nano_virt main.nano --run ; grep summary audit.log   (compare live= with main_k.nano)\n"})

        # ---- enough observed? (only meaningful when nothing was found) ----
        ops_named = {opname.get(op, "0x%02x" % op): c for op, c in tally.ops.items()}
        missing = [x for x in HEAP_OPS_EXPECTED if x not in ops_named]
        if not ctx.violations:
            ctx.require(tally.inconclusive <= max(3, len(items) // 20), "%d runs hit the watchdog or lost their summary" % tally.inconclusive)
            ctx.require(ran >= len(items) * 0.8, "only %d of %d programs ran under audit: %s" % (ran, len(items), tally.outcomes))
            ctx.require(churn_ok >= len(citems) * 0.9, "only %d of %d churn cells ran" % (churn_ok, len(citems)))
            ctx.require(tally.audits >= ctx.n(300000, 5000000), "too few audits (%d)" % tally.audits)
            ctx.require(len(tally.nontrivial) >= ctx.n(60, 1000), "too few non-trivial programs (%d)" % len(tally.nontrivial))
            ctx.require(not missing, "heap opcodes never executed under audit: %s" % missing)
        return ctx.finish({
            "evaluations": len(items) + 2 * len(citems) + len(fitems),
            "fan_in_programs": len(fitems),
            "fan_in_max_in_degree": fan_maxdeg,
            "distinct_nontrivial": len(tally.nontrivial),
            "rule": "distinct program texts (sha256 of main.nano; audit and churn families) that ran with >= 1000 audits and reached a maximum in-degree >= 2 (some object referenced from two places at once)",
            "programs_by_family": tally.by_family,
            "outcomes": tally.outcomes,
            "audits_run": tally.audits,
            "object_visits_in_audits": tally.objs_seen,
            "objects_registered": tally.registered,
            "objects_unregistered": tally.unregistered,
            "orphan_records": tally.orphan_records,
            "runs_with_every_live_object_reachable_at_exit": tally.exit_all_reachable,
            "max_in_degree": tally.maxdeg,
            "max_peak_live": tally.peak,
            "instructions_under_audit": tally.instrs,
            "programs_audited_every_instruction": tally.every.get(1, 0),
            "programs_audited_every_64th": tally.every.get(64, 0),
            "churn_cells_every_16th": tally.every.get(16, 0),  # the K cells of the churn family are among the every-instruction runs
            "opcodes_executed_under_audit": dict(sorted(ops_named.items(), key=lambda kv: -kv[1])),
            "distinct_opcodes_under_audit": len(ops_named),
            "alias_machine_operations": dict(sorted(am_ops.items(), key=lambda kv: -kv[1])),
            "churn": churn_table,
            "sanitizer_reports_outside_vm": tally.frontend_reports,
            "generated_programs_unprintable": unprintable,
            "samples": tally.samples,
        }, assumptions=[
            "hook H2 (registry in heap.c, verif_vm_audit in vm.c) computes the in-degree from: operand stack incl. locals, globals[0..global_count), frame closures; edges: array elements, struct/union/tuple fields, closure captures, hashmap keys and values; the intern table is weak",
            "the invariant checked is ref_count >= in-degree (never equality); lost counts are decided (a) in every run by the hook's orphan records: a registered object that no root reaches at an instruction boundary or at vm_destroy (temporaries are on the operand stack, which is a root), (b) by growth in the churn family",
            "audit every instruction for programs of <= %d instructions, every 64th above, every 16th in churn cells; the opcode in a key is the linear predecessor of the audited ip and is only given for every-instruction runs" % EVERY1_LIMIT,
            "churn measure: live objects at vm_destroy (after main's frame is gone, before globals are released) and the peak of live objects seen at audits; violation when either grows by more than 10%% of the extra iterations between K=%d and 4K" % K_ITER,
            "sanitizer reports whose stack does not touch src/nanovm are outside this property (front end) and only listed",
        ])


def replay(ctx, path):
    asan = build.get("asan")
    files = {}
    for fn in os.listdir(path):
        if fn.endswith(".nano"):
            files[fn] = open(os.path.join(path, fn)).read()
    if "main.nano" not in files:
        print("no main.nano in %s" % path)
        return 2
    with Scratch("c14r") as sc:
        o = observe(asan, sc.sub("r"), files)
        print("exit %s, %d instructions, audited every %d" % (o.aud.status, o.instrs, o.every))
        for k, f in o.records[:40]:
            print("VERIF-AUDIT kind=%s %s" % (k, " ".join("%s=%s" % kv for kv in f.items())))
        rep = o.aud.sanitizer_report()
        if rep:
            print(rep[:3000])
        bad = [k for k, f in o.records if k != "summary"] or rep
        return 1 if bad else 0
