"""C16 - a failing FFI co-process is contained by the VM (DESIGN §4 C16).

`nano_vm --isolate-ffi` (plain and asan flavor) runs a program with extern calls against
tools/fake_nano_cop.py, installed as `nano_cop` first on PATH (vm_ffi.c uses execlp("nano_cop")).  The
stand-in speaks the real protocol and injects exactly one fault ($NLVERIF_COP_FAULT=<step>:<kind>:<k>).

Oracle per run (the property's outcome set):
  * the VM is not terminated by a signal and prints no sanitizer report;
  * either exit 0 with the complete expected output ("recovered": relaunch or in-process fallback), or exit 1
    with the runtime error "FFI call failed" on stderr ("error reported");
  * everything the program printed before the faulted call is intact (stdout starts with that prefix);
  * no process carrying the per-case tag in its environment is alive 5 s after the VM exited.
Controls (no fault; also fragmented writes and a peer that ignores SHUTDOWN/EOF) must end with exit 0 and the
complete output.
Kinds: the stand-in's process kinds include close_*_alive (pipe closed but the peer keeps running until it is
signalled - the orphan clause for "closes one or both pipes"); its message kinds include complete-but-garbled
values (string length 2^32-1, array count 2^32-1 with an element, 500 000 nested arrays).

Programs: A = four libc calls with int results (strlen, labs, toupper, atoi), VM work between the calls so that
a peer that died after a reply has been reaped when the next call starts (relaunch path).  B = two calls of an
extern that only the stand-in knows, answering 20 000 / 9 000 byte strings: replies larger than the VM's
8 KiB stack buffer take its malloc path, whose error exits are watched by ASan.
"""
import json
import os
import re
import resource
import signal
import struct
import subprocess
import threading
import time

from .. import build
from ..run import run as sh, pmap, Scratch, ASAN_ENV, SAN_RE

LEVEL = "fault_enumeration"

VERIF = os.path.dirname(os.path.dirname(os.path.dirname(os.path.abspath(__file__))))
FAKE = os.path.join(VERIF, "tools", "fake_nano_cop.py")


def enc(v):
    """Wire encoding of a value (cop_protocol.h): INT 0x01 i64, STRING 0x05 u32 len + bytes."""
    if isinstance(v, str):
        b = v.encode()
        return b"\x05" + struct.pack("<I", len(b)) + b
    return b"\x01" + struct.pack("<q", v)


# ---- test programs -----------------------------------------------------------------------------------
class Prog:
    def __init__(self, name, source, lines, before, table, reference):
        self.name = name
        self.source = source
        self.expected = "\n".join(lines) + "\n"
        self.before = before            # before[j-1] = the line printed immediately before extern call j
        self.ncalls = len(before)
        self.table = table              # {hex(serialized args): hex(serialized result)}
        self.reference = reference      # the program also runs without isolation (real libc functions)
        self.nvm = None

    def prefix(self, j):
        """stdout up to and including the 'before' line of call j (1-based)."""
        if j > self.ncalls:
            return self.expected        # fault after the last call: nothing of the output may be missing
        m = self.before[j - 1] + "\n"
        return self.expected[: self.expected.index(m) + len(m)]


SPIN = 20000          # VM work between two calls (a few ms)
SPIN_VALUE = 59997    # sum(i % 7 for i in range(20000))
CALLS_A = [("strlen", '"alpha-bravo"', "alpha-bravo", 11),
           ("labs", "-4242", -4242, 4242),
           ("toupper", "113", 113, 81),
           ("atoi", '"90817"', "90817", 90817)]


def _prog_a():
    body = "".join(
        '    (println "C16-B%d-before-%s")\n    unsafe { set r (%s %s) }\n'
        '    (println (+ "C16-A%d-%s=" (int_to_string r)))\n    (println (+ "C16-W%d=" (int_to_string (spin %d))))\n'
        % (i + 1, fn, fn, arg, i + 1, fn, i + 1, SPIN) for i, (fn, arg, _, _) in enumerate(CALLS_A))
    src = """extern fn strlen(s: string) -> int
extern fn labs(x: int) -> int
extern fn toupper(c: int) -> int
extern fn atoi(s: string) -> int

fn spin(n: int) -> int {
    let mut i: int = 0
    let mut acc: int = 0
    while (< i n) {
        set acc (+ acc (% i 7))
        set i (+ i 1)
    }
    return acc
}
shadow spin { assert (== (spin 0) 0) }

fn main() -> int {
    (println "C16-START")
    let mut r: int = 0
""" + body + """    (println "C16-END")
    return 0
}
shadow main { assert true }
"""
    lines = ["C16-START"]
    before = []
    for i, (fn, _, _, res) in enumerate(CALLS_A):
        before.append("C16-B%d-before-%s" % (i + 1, fn))
        lines += [before[-1], "C16-A%d-%s=%d" % (i + 1, fn, res), "C16-W%d=%d" % (i + 1, SPIN_VALUE)]
    lines.append("C16-END")
    return Prog("A", src, lines, before, {enc(a).hex(): enc(r).hex() for _, _, a, r in CALLS_A}, True)


BIG = [20000, 9000]


def _big_string(n):
    return "".join(chr(97 + (i * 7 + n) % 26) for i in range(n))


def _prog_b():
    body = "".join(
        '    (println "C16B-B%d-before")\n    unsafe { set s (nlv_c16_big %d) }\n'
        '    (println (+ "C16B-A%d-len=" (int_to_string (str_length s))))\n'
        '    (println (+ "C16B-W%d=" (int_to_string (spin %d))))\n' % (i + 1, n, i + 1, i + 1, SPIN) for i, n in enumerate(BIG))
    src = """extern fn nlv_c16_big(n: int) -> string

fn spin(n: int) -> int {
    let mut i: int = 0
    let mut acc: int = 0
    while (< i n) {
        set acc (+ acc (% i 7))
        set i (+ i 1)
    }
    return acc
}
shadow spin { assert (== (spin 0) 0) }

fn main() -> int {
    (println "C16B-START")
    let mut s: string = ""
""" + body + """    (println "C16B-END")
    return 0
}
shadow main { assert true }
"""
    lines = ["C16B-START"]
    before = []
    for i, n in enumerate(BIG):
        before.append("C16B-B%d-before" % (i + 1))
        lines += [before[-1], "C16B-A%d-len=%d" % (i + 1, n), "C16B-W%d=%d" % (i + 1, SPIN_VALUE)]
    lines.append("C16B-END")
    return Prog("B", src, lines, before, {enc(n).hex(): enc(_big_string(n)).hex() for n in BIG}, False)


PROG_A = _prog_a()
PROG_B = _prog_b()
PROGS = {"A": PROG_A, "B": PROG_B}

# ---- scenario space ----------------------------------------------------------------------------------
ALIVE_KINDS = ["close_stdin_alive", "close_stdout_alive", "close_both_alive"]   # pipe closed, peer keeps running
PROCESS_KINDS = ["exit0", "exit1", "kill", "close_stdin", "close_stdout", "close_both"] + ALIVE_KINDS
TRUNCATION_KINDS = ["short_header", "short_payload"]
MESSAGE_KINDS = ["short_header", "wrong_version", "wrong_type", "len_over_max", "short_payload",
                 "bad_tag", "array_huge", "string_over", "string_len_max", "array_huge_elem"]
KINDS = PROCESS_KINDS + MESSAGE_KINDS
REPLY_ONLY_KINDS = ["deep_nesting"]     # 3 MB reply of 500 000 nested arrays: only in place of a reply (pre_reply)
K = 3   # program A makes 4 calls, so a fault at the k-th exchange (k <= 3) is always followed by another call


def scenarios(jitters):
    """The finite scenario space (per flavor)."""
    S = []

    def add(family, step="none", kind="none", k=0, second="healthy", stubborn=False, chunk=0, jitter=None, prog="A"):
        S.append(dict(family=family, step=step, kind=kind, k=k, second=second, stubborn=stubborn,
                      chunk=chunk, jitter=jitter, prog=prog))

    for j in jitters:
        # controls: no fault
        for prog in ("A", "B"):
            add("control", jitter=j, prog=prog)
            add("control", chunk=1 if prog == "A" else 4093, jitter=j, prog=prog)
            add("control", chunk=3 if prog == "A" else 977, jitter=j, prog=prog)
            add("control", stubborn=True, jitter=j, prog=prog)
        # the product steps x kinds
        for kind in KINDS:
            for k in range(1, K + 1):
                add("product", "pre_ready", kind, k, jitter=j)
            add("product", "post_ready", kind, 1, jitter=j)
            for step in ("on_req", "pre_reply", "mid_reply"):
                for k in range(1, K + 1):
                    add("product", step, kind, k, jitter=j)
        for kind in REPLY_ONLY_KINDS:
            for k in range(1, K + 1):
                add("product", "pre_reply", kind, k, jitter=j)
        # relaunch: the peer dies / goes deaf BETWEEN two calls; second instance healthy or faulty again
        for second in ("healthy", "same"):
            for kind in PROCESS_KINDS:
                for k in range(1, K + 1):
                    add("relaunch", "post_reply", kind, k, second=second, jitter=j)
        for kind in ("exit1", "kill", "wrong_type", "short_header"):
            add("relaunch", "pre_ready", kind, 3, second="same", jitter=j)
        for kind in ("exit0", "kill", "close_both"):
            add("relaunch", "post_ready", kind, 1, second="same", jitter=j)
        for kind in ("exit1", "wrong_version"):
            add("relaunch", "pre_reply", kind, 1, second="same", jitter=j)
        # a peer that ignores SHUTDOWN and EOF: only the documented SIGTERM fallback removes it
        for step, kind, k in (("pre_ready", "wrong_type", 3), ("pre_ready", "wrong_version", 1),
                              ("post_ready", "len_over_max", 1), ("pre_reply", "wrong_type", 2),
                              ("on_req", "string_over", 1), ("pre_reply", "array_huge", 3),
                              ("mid_reply", "wrong_version", 2)):
            add("stubborn", step, kind, k, stubborn=True, jitter=j)
        # big replies (program B, malloc'ed receive buffer).  mid_reply only with kinds after which the peer
        # is gone or has closed stdout: half of a 20 kB payload followed by a small complete message and a
        # peer that keeps serving would leave the VM waiting for the other half for ever (alive-and-silent).
        for kind in KINDS:
            add("big", "on_req", kind, 1, jitter=j, prog="B")
            add("big", "pre_reply", kind, 1, jitter=j, prog="B")
        for kind in PROCESS_KINDS + TRUNCATION_KINDS:
            add("big", "mid_reply", kind, 1, jitter=j, prog="B")
        for kind in ("exit1", "close_stdout", "short_payload"):
            add("big", "mid_reply", kind, 2, jitter=j, prog="B")
        for kind in REPLY_ONLY_KINDS:
            add("big", "pre_reply", kind, 1, jitter=j, prog="B")
        # the LAST call: a peer that closed a pipe but lives on is met only by the SHUTDOWN write at exit
        for kind in ALIVE_KINDS:
            for step in ("on_req", "pre_reply", "mid_reply", "post_reply"):
                add("big", step, kind, 2, jitter=j, prog="B")
        # reply-size dimension: WELL-FORMED replies (error text / string result) of boundary sizes.  The VM keeps
        # 255 bytes of an error text (error_msg[256]) and must stay framed whatever the announced length is.
        for n in REPLY_SIZES:
            for k in (1, 2):
                add("sized", "sized_error", "n=%d" % n, k, jitter=j, prog="A")
                add("sized", "sized_error", "n=%d" % n, k, jitter=j, prog="B")
                add("sized", "sized_result", "n=%d" % n, k, jitter=j, prog="B")
    return S


REPLY_SIZES = [0, 1, 255, 256, 257, 511, 512, 767, 768, 769, 4095, 4096, 8191, 8192, 9000, 65535, 65536, 100000, 1 << 20]


def sized(sc):
    """(mode, nbytes) of a reply-size scenario, else None."""
    if sc["step"].startswith("sized_"):
        return sc["step"][6:], int(sc["kind"][2:])
    return None


def expected_output(sc):
    prog = PROGS[sc["prog"]]
    sz = sized(sc)
    if sz and sz[0] == "result":
        k = sc["k"]
        return prog.expected.replace("C16B-A%d-len=%d\n" % (k, BIG[k - 1]), "C16B-A%d-len=%d\n" % (k, sz[1]))
    return prog.expected


def faulted_call(sc):
    """Index (1-based) of the first extern call that can be affected by the fault."""
    step, k = sc["step"], sc["k"]
    if step in ("pre_ready", "post_ready"):
        return 1
    if step == "post_reply":
        return k + 1
    return k


def cell(sc):
    return "%s:%s:%d" % (sc["step"], sc["kind"], sc["k"])


# ---- running one case --------------------------------------------------------------------------------
def _preexec(cpu):
    def fn():
        os.setsid()
        resource.setrlimit(resource.RLIMIT_CPU, (cpu, cpu + 2))
        resource.setrlimit(resource.RLIMIT_CORE, (0, 0))
        resource.setrlimit(resource.RLIMIT_FSIZE, (64 << 20, 64 << 20))
    return fn


def tagged_pids(tag):
    """Live (non-zombie) processes whose initial environment carries NLVERIF_COP_TAG=<tag>."""
    needle = ("NLVERIF_COP_TAG=%s" % tag).encode()
    found = []
    for d in os.listdir("/proc"):
        if not d.isdigit():
            continue
        try:
            with open("/proc/%s/environ" % d, "rb") as f:
                envb = f.read()
            if needle not in envb.split(b"\0"):
                continue
            with open("/proc/%s/stat" % d, "rb") as f:
                st = f.read()
            state = st[st.rindex(b")") + 2:st.rindex(b")") + 3]
            if state in (b"Z", b"X"):
                continue
            found.append(int(d))
        except (OSError, ValueError):
            continue
    return found


GRACE = 5.0
HANG_IDLE = 5.0       # a VM whose peer is gone and which sleeps without using CPU for this long is hung
HANG_CAP = 8          # confirmed hangs per (step, process|message kinds) after which the class is not scheduled further


def vm_cpu_state(pid):
    """(utime+stime in ticks, set of thread states, wchan) of a process, None if it is gone."""
    try:
        with open("/proc/%d/stat" % pid, "rb") as f:
            st = f.read()
        rest = st[st.rindex(b")") + 2:].split()
        cpu = int(rest[11]) + int(rest[12])
        states = set()
        for t in os.listdir("/proc/%d/task" % pid):
            try:
                with open("/proc/%d/task/%s/stat" % (pid, t), "rb") as f:
                    ts = f.read()
                states.add(ts[ts.rindex(b")") + 2:ts.rindex(b")") + 3].decode())
            except (OSError, ValueError):
                pass
        try:
            with open("/proc/%d/wchan" % pid) as f:
                wchan = f.read().strip()
        except OSError:
            wchan = "?"
        return cpu, states, wchan
    except (OSError, ValueError, IndexError):
        return None


def peer_gone(tag, vm_pid, logp):
    """True when no stand-in can still send anything to the VM: every live process of the case other than the VM
    itself (found by the tag, so a forked child that has not exec'ed yet counts as live) has logged that it
    closed its stdout.  A stand-in must have been launched at all."""
    try:
        with open(logp) as f:
            lines = f.read().splitlines()
    except OSError:
        return False
    if not any(ln.endswith(" launch") for ln in lines):
        return False
    closed = set()
    for ln in lines:
        parts = ln.split(" ", 2)
        if len(parts) == 3 and parts[2] == "closed fd 1" and parts[1].isdigit():
            closed.add(int(parts[1]))
    return all(q in closed for q in tagged_pids(tag) if q != vm_pid)


def run_case(flavor, bindir, casedir, sc, tag, tables, wall=40):
    """One nano_vm --isolate-ffi run against the stand-in.  Returns an observation dict."""
    prog = PROGS[sc["prog"]]
    os.makedirs(casedir, exist_ok=True)
    logp = os.path.join(casedir, "cop.log")
    for n in ("cop.log", "stdout", "stderr"):
        try:
            os.unlink(os.path.join(casedir, n))
        except OSError:
            pass
    env = {"PATH": "%s:/usr/bin:/bin" % bindir, "HOME": casedir, "LC_ALL": "C",
           "NLVERIF_COP_TAG": tag, "NLVERIF_COP_LOG": logp, "NLVERIF_COP_TABLE": tables[prog.name],
           "NLVERIF_COP_FAULT": "none" if sc["step"] == "none" or sized(sc) else cell(sc),
           "NLVERIF_COP_SECOND": sc["second"]}
    if sized(sc):
        env["NLVERIF_COP_SIZED"] = "%s:%d:%d" % (sized(sc)[0], sized(sc)[1], sc["k"])
    if sc["stubborn"]:
        env["NLVERIF_COP_STUBBORN"] = "1"
    if sc["chunk"]:
        env["NLVERIF_COP_CHUNK"] = str(sc["chunk"])
    if sc["jitter"] is not None:
        env["NLVERIF_COP_JITTER"] = str(sc["jitter"])
    if flavor.name == "asan":
        env.update(ASAN_ENV)
    cmd = [flavor.nano_vm, "--isolate-ffi", prog.nvm]
    t0 = time.time()
    with open(os.path.join(casedir, "stdout"), "wb") as fo, open(os.path.join(casedir, "stderr"), "wb") as fe:
        # stdout/stderr are files, not pipes: the stand-in inherits stderr, a pipe would stay open with it
        p = subprocess.Popen(cmd, cwd=casedir, env=env, stdin=subprocess.DEVNULL, stdout=fo, stderr=fe,
                             preexec_fn=_preexec(20))
    timeout = False
    hang = None
    try:
        p.wait(timeout=1.0)
    except subprocess.TimeoutExpired:
        # Still running after a second (a normal case takes well under that).  Decide logically whether it hangs:
        # the peer is gone (dead, or has closed the pipe the VM reads from) AND the VM sleeps without consuming
        # any CPU for HANG_IDLE seconds.  That is not the silent-but-alive peer which the property leaves out:
        # nobody is left who could ever wake the VM.  The wall-clock watchdog stays for everything else.
        idle_since = None
        idle_cpu = None
        while p.poll() is None:
            now = time.time()
            if now - t0 >= wall:
                timeout = True
                break
            st = vm_cpu_state(p.pid)
            if st and st[1] == {"S"} and peer_gone(tag, p.pid, logp):
                if idle_since is None or st[0] != idle_cpu:
                    idle_since, idle_cpu = now, st[0]
                elif now - idle_since >= HANG_IDLE:
                    hang = "state S, no CPU time consumed for %.1f s, wchan=%s, %.1f s after start" % (
                        now - idle_since, st[2], now - t0)
                    break
            else:
                idle_since = None
            time.sleep(0.25)
        if timeout or hang:
            try:
                os.killpg(p.pid, signal.SIGKILL)
            except OSError:
                pass
            p.wait()
    t_exit = time.time()
    # orphan scan: anything with the tag still alive?  allow GRACE seconds (the stand-in honours EOF at once,
    # the close kinds linger 300 ms), after that it is a leftover that only the VM could have removed.
    orphans = []
    scans = 0
    if not timeout and not hang:
        while True:
            orphans = tagged_pids(tag)
            scans += 1
            if not orphans or time.time() - t_exit >= GRACE:
                break
            time.sleep(0.05 if time.time() - t_exit < 1 else 0.25)
    try:
        os.killpg(p.pid, signal.SIGKILL)      # clean up whatever is left of the case's process group
    except OSError:
        pass
    rc = p.returncode
    out = open(os.path.join(casedir, "stdout"), "rb").read().decode("utf-8", "replace")
    err = open(os.path.join(casedir, "stderr"), "rb").read().decode("utf-8", "replace")
    try:
        log = open(logp).read()
    except OSError:
        log = ""
    loglines = log.splitlines()
    return dict(sc=sc, flavor=flavor.name, rc=rc if rc >= 0 else None, sig=-rc if rc < 0 else 0, out=out, err=err,
                log=log, timeout=timeout, hang=hang, orphans=orphans, scans=scans, wall=t_exit - t0,
                instances=sum(1 for ln in loglines if ln.endswith(" launch")),
                fired=sum(1 for ln in loglines if " fault-fired " in ln),
                served=sum(1 for ln in loglines if " reply " in ln),
                env=env, cmd=cmd)


def san_signature(report):
    """Seed-independent signature of a sanitizer report: error class + innermost frame inside the repository."""
    m = re.search(r"ERROR: (?:AddressSanitizer|LeakSanitizer|UndefinedBehaviorSanitizer): ([^\n]*)", report)
    if m:
        kind = "-".join(re.sub(r"0x[0-9a-f]+|\d+|[():]", " ", m.group(1).split(" on ")[0]).split()[:5])
    else:
        m = re.search(r"runtime error: ([^\n]*)", report)
        kind = re.sub(r"0x[0-9a-f]+|\d+", "N", m.group(1))[:50] if m else "report"
    if kind == "stack-overflow":
        return kind        # the frame in which the stack happens to run out is arbitrary
    fn = re.search(r"#\d+ 0x[0-9a-f]+ in (\w+) (?!\S*libsanitizer)(?:\S*/)?src/", report)
    return "%s@%s" % (kind, fn.group(1) if fn else "?")


def classify(ob):
    """-> (outcome class, violation tag or None, explanation)."""
    sc = ob["sc"]
    prog = PROGS[sc["prog"]]
    if ob["timeout"]:
        return "timeout", None, "watchdog"
    if ob["hang"]:
        return "hang:peer-gone", "hang|peer-gone", ("the co-process is gone (dead or its stdout closed) and nano_vm neither "
                                                    "reported an error nor recovered: it sleeps for ever (%s)" % ob["hang"])
    m = SAN_RE.search(ob["err"])
    if m:
        first = ob["err"][m.start():].splitlines()[0]
        return "sanitizer", "sanitizer", san_signature(ob["err"][m.start():])
    if ob["sig"]:
        try:
            name = signal.Signals(ob["sig"]).name
        except ValueError:
            name = "SIG%d" % ob["sig"]
        return "signal:" + name, "signal:" + name, "nano_vm terminated by %s" % name
    faulted = sc["step"] != "none"
    if ob["rc"] == 0:
        if ob["out"] == expected_output(sc):
            if sized(sc) and sized(sc)[0] == "result" and ob["fired"]:
                return "delivered", None, ""
            if not faulted or not ob["fired"]:
                return "ok", None, ""
            if sc["kind"] == "close_stdin_alive" and ob["instances"] <= 1:
                return "recovered:peer-answered-all-calls", None, ""
            if ob["served"] < prog.ncalls and ob["instances"] <= 1:
                return "recovered:in-process", None, ""
            if ob["instances"] > 1:
                return ("recovered:relaunch+in-process" if ob["served"] < prog.ncalls else "recovered:relaunch"), None, ""
            return "recovered:unaffected", None, ""
        return "exit0-output-wrong", "unreported", "exit 0 but the output is not the complete expected output"
    if ob["rc"] == 1:
        if not faulted:
            return "control-failed", "control", "no fault injected, exit 1"
        if "FFI call failed" not in ob["err"] or "Runtime error" not in ob["err"]:
            return "exit1-silent", "exit1-silent", "exit 1 without the runtime error report"
        if not ob["out"].startswith(prog.prefix(faulted_call(sc))):
            return "prefix-lost", "prefix-lost", "output before faulted call %d missing or altered" % faulted_call(sc)
        return "error-reported", None, ""
    return "exit:%s" % ob["rc"], "exit=%s" % ob["rc"], "exit status outside {0,1}"


def describe(ob, why):
    sc = ob["sc"]
    e = ob["env"]
    envs = " ".join("%s=%s" % (k, e[k]) for k in sorted(e) if k.startswith("NLVERIF_COP_") and k not in
                    ("NLVERIF_COP_TAG", "NLVERIF_COP_LOG", "NLVERIF_COP_TABLE"))
    return ("%s\nscenario: program=%s family=%s fault=%s second=%s stubborn=%s chunk=%s jitter=%s flavor=%s\n"
            "nano_vm: rc=%s signal=%s; stand-in instances=%d fault fired=%d replies=%d leftover pids=%s\n"
            "replay: see cmd.txt (%s)\n"
            "stdout (tail):\n%s\nstderr (tail):\n%s\nstand-in log (tail):\n%s" % (
                why, sc["prog"], sc["family"], cell(sc), sc["second"], sc["stubborn"], sc["chunk"], sc["jitter"],
                ob["flavor"], ob["rc"], ob["sig"], ob["instances"], ob["fired"], ob["served"], ob["orphans"], envs,
                ob["out"][-700:], ob["err"][-1500:], ob["log"][-1500:]))


def run(ctx):
    flavors = [build.get("plain"), build.get("asan")]
    rng = ctx.rng("jitter")
    jitters = [None] + [rng.randrange(1, 10 ** 6) for _ in range(ctx.n(1, 16))]
    with Scratch("c16") as sc:
        for prog in PROGS.values():
            src = sc.file("prog%s.nano" % prog.name, prog.source)
            prog.nvm = os.path.join(sc.path, "prog%s.nvm" % prog.name)
            r = sh([flavors[0].nano_virt, src, "--emit-nvm", "-o", prog.nvm], cpu=30)
            ctx.require(r.rc == 0 and os.path.exists(prog.nvm), "test program %s does not compile: %s" % (prog.name, r.brief()))
            if prog.reference:
                # the program itself, without isolation, prints the expected text on both flavors
                for fl in flavors:
                    r = sh([fl.nano_vm, prog.nvm], cpu=20, san=(fl.name == "asan"))
                    ctx.require(r.rc == 0 and r.text() == prog.expected,
                                "in-process reference run differs (%s): %s" % (fl.name, r.brief()))
        bindir = sc.sub("bin")
        os.symlink(FAKE, os.path.join(bindir, "nano_cop"))
        ctx.require(os.access(FAKE, os.X_OK), "tools/fake_nano_cop.py is not executable")
        tables = {p.name: sc.file("table%s.json" % p.name, json.dumps(p.table)) for p in PROGS.values()}
        runid = "%d-%d" % (os.getpid(), int(time.time()))

        jobs = []
        for fl in flavors:
            for s in scenarios(jitters):
                jobs.append((fl, s, len(jobs)))
        ctx.rng("order").shuffle(jobs)

        hang_count = {}      # (step, process|message) -> confirmed hangs; shared by the worker threads
        hang_lock = threading.Lock()

        def hang_class(s):
            return (s["step"], "process" if s["kind"] in PROCESS_KINDS else "message")

        def one(job):
            fl, s, idx = job
            tag = "c16-%s-%d" % (runid, idx)
            cdir = os.path.join(sc.path, "cases", "%05d" % idx)
            with hang_lock:
                capped = hang_count.get(hang_class(s), 0) >= HANG_CAP
            if capped and s["step"] != "none":
                # a build that hangs systematically in this class has been shown to do so: do not pay for more
                return dict(sc=s, flavor=fl.name, skipped=True)
            ob = run_case(fl, bindir, cdir, s, tag, tables)
            if ob["hang"]:
                ob2 = run_case(fl, bindir, cdir, s, tag + "r", tables)      # confirm before reporting
                ob2["retried"] = True
                if ob2["hang"]:
                    with hang_lock:
                        hang_count[hang_class(s)] = hang_count.get(hang_class(s), 0) + 1
                else:
                    ob2["unconfirmed_hang"] = ob["hang"]
                return ob2
            if ob["timeout"]:
                ob = run_case(fl, bindir, cdir, s, tag + "r", tables)
                ob["retried"] = True
            return ob

        obs = pmap(one, jobs)

        hist = {}            # "step/kind" -> {class: n}
        classes = {}
        fired_cells = set()
        not_fired = []
        faulted_n = 0
        relaunch_runs = 0
        relaunch_instances = 0
        orphan_scans = 0
        timeouts = []
        control_bad = []
        control_fallback = []
        controls_ok = 0
        samples = []
        nvm_bytes = {p.name: open(p.nvm, "rb").read() for p in PROGS.values()}
        skipped = {}
        unconfirmed_hangs = []
        for ob in obs:
            s = ob["sc"]
            prog = PROGS[s["prog"]]
            if ob.get("skipped"):
                hk = "%s/%s kinds" % hang_class(s)
                skipped[hk] = skipped.get(hk, 0) + 1
                continue
            if ob.get("unconfirmed_hang"):
                unconfirmed_hangs.append("%s prog=%s %s: %s" % (cell(s), s["prog"], ob["flavor"], ob["unconfirmed_hang"]))
            cls, vtag, why = classify(ob)
            orphan_scans += ob["scans"]
            hk = "%s/%s" % (s["step"], s["kind"])
            hist.setdefault(hk, {})
            hist[hk][cls] = hist[hk].get(cls, 0) + 1
            classes[cls] = classes.get(cls, 0) + 1
            if cls == "timeout":
                timeouts.append("%s prog=%s %s" % (cell(s), s["prog"], ob["flavor"]))
                continue
            faulted = s["step"] != "none"
            if faulted:
                faulted_n += 1
                if ob["fired"]:
                    fired_cells.add((s["prog"], s["step"], s["kind"], s["k"], ob["flavor"]))
                else:
                    not_fired.append("%s prog=%s %s" % (cell(s), s["prog"], ob["flavor"]))
                if ob["instances"] > 1:
                    relaunch_runs += 1
                    relaunch_instances += ob["instances"] - 1
            files = {"prog.nano": prog.source, "prog.nvm": nvm_bytes[prog.name], "table.json": json.dumps(prog.table),
                     "expected_stdout.txt": expected_output(s),
                     "stdout.txt": ob["out"], "stderr.txt": ob["err"], "cop.log": ob["log"],
                     "cmd.txt": "# in this directory; nano_vm of the %s flavor (python3 -m nlv.build %s prints its root)\n"
                                "mkdir -p bin && ln -sf %s bin/nano_cop\nenv -i %s PATH=$PWD/bin:/usr/bin:/bin nano_vm --isolate-ffi prog.nvm\n" % (
                         ob["flavor"], ob["flavor"], FAKE,
                         " ".join("%s=%s" % (k, v) for k, v in sorted(ob["env"].items())
                                  if k.startswith("NLVERIF_COP_") and k not in ("NLVERIF_COP_LOG", "NLVERIF_COP_TABLE", "NLVERIF_COP_TAG"))
                         + " NLVERIF_COP_TABLE=$PWD/table.json NLVERIF_COP_LOG=$PWD/cop.replay.log")}
            if not faulted:
                # controls.  The sanity control (program A, single-write replies, no jitter) failing means the harness
                # cannot be trusted: inconclusive.  Any other control (fragmented or jittered writes, SHUTDOWN/EOF ignored,
                # 20 kB replies that arrive in pieces) failing while the sanity control passes is the VM's doing.
                plain_control = (s["chunk"] == 0 and not s["stubborn"] and s["prog"] == "A" and s["jitter"] is None)
                by_standin = (ob["instances"] == 1 and ob["served"] == prog.ncalls)
                if cls == "ok" and by_standin:
                    controls_ok += 1
                elif cls == "ok":
                    # exit 0 and complete output, but (partly) not through the stand-in: inside the property's
                    # outcome set ("recovered"); for the plain control it means PATH substitution did not work
                    control_fallback.append("%s prog=%s chunk=%d stubborn=%d instances=%d served=%d" % (
                        ob["flavor"], s["prog"], s["chunk"], s["stubborn"], ob["instances"], ob["served"]))
                    if plain_control:
                        control_bad.append("%s prog=%s: not served by the stand-in (instances=%d served=%d)" % (
                            ob["flavor"], s["prog"], ob["instances"], ob["served"]))
                elif plain_control and vtag == "control":
                    control_bad.append("%s prog=%s: %s rc=%s instances=%d served=%d err=%s" % (
                        ob["flavor"], s["prog"], cls, ob["rc"], ob["instances"], ob["served"], ob["err"][-300:]))
                else:
                    ctx.violation("control|prog=%s|chunk=%d|stubborn=%d|%s" % (s["prog"], s["chunk"], s["stubborn"], cls),
                                  describe(ob, "a healthy co-process (no fault injected; %s) and yet: %s" % (
                                      "plain" if plain_control else "fragmented writes" if s["chunk"] else
                                      "ignores SHUTDOWN/EOF" if s["stubborn"] else "large replies / jittered writes",
                                      why or cls)), files)
            elif vtag:
                big = "|big" if s["prog"] == "B" else ""
                if vtag == "signal:SIGPIPE":
                    key = "sigpipe|step=%s|kind=%s" % (s["step"], s["kind"])
                elif vtag == "sanitizer":
                    key = "sanitizer|%s|step=%s|kind=%s" % (why, s["step"], s["kind"])
                elif vtag.startswith("signal:"):
                    key = "%s|step=%s|kind=%s" % (vtag, s["step"], s["kind"])
                else:
                    key = "%s|step=%s|kind=%s%s" % (vtag, s["step"], s["kind"], big)
                ctx.violation(key, describe(ob, why), files)
            if ob["orphans"]:
                ctx.violation("orphan|step=%s|kind=%s|stubborn=%d" % (s["step"], s["kind"], s["stubborn"]),
                              describe(ob, "stand-in co-process still alive %.0f s after nano_vm exited (pids %s)" % (GRACE, ob["orphans"])), files)
            if len(samples) < 8 and faulted and ob["fired"] and (len(samples) < 4 or cls.startswith("recovered")):
                samples.append({"program": s["prog"], "fault": cell(s), "family": s["family"], "second": s["second"],
                                "flavor": ob["flavor"], "outcome": cls, "rc": ob["rc"], "signal": ob["sig"],
                                "instances": ob["instances"],
                                "stderr_tail": ob["err"].strip().splitlines()[-1:] if ob["err"].strip() else []})

        ctx.require(not control_bad, "healthy control did not run normally (harness problem?): %s" % control_bad[:3])
        if not ctx.violations:
            # "held" needs enough observation; violations already shown by other cases stand on their own
            # (a hang is inconclusive by itself, BUILDERS.md, and so is a run whose faults mostly never fired)
            ctx.require(not timeouts, "watchdog fired twice on: %s" % timeouts[:5])
            ctx.require(faulted_n > 0 and len(not_fired) <= 0.05 * faulted_n,
                        "fault never fired in %d of %d scenarios (e.g. %s)" % (len(not_fired), faulted_n, not_fired[:5]))
            ctx.require(relaunch_runs >= 3, "fewer than 3 runs in which a second co-process instance was started (%d)" % relaunch_runs)
            ctx.require(len(fired_cells) >= 300, "too few distinct cells with an injected fault (%d)" % len(fired_cells))
        return ctx.finish({
            "evaluations": len(obs) - sum(skipped.values()),
            "distinct_nontrivial": len(fired_cells),
            "rule": "distinct (program, step, kind, k, flavor) cells whose run was executed AND whose stand-in log shows the "
                    "fault-fired record (the fault was really injected); repetitions of a cell (second-instance mode, "
                    "stubborn variant, jitter seeds) and the no-fault controls are not counted",
            "exhaustive": True,
            "explanation": "the product steps {pre_ready k=1..3 (before INIT / after its header / after its payload), post_ready, "
                           "on_req k, pre_reply k, mid_reply k; k=1..%d} x 19 kinds x {plain, asan} is enumerated completely in "
                           "both tiers (deep_nesting: pre_reply only), plus post_reply (death / closed pipe between calls) x 9 process kinds x "
                           "second instance {healthy, same}, "
                           "a stubborn (SHUTDOWN/EOF-ignoring) family, a big-reply family (program B) and no-fault controls; "
                           "everything is run once without and %d time(s) with a jitter seed in the stand-in" % (K, len(jitters) - 1),
            "scenarios_per_flavor": len(jobs) // len(flavors),
            "faulted_scenarios": faulted_n,
            "controls_ok": controls_ok,
            "fault_not_fired": not_fired[:20],
            "outcome_classes": classes,
            "outcome_by_step_kind": hist,
            "relaunch_runs": relaunch_runs,
            "relaunched_instances": relaunch_instances,
            "orphan_scans": orphan_scans,
            "jitter_seeds": [j for j in jitters if j is not None],
            "watchdog_cases": timeouts[:20],
            "confirmed_hangs_by_class": {"%s/%s kinds" % k: v for k, v in hang_count.items()},
            "cells_not_run_after_hang_cap": skipped,
            "unconfirmed_hangs": unconfirmed_hangs[:20],
            "controls_not_served_by_stand_in": control_fallback,
            "samples": samples,
        }, assumptions=[
            "the stand-in tools/fake_nano_cop.py is found through PATH exactly like the real nano_cop (execlp in vm_ffi.c); "
            "the case's working directory has no bin/nano_cop",
            "a peer that stays alive and silent is not explored: the VM has no timeout and the property does not list it; "
            "truncated messages are therefore followed by closing stdout",
            "hang verdict: every stand-in of the case is dead or has closed its stdout, and the VM then sleeps (all threads "
            "in state S) without consuming CPU time for %.0f s; confirmed by running the cell a second time; after %d confirmed "
            "hangs of one (step, process|message kinds) class the remaining cells of that class are not run (listed in the "
            "evidence; the run is then a violation anyway)" % (HANG_IDLE, HANG_CAP),
            "a leftover is a live, non-zombie process whose /proc/<pid>/environ carries the per-case tag 5 s after the VM exited",
            "mid_reply x message kinds corrupts the payload inside a well-formed frame; the VM cannot notice that at call k, "
            "it must notice the misframed stream at call k+1 (k <= 3 < 4 calls)",
            "program B's extern exists only in the stand-in (no in-process reference); it is used with faults after READY only, "
            "where the VM never falls back to an in-process call",
        ])
