"""C13 - no bytecode input can make the loader, verifier or VM misbehave (DESIGN §4 C13).

Oracle (probe, asan flavor): every case goes through the repository's real nvm_deserialize -> nvm_verify ->
(accepted, no imports) vm_execute with an instruction budget (hook H1) inside probes/vm_probe.  Refuting events:
  * ASan/UBSan report or fatal signal while a case is being processed
        key = <sanitizer kind>|<innermost three in-repo frames>       e.g. SEGV|le_read_u32<nvm_deserialize<main
        (harness frames - the probe's own functions, nano_vm's run_standalone/main - all count as `main`)
        key = signal|<SIGNAME>|<phase>                                 death by signal without a report
  * the loader/verifier using up the per-case CPU budget twice         key = loader-timeout
  * verifier-accepted module, VM ends with VM_ERR_DECODE / VM_ERR_INVALID_OPCODE at an offset that is an
    instruction boundary of the verifier's own linear walk of the executing function   key = onwalk-decode
  * VM state outside its bounds after the run (stack_size > capacity, ...)             key = vm-state|<which>
A sample of the cases is also given to the real `nano_vm` binary (asan, NLVERIF_FUEL set): no report, no signal
(its exit status is the value main returned and is not judged).
Workload: nlv/nvmfuzz.py (structure-aware mutation of compiler-produced modules, raw byte strings, truncations,
hand-made programs; opcode table dumped from the repository by `vm_probe --dump-isa`).
"""
import collections
import hashlib
import json
import multiprocessing
import os
import re
import signal
import struct

from .. import build, core, corpus, nvmfuzz
from ..run import run as sh, pmap, Scratch, NCPU

LEVEL = "exploration"
FUEL = 200000
BATCH = 400
CPU_LOAD = 10          # CPU seconds one case may spend in loader + verifier (logical budget)
CPU_RUN = 30           # CPU seconds one case may spend in the VM under FUEL instructions (not a verdict)
SAN_OPTS = {"ASAN_OPTIONS": "detect_leaks=0:exitcode=97:abort_on_error=0:allocator_may_return_null=1:"
                            "hard_rss_limit_mb=2048:detect_stack_use_after_return=0:handle_abort=1:"
                            "handle_sigill=1:symbolize=0"}
HARNESS_FILES = ("probes/vm_probe.c", "src/nanovm/main.c")

_G = {}                 # inherited by the forked workers


# ---------------------------------------------------------------------------------------------
# report -> signature
# ---------------------------------------------------------------------------------------------

# Reports are produced with symbolize=0 (the in-process symbolizer re-reads the DWARF of the whole binary for every
# report: 0.4 s per crash) and symbolized here with addr2line, cached per (binary, offset).
RAW_FRAME_RE = re.compile(r"^(\s*#\d+\s+0x[0-9a-f]+)\s+\((/[^)+]+)\+0x([0-9a-f]+)\)\s*$")
_SYM = {}


def symbolize(text):
    lines = text.splitlines()
    want = {}
    for ln in lines:
        m = RAW_FRAME_RE.match(ln)
        if m and m.group(2).startswith(build.CACHE) and (m.group(2), m.group(3)) not in _SYM:
            want.setdefault(m.group(2), set()).add(m.group(3))
    for binary, offs in want.items():
        offs = sorted(offs)
        for i in range(0, len(offs), 400):
            chunk = offs[i:i + 400]
            r = sh(["addr2line", "-a", "-f", "-i", "-e", binary] + ["0x" + o for o in chunk], cpu=60)
            cur = None
            pend = None
            for ol in r.text().splitlines():
                if ol.startswith("0x") and len(ol) == 18:
                    cur = (binary, "%x" % int(ol, 16))
                    _SYM[cur] = []
                    pend = None
                elif cur is not None:
                    if pend is None:
                        pend = ol.strip()
                    else:
                        _SYM[cur].append((pend, ol.split(" (discriminator")[0].strip()))
                        pend = None
            for o in chunk:
                _SYM.setdefault((binary, o), [])
    out = []
    for ln in lines:
        m = RAW_FRAME_RE.match(ln)
        if m and (m.group(2), m.group(3)) in _SYM and _SYM[(m.group(2), m.group(3))]:
            for fn, loc in _SYM[(m.group(2), m.group(3))]:
                if "/src/" in loc and "libsanitizer" not in loc:
                    loc = "src/" + loc.split("/src/", 1)[1]     # path relative to the build root, as the in-process symbolizer prints it
                out.append("%s in %s %s" % (m.group(1), fn, loc))
        else:
            out.append(ln)
    return "\n".join(out)


FRAME_RE = re.compile(r"^\s*#\d+\s+0x[0-9a-f]+\s+in\s+(\S+)\s+(\S+?)(?::\d+)*\s*$", re.M)


def frames_of(text):
    """In-repo frames of the first stack trace in a sanitizer report, innermost first."""
    m = re.search(r"^\s*#0 ", text, re.M)
    if not m:
        return []
    out = []
    for line in text[m.start():].splitlines():
        if not line.strip().startswith("#"):
            if out:
                break
            continue
        fm = FRAME_RE.match(line)
        if not fm:
            continue
        fn, path = fm.group(1), fm.group(2)
        if path.startswith("(") or "libsanitizer" in path or path.startswith("../") or path.startswith("/usr/") or "/sysdeps/" in path:
            continue
        if any(path.endswith(h) for h in HARNESS_FILES):
            fn = "main"
        elif not (path.startswith("src/") or "/src/" in path):
            continue
        if out and out[-1] == fn == "main":
            continue
        out.append(fn)
    return out


def clip(err, n=12000):
    """Keep the report from its ERROR line on (the head carries kind and innermost frames)."""
    i = err.find("ERROR: AddressSanitizer")
    if i < 0:
        i = err.find("runtime error:")
        i = err.rfind("\n", 0, i) + 1 if i >= 0 else max(0, len(err) - n)
    return err[max(0, i - 200):i + n]


def signature(err, sig, phase):
    """(key, short description) for a probe/CLI death; None when the text shows resource exhaustion only.
    `err` must already be symbolized (see symbolize())."""
    if "hard rss limit exhausted" in err or "AddressSanitizer: out-of-memory" in err or "failed to allocate" in err and "ERROR" not in err:
        return None
    m = re.search(r"ERROR: AddressSanitizer: ([^\n]*)", err)
    if m:
        head = m.group(1)
        kind = re.split(r" on (?:unknown )?address| on 0x|:| \(| in thread", head)[0].strip()
        kind = re.sub(r"0x[0-9a-f]+|\d+", "N", kind)
        if kind.startswith("requested allocation size") or kind.startswith("allocator is out of memory") or kind.startswith("out of memory"):
            return None
        fr = frames_of(err[m.start():])
        if kind == "stack-overflow" and fr:
            # unbounded recursion: which frame happens to be innermost when the guard page is hit is arbitrary, so the key
            # names one function of the recursion cycle: among the functions that make up at least a quarter of the
            # trace's in-repo frames, the lexicographically greatest (deterministic for a given cycle)
            cnt = collections.Counter(fr)
            return "stack-overflow|%s" % max(f for f in cnt if cnt[f] * 4 >= len(fr)), head
        return "%s|%s" % (kind, "<".join(fr[:3]) or "?"), head
    m = re.search(r"(\S+?):\d+:\d+: runtime error: ([^\n]*)", err)
    if m:
        kind = re.sub(r"0x[0-9a-f]+|-?\d+", "N", m.group(2))
        kind = " ".join(kind.split()[:10])
        fr = frames_of(err[m.start():])
        return "ubsan %s|%s" % (kind, "<".join(fr[:3]) or os.path.basename(m.group(1))), m.group(2)
    if "AddressSanitizer:DEADLYSIGNAL" in err or "AddressSanitizer: " in err and "ERROR" in err:
        return "asan-unparsed|%s" % phase, err[-300:]
    if sig in (signal.SIGKILL, signal.SIGXCPU):
        return None             # killed from outside (memory pressure, CPU rlimit): a resource limit, not an observation
    if sig:
        try:
            name = signal.Signals(sig).name
        except ValueError:
            name = "SIG%d" % sig
        return "signal|%s|%s" % (name, phase), "killed by %s without a sanitizer report" % name
    return "abnormal-exit|%s" % phase, "probe ended without finishing the case and without a report"


# ---------------------------------------------------------------------------------------------
# input-side cause classes of the three open arithmetic-wrap defects
# ---------------------------------------------------------------------------------------------
# A wild read lands wherever the wrapped offset points, so ONE defect shows up under many (sanitizer kind, frame)
# combinations, some of them rare.  While the corresponding `cause|...` entry is listed as open, a signature that is
# not itself listed is attributed to the cause class if the crashing INPUT satisfies the exact trigger condition of
# that defect (computed here from the bytes, with the loader's own 32-bit arithmetic).  Listed signatures keep their
# own key; once the defect is fixed the cause entry disappears from the open list and nothing is attributed any more.

def input_causes(b):
    out = []
    n = len(b)
    if n < 32 or b[:4] != b"NVM\x01":
        return out
    ver, flags, entry, nsec = struct.unpack_from("<IIII", b, 4)
    if ver != 1 or nsec > 16 or 32 + 12 * nsec > n:
        return out
    code_size = 0
    fn_secs = []
    for i in range(nsec):
        t, off, size = struct.unpack_from("<III", b, 32 + 12 * i)
        if off + size >= 1 << 32:
            if (off + size) & 0xFFFFFFFF <= n:
                out.append("cause|section-bounds-wrap")     # passes `sec_offset + sec_size > size` only by wrapping
            break
        if off + size > n:
            break                                           # the loader refuses the file here
        if t == 2:
            pos = 0
            while pos + 4 <= size:
                slen = struct.unpack_from("<I", b, off + pos)[0]
                pos += 4
                if pos + slen >= 1 << 32:
                    if (pos + slen) & 0xFFFFFFFF <= size:
                        out.append("cause|string-length-wrap")
                    break
                if pos + slen > size:
                    break
                pos += slen
        elif t == 1:
            code_size += size
        elif t == 3:
            fn_secs.append((off, size))
    if out:
        return out
    for off, size in fn_secs:
        for k in range(size // 18):
            co, cl = struct.unpack_from("<II", b, off + 18 * k + 6)
            if co <= code_size and co + cl >= 1 << 32 and (co + cl) & 0xFFFFFFFF <= code_size:
                out.append("cause|verifier-range-wrap")
                return out
    return out


def final_key(ctx, key, blob):
    """the violation key to report: the signature, or the open cause class that explains an unlisted signature"""
    if key in ctx.open or not blob:
        return key
    for c in input_causes(blob):
        if c in ctx.open:
            return c
    return key


# ---------------------------------------------------------------------------------------------
# running a list of cases through the probe (restart after every death)
# ---------------------------------------------------------------------------------------------

REC_RE = re.compile(r"(\w+)=(\S*)")


def norm_msg(s):
    s = re.sub(r"0x[0-9a-fA-F]+", "X", s)
    return re.sub(r"-?\d+", "N", s)[:70]


def outcome_of(rec):
    """outcome class of an R record (dict)"""
    if rec.get("load") == "0":
        return "load-reject"
    if rec.get("verify") == "0":
        return "verify-reject:" + norm_msg(re.sub(r"^function\[\d+\] ", "", rec.get("verr", "")))[:40]
    if rec.get("imports", "0") != "0":
        return "imports-not-run"
    if "verif: fuel exhausted" in rec.get("msg", ""):
        return "run:fuel"
    return "run:" + rec.get("rname", "?")


def parse_R(line):
    """'R l k key=val ... msg=<rest>' -> dict"""
    d = {}
    body = line.split(" ", 3)[3] if line.count(" ") >= 3 else ""
    m = re.search(r"(?:^| )(msg|verr)=", body)
    if m:
        d[m.group(1)] = body[m.end():]
        body = body[:m.start()]
    for k, v in REC_RE.findall(body):
        d[k] = v
    return d


def run_pack(probe, pack_path, n, wall=1800):
    """Run cases 0..n-1 of a pack.  Returns (records, deaths, ops, anomalies):
    records[k] = dict of the R record | {"T": phase} | {"dead": i}; deaths = [(k, phase, sig, stderr)]."""
    records = {}
    deaths = []
    ops = collections.Counter()
    first = 0
    guard = 0
    while first < n:
        guard += 1
        if guard > n + 5:
            raise core.Inconclusive("probe restart loop does not make progress")
        r = sh([probe, "--fuel", str(FUEL), "--cpu-load", str(CPU_LOAD), "--cpu-run", str(CPU_RUN)],
               stdin=("P %s %d\n" % (pack_path, first)).encode(), cpu=3600, wall=wall, san=True, env=SAN_OPTS)
        if r.rc == 127 and b"exec failed" in r.err:
            raise core.Inconclusive("the probe binary cannot be executed: %s" % r.errtext()[:200])
        if r.timeout:
            r2 = sh([probe, "--fuel", str(FUEL), "--cpu-load", str(CPU_LOAD), "--cpu-run", str(CPU_RUN)],
                    stdin=("P %s %d\n" % (pack_path, first)).encode(), cpu=3600, wall=wall, san=True, env=SAN_OPTS)
            if r2.timeout:
                raise core.Inconclusive("probe hit the wall-clock watchdog twice on pack %s from case %d" % (pack_path, first))
            r = r2
        pending = None
        phase = "load-verify"
        ended = False
        for line in r.text().splitlines():
            if not line:
                continue
            c = line[0]
            if c == "S":
                p = line.split()
                pending = int(p[2])
                phase = "load-verify"
            elif c == "V":
                phase = "run"
            elif c == "R":
                p = line.split(" ", 3)
                k = int(p[2])
                records[k] = parse_R(line)
                pending = None
            elif c == "T":
                p = line.split()
                k = int(p[2])
                records[k] = {"T": p[3].split("=")[1]}
                pending = None
                first = k + 1
            elif c == "O":
                for it in line.split()[1:]:
                    a, b = it.split(":")
                    ops[int(a, 16)] += int(b)
            elif c == "E":
                ended = True
            elif c == "X":
                raise core.Inconclusive("probe could not read its pack: " + line)
        if ended:
            break
        if pending is not None:
            deaths.append((pending, phase, r.sig, clip(symbolize(r.errtext()))))
            records[pending] = {"dead": len(deaths) - 1}
            first = pending + 1
            continue
        if r.rc == 99:
            continue            # T record handled above
        # died between cases / before the first case: attribute to nothing, go on behind the last finished case
        deaths.append((-1, "between-cases", r.sig, clip(symbolize(r.errtext())) or ("rc=%s" % r.rc)))
        done = [k for k in records if k >= first]
        if not done:
            break
        first = max(done) + 1
    return records, deaths, ops


def write_pack(path, blobs):
    with open(path, "wb") as f:
        f.write(b"NLVPACK1" + struct.pack("<I", len(blobs)))
        for b in blobs:
            f.write(struct.pack("<I", len(b)))
            f.write(b)


def _batch(job):
    """Worker: generate one batch of cases, run it, summarise.  Runs in a forked process."""
    bi, rseed, n, cli_rate = job
    import random
    g = _G
    r = random.Random(rseed)
    fz = g["fuzzer"]
    cases = [fz.case(r) for _ in range(n)]
    pack = os.path.join(g["dir"], "b%06d.pack" % bi)
    write_pack(pack, [c[1] for c in cases])
    try:
        records, deaths, ops = run_pack(g["probe"], pack, n)
    finally:
        try:
            os.unlink(pack)
        except OSError:
            pass
    res = {"n": n, "ops": dict(ops), "pairs": collections.Counter(), "kinds": collections.Counter(), "outcomes": collections.Counter(),
           "hashes": set(), "viol": [], "vmerr": collections.Counter(), "verr": collections.Counter(), "cli": [], "samples": [],
           "load": 0, "verify": 0, "exec": 0, "imports": 0, "vm_budget": 0, "resource": 0, "steps": 0, "missing": 0,
           "offwalk_decode": 0, "retry": []}
    for k, (kind, blob) in enumerate(cases):
        rec = records.get(k)
        fam = kind.split("+")[0]
        res["hashes"].add(hashlib.blake2b(blob, digest_size=8).digest())
        if rec is None:
            res["missing"] += 1
            continue
        if "dead" in rec:
            _, phase, sig, err = deaths[rec["dead"]]
            s = signature(err, sig, phase)
            if s is None:
                oc = "resource-limit"
                res["resource"] += 1
            else:
                oc = "CRASH " + s[0]
                res["viol"].append((s[0], kind, phase, s[1], blob, err))
        elif "T" in rec:
            if rec["T"] in ("run", "cleanup"):
                oc = "vm-cpu-budget"
                res["vm_budget"] += 1
            else:
                oc = "loader-cpu-budget"
                res["retry"].append((kind, blob))
        else:
            oc = outcome_of(rec)
            if rec.get("load") == "1":
                res["load"] += 1
            if rec.get("verify") == "1":
                res["verify"] += 1
                if rec.get("imports", "0") != "0":
                    res["imports"] += 1
            if "run" in rec:
                res["exec"] += 1
                res["steps"] += int(rec.get("steps", "0") or 0)
                if rec["run"] != "0":
                    res["vmerr"][rec.get("rname", "?") + ": " + norm_msg(rec.get("msg", ""))] += 1
                if rec.get("onwalk") == "1":
                    res["viol"].append(("onwalk-decode", kind, "run",
                                        "verifier accepted, VM reports %s at offset %s which is an instruction boundary of the "
                                        "verifier's walk of function %s: %s" % (rec.get("rname"), rec.get("off"), rec.get("fn"), rec.get("msg")),
                                        blob, json.dumps(rec)))
                elif rec.get("onwalk") == "0":
                    res["offwalk_decode"] += 1
                if rec.get("inv", "ok") != "ok":
                    res["viol"].append(("vm-state|" + rec["inv"], kind, "run", "VM state out of bounds after the run: " + rec["inv"], blob, json.dumps(rec)))
            elif rec.get("verify") == "0":
                res["verr"][norm_msg(rec.get("verr", ""))] += 1
        res["outcomes"][oc.split(":")[0] if oc.startswith("verify-reject") else oc] += 1
        res["kinds"][fam] += 1
        res["pairs"][(fam, oc)] += 1
        if len(res["samples"]) < 2 and r.random() < 0.01:
            res["samples"].append({"kind": kind, "bytes": len(blob), "outcome": oc, "sha1": hashlib.sha1(blob).hexdigest()[:12],
                                   "hex": blob[:160].hex() + ("..." if len(blob) > 160 else "")})
        if oc != "imports-not-run" and r.random() < cli_rate:
            res["cli"].append((kind, oc, blob))
    for d in deaths:
        if d[0] == -1:
            s = signature(d[3], d[2], d[1])
            if s is not None:       # (None: killed from outside / memory limit; the unprocessed cases then count as missing)
                res["viol"].append((s[0] + "|between-cases", "?", d[1], s[1], b"", d[3]))
    res["hashes"] = b"".join(sorted(res["hashes"]))
    return res


# ---------------------------------------------------------------------------------------------

def probe_single(probe, path):
    recs, deaths, _ = run_pack(probe, path, 1)
    return recs.get(0), deaths


def _cli(job):
    kind, oc, path, nano_vm = job
    r = sh(["/bin/sh", "-c", 'exec "$0" "$1" >/dev/null', nano_vm, path], cpu=120, san=True,
           env=dict(SAN_OPTS, NLVERIF_FUEL=str(FUEL)))
    return job, r


def replay(ctx, path):
    """./check C13 --replay <dir>: run <dir>/case.nvm (or a file) through the probe and nano_vm again."""
    asan = build.get("asan")
    case = os.path.join(path, "case.nvm") if os.path.isdir(path) else path
    blob = open(case, "rb").read()
    bad = 0
    with Scratch("c13r") as sc:
        pk = os.path.join(sc.path, "r.pack")
        write_pack(pk, [blob])
        rec, deaths = probe_single(asan.probe("vm_probe"), pk)
        if rec and "dead" in rec:
            d = deaths[rec["dead"]]
            s = signature(d[3], d[2], d[1])
            print("probe: died in phase %s: %s" % (d[1], s[0] if s else "resource limit"))
            print(d[3][:4000])
            bad += 1 if s else 0
        else:
            print("probe: %s" % rec)
            if rec and (rec.get("onwalk") == "1" or rec.get("T") in ("load", "verify") or rec.get("inv", "ok") != "ok"):
                bad += 1
        f = sc.file("case.nvm", blob)
        (_, r) = _cli(("replay", "", f, asan.nano_vm))
        err = clip(symbolize(r.errtext()))
        if r.sig or "ERROR: AddressSanitizer" in err or "AddressSanitizer:DEADLYSIGNAL" in err or "runtime error:" in err:
            s = signature(err, r.sig, "nano_vm")
            print("nano_vm: %s\n%s" % (s[0] if s else "resource limit", err[:4000]))
            bad += 1 if s else 0
        else:
            print("nano_vm: exit %s, stderr: %s" % (r.rc, err[:300].strip()))
    print("replay: %s" % ("violation reproduced" if bad else "no violation observed"))
    return 1 if bad else 0


def run(ctx):
    asan = build.get("asan")
    probe = asan.probe("vm_probe")
    ctx.require(os.path.exists(probe), "vm_probe was not built")
    d = sh([probe, "--dump-isa"], cpu=10, san=True, env=SAN_OPTS)
    isa = nvmfuzz.Isa(d.text())
    ctx.require(d.rc == 0 and len(isa.ops) >= 40, "opcode table dump failed (%d opcodes)" % len(isa.ops))

    with Scratch("c13") as sc:
        # private copies: the shared build cache is pruned while other checks build new flavors
        import shutil
        bdir = sc.sub("bin")
        probe = shutil.copy2(probe, os.path.join(bdir, "vm_probe"))
        nano_vm = shutil.copy2(asan.nano_vm, os.path.join(bdir, "nano_vm"))
        # ---- seeds: compiler-produced modules ------------------------------------------------
        srcs = corpus.repo_sources()
        rs = ctx.rng("sources")
        rs.shuffle(srcs)
        srcs = srcs[: ctx.n(120, 100000)]
        mods = corpus.nvm_corpus(asan, sc.sub("nvm"), srcs, san=True)
        blobs = []
        for src, p in mods:
            data = open(p, "rb").read()
            if len(data) <= ctx.n(24000, 60000):
                blobs.append((os.path.relpath(src, build.REPO), data))
        blobs.sort(key=lambda x: x[0])
        ctx.require(len(blobs) >= 8, "fewer than 8 compiler-produced seed modules (%d of %d sources)" % (len(blobs), len(srcs)))
        fz = nvmfuzz.Fuzzer(isa, blobs)
        ctx.require(len(fz.seeds) == len(blobs), "%d compiler-produced modules could not be parsed by the mutator" % fz.rejected)
        n_noimp = sum(1 for s in fz.seeds if not s.imports)
        ctx.require(n_noimp >= 4, "fewer than 4 import-free seed modules")

        # ---- controls: unmutated and re-assembled seeds must load, verify (guards layout/CRC assumptions) ----
        ctl = []
        for s in fz.seeds:
            ctl.append(("control.intact", s.data))
            ctl.append(fz.control(s))
        cpack = os.path.join(sc.path, "control.pack")
        write_pack(cpack, [c[1] for c in ctl])
        crec, cdeaths, cops = run_pack(probe, cpack, len(ctl))
        ctl_ok = ctl_exec = 0
        for k, (kind, blob) in enumerate(ctl):
            rec = crec.get(k) or {}
            if "dead" in rec:
                _, phase, sig, err = cdeaths[rec["dead"]]
                s = signature(err, sig, phase)
                if s:
                    ctx.violation(s[0], "probe died on an UNMUTATED compiler-produced module (%s, %s)\n%s" % (fz.seeds[k // 2].name, s[1], err[:3000]),
                                  {"case.nvm": blob, "report.txt": err, "cmd.txt": "echo case.nvm | vm_probe    # asan flavor\n"})
                continue
            ctx.require(rec.get("load") == "1" and rec.get("verify") == "1",
                        "control case %s of %s was not accepted by loader+verifier: %s" % (kind, fz.seeds[k // 2].name, rec))
            ctl_ok += 1
            if "run" in rec:
                ctl_exec += 1
                if rec.get("onwalk") == "1":
                    ctx.violation("onwalk-decode", "compiler-produced module %s: %s" % (fz.seeds[k // 2].name, rec), {"case.nvm": blob})
        ctx.require(ctl_ok >= len(ctl) - 4 and ctl_exec >= 4, "controls: only %d/%d accepted, %d executed" % (ctl_ok, len(ctl), ctl_exec))

        # ---- witnesses of recorded findings (regression corpus) ------------------------------
        kf = core.load_findings()
        listed = {}
        for status in ("open", "fixed"):
            for e in kf.get(status, []):
                if isinstance(e, dict) and e.get("property") == "C13" and e.get("witness"):
                    listed[os.path.basename(e["witness"])] = (status, e["key"])
                elif isinstance(e, str) and "property=C13 " in e:
                    m = re.search(r"\(key (.*), witness findings/C13/([^)]+)\)\s*$", e)
                    if m:
                        listed.setdefault(m.group(2), (status, m.group(1)))
        wit_seen = []
        wdir = os.path.join(core.VERIF, "findings", "C13")
        for wn in sorted(os.listdir(wdir)) if os.path.isdir(wdir) else []:
            if not wn.endswith(".nvm"):
                continue
            blob = open(os.path.join(wdir, wn), "rb").read()
            wpk = os.path.join(sc.path, "w.pack")
            write_pack(wpk, [blob])
            rec, deaths = probe_single(probe, wpk)
            got = None
            if rec and "dead" in rec:
                dd = deaths[rec["dead"]]
                s = signature(dd[3], dd[2], dd[1])
                got = s[0] if s else "resource-limit"
                if s:
                    ctx.violation(final_key(ctx, s[0], blob), "witness findings/C13/%s: %s\n%s" % (wn, s[1], dd[3][:3000]), {"case.nvm": blob, "report.txt": dd[3]})
            elif rec and rec.get("T") in ("load", "verify"):
                got = "loader-timeout"
                ctx.violation("loader-timeout", "witness findings/C13/%s: loader/verifier CPU budget" % wn, {"case.nvm": blob})
            elif rec and rec.get("onwalk") == "1":
                got = "onwalk-decode"
                ctx.violation("onwalk-decode", "witness findings/C13/%s: %s" % (wn, rec), {"case.nvm": blob})
            status, key = listed.get(wn, ("unlisted", None))
            wit_seen.append({"witness": wn, "status": status, "listed_key": key,
                             "observed": got or (outcome_of(rec) if rec and "T" not in rec else str(rec))})
            if status == "open" and got != key:
                ctx.note("open finding %s: its witness no longer shows %s (observed %s) - the entry can become 'fixed'" % (wn, key, wit_seen[-1]["observed"]))

        # ---- the sweep ---------------------------------------------------------------------
        total = ctx.n(30000, 1500000)
        if os.environ.get("NLV_C13_CASES"):          # development knob; recorded in the evidence
            total = int(os.environ["NLV_C13_CASES"])
        nb = (total + BATCH - 1) // BATCH
        cli_want = ctx.n(700, 6000)
        cli_rate = min(1.0, cli_want / float(total))
        rb = ctx.rng("batches")
        jobs = [(i, rb.getrandbits(64), min(BATCH, total - i * BATCH), cli_rate) for i in range(nb)]
        _G.update(fuzzer=fz, probe=probe, dir=sc.sub("packs"))
        agg = {"n": 0, "load": 0, "verify": 0, "exec": 0, "imports": 0, "vm_budget": 0, "resource": 0, "steps": 0, "missing": 0, "offwalk_decode": 0}
        ops = collections.Counter()
        pairs = collections.Counter()
        kinds = collections.Counter()
        outcomes = collections.Counter()
        vmerr = collections.Counter()
        verr = collections.Counter()
        hashes = set()
        sigs = {}
        samples = []
        cli_jobs = []
        retry = []
        mp = multiprocessing.get_context("fork")
        with mp.Pool(NCPU) as pool:
            for res in pool.imap_unordered(_batch, jobs, chunksize=1):
                for k in agg:
                    agg[k] += res[k]
                ops.update(res["ops"])
                pairs.update(res["pairs"])
                kinds.update(res["kinds"])
                outcomes.update(res["outcomes"])
                vmerr.update(res["vmerr"])
                verr.update(res["verr"])
                h = res["hashes"]
                hashes.update(h[i:i + 8] for i in range(0, len(h), 8))
                if len(samples) < 8:
                    samples.extend(res["samples"])
                retry.extend(res["retry"])
                for key, kind, phase, what, blob, err in res["viol"]:
                    e = sigs.setdefault(key, {"count": 0, "kinds": collections.Counter(), "first": None, "blobs": []})
                    e["count"] += 1
                    if key not in ctx.open and len(e["blobs"]) < 2000:
                        e["blobs"].append(blob)
                    for fam in kind.split("+"):
                        e["kinds"][fam] += 1
                    if e["first"] is None or (blob and len(blob) < len(e["first"][3])):
                        e["first"] = (kind, phase, what, blob, err)
                for kind, oc, blob in res["cli"]:
                    if len(cli_jobs) < cli_want * 2:
                        cli_jobs.append((kind, oc, sc.file("cli/c%06d.nvm" % len(cli_jobs), blob), nano_vm))

        # loader/verifier CPU budget: believe it only when it repeats in a process of its own
        loader_timeouts = 0
        for kind, blob in retry[:50]:
            p = os.path.join(sc.path, "retry.pack")
            write_pack(p, [blob])
            rec, deaths = probe_single(probe, p)
            if rec and rec.get("T") in ("load", "verify"):
                loader_timeouts += 1
                ctx.violation("loader-timeout", "loader/verifier used more than %d CPU seconds twice on a %d-byte case (%s), phase %s"
                              % (CPU_LOAD, len(blob), kind, rec["T"]), {"case.nvm": blob, "cmd.txt": "echo case.nvm | vm_probe --cpu-load %d\n" % CPU_LOAD})

        attributed = collections.Counter()
        for key in sorted(sigs):
            e = sigs[key]
            kind, phase, what, blob, err = e["first"]
            if key not in ctx.open:
                # unlisted signature: every case must be explained by an open cause class, else it is reported as it is
                rk = final_key(ctx, key, blob) if all(final_key(ctx, key, bb) != key for bb in e["blobs"]) else key
                if rk != key:
                    attributed[key + "  =>  " + rk] += e["count"]
                    what = "[signature %s, attributed to %s by the input's trigger condition] %s" % (key, rk, what)
                    key = rk
            for _ in range(e["count"]):
                ctx.violation(key, "%s (phase %s, mutation %s, %d-byte case; seen %d times, mutation families %s)\n%s"
                              % (what, phase, kind, len(blob), e["count"], dict(e["kinds"].most_common(6)), err[:3500]),
                              {"case.nvm": blob, "report.txt": err,
                               "cmd.txt": "echo case.nvm | vm_probe --fuel %d      # asan flavor: build.get('asan').probe('vm_probe')\n" % FUEL})

        # ---- CLI oracle --------------------------------------------------------------------
        cli_out = collections.Counter()
        cli_disagree = 0
        n_cli = 0
        for (kind, oc, path, _), r in pmap(_cli, cli_jobs):
            n_cli += 1
            err = clip(symbolize(r.errtext()))
            # (the exit status itself is no observation: nano_vm exits with the value main returned)
            died = bool(r.sig) or "ERROR: AddressSanitizer" in err or "AddressSanitizer:DEADLYSIGNAL" in err or "runtime error:" in err
            if r.timeout:
                cli_out["watchdog (inconclusive)"] += 1
                continue
            if died:
                s = signature(err, r.sig, "nano_vm")
                if s is None:
                    cli_out["resource-limit"] += 1
                    continue
                if r.sig in (signal.SIGXCPU, signal.SIGKILL) and "ERROR" not in err and "runtime error" not in err:
                    cli_out["cpu-limit (not a verdict)"] += 1
                    continue
                cli_out["CRASH " + s[0]] += 1
                ctx.violation(final_key(ctx, s[0], open(path, "rb").read()), "nano_vm (asan) on a %s case (probe outcome: %s): %s\n%s" % (kind, oc, s[1], err[:3500]),
                              {"case.nvm": open(path, "rb").read(), "report.txt": err, "cmd.txt": "NLVERIF_FUEL=%d nano_vm case.nvm   # asan flavor\n" % FUEL})
                continue
            said = ("load-reject" if ("invalid .nvm format" in err or "Invalid file size" in err) else
                    "verify-reject" if "Bytecode verification failed" in err else
                    "run:error" if "Runtime error" in err else "run:OK")
            cli_out[said] += 1
            exp = oc.split(":")[0] if oc.startswith("verify-reject") else ("run:OK" if oc == "run:OK" else "run:error" if oc.startswith("run:") else oc)
            if exp in ("load-reject", "verify-reject", "run:OK", "run:error") and said != exp:
                cli_disagree += 1
                if cli_disagree <= 5:
                    ctx.note("nano_vm and probe classify a %s case differently: probe %s, nano_vm %s" % (kind, oc, said))

        # ---- enough seen? ------------------------------------------------------------------
        ctx.require(agg["missing"] == 0, "%d cases have no record (probe protocol broken)" % agg["missing"])
        ctx.require(agg["n"] == total, "ran %d of %d cases" % (agg["n"], total))
        ctx.require(agg["exec"] >= total // 10, "only %d of %d cases reached the VM" % (agg["exec"], total))
        ctx.require(agg["load"] >= total // 4 and agg["load"] < total, "loader accepted %d of %d cases" % (agg["load"], total))
        ctx.require(len(ops) >= 60, "only %d distinct opcodes executed" % len(ops))
        ctx.require(agg["vm_budget"] + agg["resource"] <= max(20, total // 200),
                    "%d cases ran into the CPU/memory budget inside the VM (not decided)" % (agg["vm_budget"] + agg["resource"]))
        ctx.require(n_cli >= ctx.n(300, 2000), "too few cases went through nano_vm (%d)" % n_cli)
        seed_hashes = {hashlib.blake2b(s.data, digest_size=8).digest() for s in fz.seeds}
        distinct = len(hashes - seed_hashes)

        names = {op: isa.ops[op][0] for op in isa.ops}
        return ctx.finish({
            "evaluations": total + len(ctl) + n_cli,
            "distinct_nontrivial": distinct,
            "rule": "distinct_nontrivial = number of distinct case byte strings (blake2b-64 of the bytes handed to nvm_deserialize) among the "
                    "generated cases that differ from every unmutated seed module; kind_outcome_pairs counts distinct (mutation family, outcome class) pairs",
            "kind_outcome_pairs": len(pairs),
            "cases": total,
            "cases_overridden_by_env": bool(os.environ.get("NLV_C13_CASES")),
            "seed_modules": len(fz.seeds),
            "seed_modules_without_imports": n_noimp,
            "controls": {"cases": len(ctl), "accepted": ctl_ok, "executed": ctl_exec},
            "loader_accepted": agg["load"],
            "verifier_accepted": agg["verify"],
            "executed": agg["exec"],
            "accepted_but_imports_not_run": agg["imports"],
            "vm_instructions_executed": agg["steps"],
            "vm_cpu_budget_hits (not decided)": agg["vm_budget"],
            "memory_limit_hits (not decided)": agg["resource"],
            "loader_timeouts_confirmed": loader_timeouts,
            "decode_errors_off_the_verifier_walk (allowed)": agg["offwalk_decode"],
            "outcomes": dict(outcomes.most_common()),
            "vm_error_kinds": dict(vmerr.most_common(60)),
            "vm_error_kinds_distinct": len(vmerr),
            "verifier_reject_kinds": dict(verr.most_common(30)),
            "opcodes_executed": len(ops),
            "opcodes_defined": len(isa.ops),
            "opcodes_never_executed": sorted(names[o] for o in isa.ops if o not in ops),
            "opcode_histogram": {names.get(o, "0x%02x" % o): c for o, c in ops.most_common()},
            "cases_by_mutation_family": dict(kinds.most_common()),
            "signature_table": {k: {"count": v["count"], "families": dict(v["kinds"].most_common(5))} for k, v in sorted(sigs.items())},
            "unlisted_signatures_attributed_to_open_cause_classes": dict(attributed),
            "witnesses_replayed": wit_seen,
            "cli_cases": n_cli,
            "cli_outcomes": dict(cli_out.most_common()),
            "cli_probe_disagreements": cli_disagree,
            "crafted_recipes_skipped": sorted(f.__name__ for f in fz.craft_skipped),
            "samples": samples[:8],
        }, assumptions=[
            "the probe links the repository's own objects (asan flavor: ASan + UBSan without signed-integer-overflow) and calls nvm_deserialize, nvm_verify, vm_execute directly; "
            "a sample goes through the real nano_vm binary",
            "hook H1 (vm.verif_fuel = %d / NLVERIF_FUEL) bounds every VM run; a VM run that needs more than %d CPU seconds or 2 GiB is counted as undecided, not as a violation" % (FUEL, CPU_RUN),
            "modules that declare imports are loaded and verified but not executed (the property excludes them)",
            "container layout and CRC as documented in src/nanoisa/nvm_format.h, validated by the control cases; opcode table read from the repository via vm_probe --dump-isa",
            "a clean run means: no report on these executions, not memory safety of all inputs",
        ])
