"""C15 - isolating external calls in the co-process does not change program behaviour (DESIGN §4 C15).

Oracle 1 (probe, asan): `cop_codec_probe` drives the real cop_serialize_value / cop_deserialize_value on seeded
values of every transferable type: deserialize(serialize(v)) == v bit for bit, consumed == produced length,
every too-short output buffer and every proper prefix of an encoding is refused, no access outside the exact-size
blocks (ASan).

Oracle 2 (CLI differential): generated .nano programs declare libc / libm / exported-runtime externs and call them
with the argument classes of the design (empty .. 64 KiB strings, high bytes, INT64 extremes, NaN/inf/-0.0, empty /
1 / 1000-element / nested arrays, opaque handles, void results).  Each program is compiled once with
`nano_virt --emit-nvm` and executed as `nano_vm x.nvm` (twice: a program whose in-process output is not
reproducible is set aside as unobservable, never judged) and `nano_vm --isolate-ffi x.nvm` with the nano_cop of
the same flavor first on PATH.  stdout bytes and exit status must be equal.  Controls: getppid() proves that the
isolated calls really run in a child of the VM; the import table of every module (dumped by the probe from the
repository's own loader) must contain the declared externs and the in-process run must execute at least as many
OP_CALL_EXTERN as calls were generated (opcode statistics hook), so no call is silently compiled to a builtin.
"""
import os
import re
import shutil

from .. import build
from ..run import run as sh, pmap, Scratch

LEVEL = "exploration"

REQ_BUF = 8192                 # fixed request buffer in vm_ffi_call_cop() (anchor of the property)
REPLY_BIG = 1024 * 1024        # nano_cop's fallback reply buffer
FIND_DIR = os.path.join(os.path.dirname(os.path.dirname(os.path.dirname(os.path.abspath(__file__)))), "findings", "C15")

# ------------------------------------------------------------------------------------------------------------
# nano helpers shared by all generated programs
# ------------------------------------------------------------------------------------------------------------
PRELUDE = b'''
fn rep(unit: string, n: int) -> string {
    let mut r: string = ""
    let mut p: string = unit
    let mut k: int = n
    while (> k 0) {
        if (== (% k 2) 1) {
            set r (+ r p)
        }
        set p (+ p p)
        set k (/ k 2)
    }
    return r
}
shadow rep { assert (== (str_length (rep "ab" 3)) 6) }

fn scale2(x: float, n: int) -> float {
    let mut r: float = x
    let mut i: int = 0
    if (>= n 0) {
        while (< i n) {
            set r (* r 2.0)
            set i (+ i 1)
        }
    } else {
        while (> i n) {
            set r (/ r 2.0)
            set i (- i 1)
        }
    }
    return r
}
shadow scale2 { assert (== (scale2 1.0 1) 2.0) }

fn fshow(x: float) -> string {
    if (!= x x) { return "nan" }
    if (== x 0.0) { return "zero" }
    let mut m: float = x
    let mut sgn: string = "+"
    if (< x 0.0) {
        set m (- 0.0 x)
        set sgn "-"
    }
    if (== m (* m 2.0)) { return (+ sgn "inf") }
    let mut e: int = 0
    while (>= m 2.0) {
        set m (/ m 2.0)
        set e (+ e 1)
    }
    while (< m 1.0) {
        set m (* m 2.0)
        set e (- e 1)
    }
    let mut bits: string = ""
    let mut i: int = 0
    set m (- m 1.0)
    while (< i 52) {
        set m (* m 2.0)
        if (>= m 1.0) {
            set bits (+ bits "1")
            set m (- m 1.0)
        } else {
            set bits (+ bits "0")
        }
        set i (+ i 1)
    }
    return (+ sgn (+ (+ "1." bits) (+ "p" (int_to_string e))))
}
shadow fshow { assert (== (fshow 0.0) "zero") }

fn show_af(a: array<float>) -> int {
    let mut i: int = 0
    let n: int = (array_length a)
    while (and (< i n) (< i 12)) {
        (println (fshow (at a i)))
        set i (+ i 1)
    }
    return n
}
shadow show_af { assert (== (show_af [1.0]) 1) }

fn mk_ai(n: int, base: int) -> array<int> {
    let mut a: array<int> = []
    let mut i: int = 0
    while (< i n) {
        set a (array_push a (- (* (+ base i) 1000003) 7))
        set i (+ i 1)
    }
    return a
}
shadow mk_ai { assert (== (array_length (mk_ai 3 0)) 3) }

fn mk_af(n: int) -> array<float> {
    let mut a: array<float> = []
    let mut i: int = 0
    while (< i n) {
        set a (array_push a (/ (cast_float (- (* i 37) 500)) 8.0))
        set i (+ i 1)
    }
    return a
}
shadow mk_af { assert (== (array_length (mk_af 3)) 3) }

fn mk_ab(n: int) -> array<bool> {
    let mut a: array<bool> = []
    let mut i: int = 0
    while (< i n) {
        set a (array_push a (== (% i 3) 0))
        set i (+ i 1)
    }
    return a
}
shadow mk_ab { assert (== (array_length (mk_ab 3)) 3) }

fn mk_as(n: int, unit: string) -> array<string> {
    let mut a: array<string> = []
    let mut i: int = 0
    while (< i n) {
        set a (array_push a (+ unit (int_to_string (% i 10))))
        set i (+ i 1)
    }
    return a
}
shadow mk_as { assert (== (array_length (mk_as 3 "s")) 3) }

fn mk_aa(n: int) -> array<array<int>> {
    let mut a: array<array<int>> = []
    let mut i: int = 0
    while (< i n) {
        set a (array_push a (mk_ai (% i 4) i))
        set i (+ i 1)
    }
    return a
}
shadow mk_aa { assert (== (array_length (mk_aa 3)) 3) }
'''

MAIN_HEAD = b'''
fn main() -> int {
    let INF: float = (scale2 1.0 1100)
    let NINF: float = (- 0.0 INF)
    let NAN: float = (- INF INF)
    let NZ: float = (* -1.0 0.0)
    let TINY: float = (scale2 1.0 -1074)
    let HUGE: float = (* (- 2.0 (scale2 1.0 -52)) (scale2 1.0 1023))
    let THIRD: float = (/ 1.0 3.0)
    let IMAX: int = 9223372036854775807
    let IMIN: int = (- (- 0 9223372036854775807) 1)
    unsafe {
'''
MAIN_TAIL = b'''    }
    (println "END")
    return 0
}
shadow main { assert true }
'''


def lit(b):
    """nano string literal for bytes b (raw high bytes are legal in the lexer; no quote / backslash / control)."""
    assert all((c >= 32 and c not in (34, 92, 127)) for c in b), b
    return b'"' + b + b'"'


# ------------------------------------------------------------------------------------------------------------
# argument values: (label, nano expression (bytes), encoded size on the wire, python model of the value)
# ------------------------------------------------------------------------------------------------------------
class V:
    __slots__ = ("label", "typ", "expr", "size", "val")

    def __init__(self, label, typ, expr, size, val=None):
        self.label, self.typ, self.expr, self.size, self.val = label, typ, expr, size, val


def s_lit(label, b):
    return V(label, "string", lit(b), 5 + len(b), b)


def s_long(label, n, unit=b"x", head=b"<A", tail=b"z>"):
    """string of exactly n bytes built at run time: head + unit*k + tail (n - len(head) - len(tail) divisible by unit)"""
    body = n - len(head) - len(tail)
    assert body >= 0 and body % len(unit) == 0, (n, unit)
    val = head + unit * (body // len(unit)) + tail
    expr = b"(+ (+ " + lit(head) + b" (rep " + lit(unit) + b" " + str(body // len(unit)).encode() + b")) " + lit(tail) + b")"
    return V(label, "string", expr, 5 + n, val)


def strings(thorough):
    out = [
        s_lit("s.empty", b""), s_lit("s.1B", b"a"), s_lit("s.small", b"hello, world 123"),
        s_lit("s.digits", b"-12345"), s_lit("s.digits-big", b"9223372036854775807xyz"),
        s_lit("s.hi-utf8", "h\u00e9llo \u20ac!".encode()), s_lit("s.hi-raw", b"\xff\xfe\x80\x81z\xf0"),
        s_long("s.300", 300), s_long("s.4K-1", 4095), s_long("s.hi-4K", 4096, unit=b"\xc3\xa9", head=b"<\xff", tail=b"\x80>"),
        s_long("s.8K-1", 8191), s_long("s.8K+1", 8193), s_long("s.64K", 65536),
    ]
    if thorough:
        out += [s_long("s.hi-64K", 65536, unit=b"\xff\x80", head=b"<\xfe", tail=b"\x81>"), s_long("s.8K", 8192),
                s_long("s.16K", 16384), s_long("s.64K+1", 65537), s_long("s.4K", 4096)]
    return out


def s_fit(label, n):
    return s_long(label, n) if n >= 4 else s_lit(label, b"q" * max(n, 0))


INTS = [("i.0", b"0"), ("i.1", b"1"), ("i.-1", b"-1"), ("i.neg", b"-5"), ("i.97", b"97"), ("i.neg-big", b"-4000000000"),
        ("i.2^31", b"2147483648"), ("i.2^32+1", b"4294967297"), ("i.-2^31-1", b"-2147483649"),
        ("i.max", b"IMAX"), ("i.min", b"IMIN"), ("i.-max", b"(- 0 IMAX)")]
CTYPE = [("c.-1", b"-1"), ("c.0", b"0"), ("c.digit", b"48"), ("c.upper", b"65"), ("c.lower", b"122"), ("c.space", b"32"),
         ("c.127", b"127"), ("c.128", b"128"), ("c.233", b"233"), ("c.255", b"255")]
FLOATS = [("f.0", b"0.0"), ("f.-0", b"NZ"), ("f.1.5", b"1.5"), ("f.neg", b"-2.75"), ("f.third", b"THIRD"), ("f.tiny", b"TINY"),
          ("f.huge", b"HUGE"), ("f.inf", b"INF"), ("f.-inf", b"NINF"), ("f.nan", b"NAN"), ("f.2^53+2", b"(+ (scale2 1.0 53) 2.0)"),
          ("f.-tiny", b"(- 0.0 TINY)")]


def ints():
    return [V(l, "int", e, 9) for l, e in INTS]


def ctypes_():
    return [V(l, "int", e, 9) for l, e in CTYPE]


def floats():
    return [V(l, "float", e, 9) for l, e in FLOATS]


def arr(label, typ, expr, elem_sizes):
    return V(label, typ, expr, 6 + sum(elem_sizes), elem_sizes)


def arrays_int(thorough):
    out = [arr("a.int.0", "array<int>", b"[]", []), arr("a.int.1", "array<int>", b"[42]", [9]),
           arr("a.int.extremes", "array<int>", b"[IMIN, -1, 0, 1, IMAX, 4294967297]", [9] * 6),
           arr("a.int.900", "array<int>", b"(mk_ai 900 3)", [9] * 900),
           arr("a.int.1000", "array<int>", b"(mk_ai 1000 0)", [9] * 1000)]
    if thorough:
        out += [arr("a.int.64", "array<int>", b"(mk_ai 64 9)", [9] * 64), arr("a.int.8000", "array<int>", b"(mk_ai 8000 1)", [9] * 8000)]
    return out


def arrays_float(thorough):
    return [arr("a.float.0", "array<float>", b"[]", []), arr("a.float.1", "array<float>", b"[1.5]", [9]),
            arr("a.float.special", "array<float>", b"[NAN, NZ, INF, NINF, TINY, HUGE, THIRD, 0.0]", [9] * 8),
            arr("a.float.1000", "array<float>", b"(mk_af 1000)", [9] * 1000)] + (
        [arr("a.float.900", "array<float>", b"(mk_af 900)", [9] * 900)] if thorough else [])


def arrays_bool(thorough):
    return [arr("a.bool.0", "array<bool>", b"[]", []), arr("a.bool.1", "array<bool>", b"[true]", [2]),
            arr("a.bool.5", "array<bool>", b"[true, false, false, true, false]", [2] * 5),
            arr("a.bool.1000", "array<bool>", b"(mk_ab 1000)", [2] * 1000)] + (
        [arr("a.bool.5000", "array<bool>", b"(mk_ab 5000)", [2] * 5000)] if thorough else [])


def arrays_string(thorough):
    hi = "\u00e9\u20ac".encode()
    return [arr("a.str.0", "array<string>", b"[]", []), arr("a.str.1", "array<string>", b'["only"]', [9]),
            arr("a.str.mixed", "array<string>", b'["", "a", ' + lit(hi) + b', (rep "w" 300), ' + lit(b"\xff\x80") + b"]",
                [5, 6, 5 + len(hi), 305, 7]),
            arr("a.str.1000", "array<string>", b'(mk_as 1000 "s")', [7] * 1000)] + (
        [arr("a.str.900", "array<string>", b'(mk_as 900 "s")', [7] * 900)] if thorough else [])


def arrays_nested(thorough):
    def nest(n):
        return [6 + 9 * (i % 4) for i in range(n)]
    return [arr("a.nested.0", "array<array<int>>", b"[]", []), arr("a.nested.empty-inner", "array<array<int>>", b"[[]]", [6]),
            arr("a.nested.3", "array<array<int>>", b"[[1], [2, 3], []]", [15, 24, 6]),
            arr("a.nested.50", "array<array<int>>", b"(mk_aa 50)", nest(50)),
            arr("a.nested.1000", "array<array<int>>", b"(mk_aa 1000)", nest(1000))]


# ------------------------------------------------------------------------------------------------------------
# calls
# ------------------------------------------------------------------------------------------------------------
class Call:
    """one (extern, argument class) pair: declarations + statements; {k} is replaced by the call's index"""
    __slots__ = ("name", "label", "decls", "args", "ret", "req", "res", "custom", "heavy", "n_ext")

    def __init__(self, name, label, decls, args, ret, res=0, custom=None, n_ext=1):
        self.name, self.label, self.decls, self.args, self.ret = name, label, decls, args, ret
        self.n_ext = n_ext             # OP_CALL_EXTERN executions this call block must cause
        self.req = 6 + sum(a.size for a in args)
        self.res = res                 # size of the encoded result when it can be large (0 = small)
        self.custom = custom
        self.heavy = self.req > 40000 or res > 40000

    def pair(self):
        return (self.name, self.label)

    def oversize(self):
        return self.req > REQ_BUF or self.res > REPLY_BIG

    def emit(self, k):
        K = str(k).encode()
        out = [b'        (println "@' + K + b" " + self.name.encode() + b" " + self.label.encode() + b'")']
        if self.custom:
            out += [l.replace(b"{k}", K) for l in self.custom]
        else:
            names = []
            for j, a in enumerate(self.args):
                nm = b"a" + K + b"_" + str(j).encode()
                out.append(b"        let " + nm + b": " + a.typ.encode() + b" = " + a.expr)
                names.append(nm)
            callx = b"(" + self.name.encode() + (b" " if names else b"") + b" ".join(names) + b")"
            r = b"r" + K
            if self.ret == "void":
                out.append(b"        " + callx)
            else:
                out.append(b"        let " + r + b": " + self.ret.encode() + b" = " + callx)
                if self.ret == "float":
                    out += [b"        (println " + r + b")", b"        (println (fshow " + r + b"))"]
                elif self.ret == "string":
                    out += [b"        (println (str_length " + r + b"))", b"        (println " + r + b")"]
                elif self.ret.startswith("array"):
                    out += [b"        (println (array_length " + r + b"))", b"        (println " + r + b")"]
                    if self.ret == "array<float>":
                        out.append(b"        (println (show_af " + r + b"))")
                else:
                    out.append(b"        (println " + r + b")")
        out.append(b'        (println "=' + K + b'")')
        return out


def decl(name, params, ret):
    ps = ", ".join("p%d: %s" % (i, t) for i, t in enumerate(params))
    return ("extern fn %s(%s) -> %s" % (name, ps, ret)).encode()


def fitted(others_size, over):
    """length of a single string argument that makes the request exactly REQ_BUF (+over) bytes"""
    return REQ_BUF + over - 6 - others_size - 5


def catalogue(thorough):
    S = strings(thorough)
    calls = []

    def add(name, params, ret, argsets, res=None):
        d = [decl(name, params, ret)]
        for label, args in argsets:
            calls.append(Call(name, label, d, args, ret, res(args) if res else 0))

    def needle_tail(h):
        v = h.val
        return s_lit("tail", v[-2:] if len(v) >= 2 else v)

    # ---- strings -> int ---------------------------------------------------------------------------------
    def s1(extra=()):
        sets = [(s.label, [s]) for s in S]
        sets += [("s.req-fit", [s_fit("s.req-fit", fitted(0, 0))]), ("s.req-fit+1", [s_fit("s.req-fit+1", fitted(0, 1))])]
        return sets + list(extra)
    for fn in ("strlen", "atoi", "atol", "vm_bstr_utf8_length"):
        add(fn, ["string"], "int", s1())
    add("vm_bstr_validate_utf8", ["string"], "bool", s1())
    add("strdup", ["string"], "string", s1(), res=lambda a: a[0].size)
    # reply-side boundaries: result = 6 + 9n bytes against nano_cop's 4096-byte stack buffer and the VM's 8192-byte one
    rb = [("s.n%d" % n, [s_fit("s.n%d" % n, n)]) for n in (454, 455, 909, 910)]
    add("vm_bytes_from_string", ["string"], "array<int>", [x for x in s1() if x[0] != "s.64K" or thorough] + rb,
        res=lambda a: 6 + 9 * (a[0].size - 5))

    def s2(kinds):
        sets = []
        for h in S:
            for kind in kinds:
                if kind == "same":
                    n = V("same", "string", h.expr, h.size, h.val)
                elif kind == "tail":
                    n = needle_tail(h)
                elif kind == "x":
                    n = s_lit("x", b"x")
                else:
                    n = s_lit("none", b"#no#")
                sets.append(("%s,%s" % (h.label, n.label), [h, n]))
        for over in (0, 1):
            lab = "s.req-fit" + ("+1" if over else "")
            h = s_fit(lab, fitted(5 + 2, over))
            sets.append((lab + ",tail", [h, needle_tail(h)]))
        return sets
    for fn in ("strcmp", "strcasecmp"):
        add(fn, ["string", "string"], "int", s2(["same", "tail"]))
    for fn in ("strspn", "strcspn"):
        add(fn, ["string", "string"], "int", s2(["tail", "x"]))
    add("vm_str_index_of", ["string", "string"], "int", s2(["tail", "none"]))
    add("strstr", ["string", "string"], "string", s2(["tail"]), res=lambda a: a[0].size)
    # strpbrk(s, "") is NULL (rendered identically in both modes, but it ends the program): empty haystack left out
    add("strpbrk", ["string", "string"], "string", [x for x in s2(["tail"]) if not x[0].startswith("s.empty")], res=lambda a: a[0].size)

    def s_c():
        sets = []
        for h in S:
            if len(h.val) == 0:
                continue
            c = h.val[-1]
            sets.append(("%s,lastbyte" % h.label, [h, V("c", "int", str(c).encode(), 9)]))
        return sets
    for fn in ("strchr", "strrchr"):
        add(fn, ["string", "int"], "string", s_c(), res=lambda a: a[0].size)
    add("strncmp", ["string", "string", "int"], "int",
        [("%s,same,n" % h.label, [h, V("same", "string", h.expr, h.size, h.val), V("n", "int", str(len(h.val) // 2 + 1).encode(), 9)]) for h in S])
    # (on s.hi-raw, which ends inside a 4-byte sequence, the two UTF-8 helpers read past the terminator: open findings)
    add("vm_bstr_utf8_char_at", ["string", "int"], "int",
        [("%s,%d" % (h.label, i), [h, V("i", "int", str(i).encode(), 9)]) for h in S for i in (0, 2)] +
        [("s.hi-raw,cut-seq", [S[6], V("i", "int", b"5", 9)]), ("s.hi-utf8,euro", [S[5], V("i", "int", b"6", 9)])])
    add("strnlen", ["string", "int"], "int", [("%s,n" % h.label, [h, V("n", "int", b"5000", 9)]) for h in S])
    add("strtol", ["string", "int", "int"], "int",
        [("s.digits,0,10", [S[3], V("z", "int", b"0", 9), V("b", "int", b"10", 9)]),
         ("s.hex,0,16", [s_lit("s.hex", b"-7fffffffffffffffg"), V("z", "int", b"0", 9), V("b", "int", b"16", 9)]),
         ("s.4K-1,0,36", [S[8], V("z", "int", b"0", 9), V("b", "int", b"36", 9)])])

    # ---- ints -------------------------------------------------------------------------------------------
    I = [(v.label, [v]) for v in ints()]
    C = [(v.label, [v]) for v in ctypes_()]
    # (abs is not usable: nano_virt compiles it inline even when it is declared extern)
    for fn in ("labs", "imaxabs", "ffsll", "vm_digit_value", "vm_char_to_lower", "vm_char_to_upper"):
        add(fn, ["int"], "int", I)
    for fn in ("toupper", "tolower", "isdigit", "isalpha", "isspace", "isupper", "islower", "isalnum", "isxdigit", "ispunct"):
        add(fn, ["int"], "int", C)
    for fn in ("vm_is_digit", "vm_is_whitespace"):
        add(fn, ["int"], "bool", I + C)
    for fn in ("vm_is_alpha", "vm_is_upper", "vm_is_space"):
        add(fn, ["int"], "bool", C)
    add("vm_string_from_char", ["int"], "string", [(l, a) for l, a in C if l not in ("c.-1",)])
    # bool passed through an identity (llabs declared on bool: 0/1 are fixed points)
    add("llabs", ["bool"], "bool", [("b.true", [V("b.true", "bool", b"true", 2)]), ("b.false", [V("b.false", "bool", b"false", 2)])])

    # ---- floats (all-float signatures are the ones the bridge passes in FP registers) ---------------------
    F = floats()
    F1 = [(v.label, [v]) for v in F]
    for fn in ("sqrt", "floor", "ceil", "fabs", "trunc", "round", "cbrt", "exp", "log", "sin", "cos"):
        add(fn, ["float"], "float", F1)
    comp = [F[2], F[1], F[9], F[7]]           # 1.5, -0.0, nan, inf as second operand
    F2 = [("%s,%s" % (a.label, b.label), [a, b]) for a in F for b in comp]
    for fn in ("pow", "fmod", "copysign", "fmin", "fmax", "hypot", "atan2", "fdim", "nextafter"):
        add(fn, ["float", "float"], "float", F2 if thorough else [x for i, x in enumerate(F2) if i % 3 == 0 or i % 7 == 1])
    add("fma", ["float", "float", "float"], "float", [("%s,%s,%s" % (a.label, b.label, c.label), [a, b, c])
                                                        for a, b, c in zip(F, F[3:] + F[:3], F[7:] + F[:7])])

    # ---- arrays -----------------------------------------------------------------------------------------
    AI, AF, AB, AS, AN = arrays_int(thorough), arrays_float(thorough), arrays_bool(thorough), arrays_string(thorough), arrays_nested(thorough)
    fitn = (REQ_BUF - 12) // 9                 # 908 ints: 6 + 6 + 9*908 = 8184 <= 8192 ; 909 -> 8193
    AI = AI + [arr("a.int.req-fit", "array<int>", ("(mk_ai %d 5)" % fitn).encode(), [9] * fitn),
               arr("a.int.req-fit+1", "array<int>", ("(mk_ai %d 5)" % (fitn + 1)).encode(), [9] * (fitn + 1))]
    for grp in (AI, AF, AB, AS, AN):
        add("dyn_array_length", [grp[0].typ], "int", [(a.label, [a]) for a in grp])
    for grp in (AI, AF, AB, AS):
        add("dyn_array_clone", [grp[0].typ], grp[0].typ, [(a.label, [a]) for a in grp], res=lambda a: a[0].size)
    def idx(grp):
        sets = []
        for a in grp:
            n = len(a.val)
            for lab, i in (("first", 0), ("last", n - 1)):
                if n > 0 and (lab == "first" or n > 1):
                    sets.append(("%s,%s" % (a.label, lab), [a, V(lab, "int", str(i).encode(), 9)]))
        return sets
    add("dyn_array_get_int", ["array<int>", "int"], "int", idx(AI))
    add("dyn_array_get_string", ["array<string>", "int"], "string", idx(AS))
    add("dyn_array_get_bool", ["array<bool>", "int"], "bool", idx(AB))
    bytes_arrs = [arr("a.bytes.0", "array<int>", b"[]", []), arr("a.bytes.ascii", "array<int>", b"[72, 105, 33]", [9] * 3),
                  arr("a.bytes.high", "array<int>", b"[255, 128, 195, 169, 65]", [9] * 5),
                  arr("a.bytes.700", "array<int>", b"(vm_bytes_from_string (rep \"k\" 700))", [9] * 700),
                  arr("a.bytes.1000", "array<int>", b"(vm_bytes_from_string (rep \"k\" 1000))", [9] * 1000)]
    for c in [Call("vm_string_from_bytes", a.label, [decl("vm_string_from_bytes", ["array<int>"], "string"),
                                                      decl("vm_bytes_from_string", ["string"], "array<int>")], [a], "string",
                   n_ext=2 if b"vm_bytes_from_string" in a.expr else 1)
              for a in bytes_arrs]:
        calls.append(c)

    # ---- opaque handle and void result (state lives on the side that executes the calls) -------------------
    od = [decl("fopen", ["string", "string"], "opaque"), decl("fgetc", ["opaque"], "int"), decl("fclose", ["opaque"], "int")]
    for label, path, n in (("o.devnull", b"/dev/null", 1), ("o.devzero", b"/dev/zero", 3)):
        body = [b"        let h{k}: opaque = (fopen " + lit(path) + b' "r")']
        body += [b"        (println (fgetc h{k}))"] * n + [b"        (println (fclose h{k}))"]
        c = Call("fopen/fgetc/fclose", label, od, [V("p", "string", lit(path), 5 + len(path)), V("m", "string", b'"r"', 6)], "opaque", custom=body, n_ext=n + 2)
        calls.append(c)
    # ---- arity: 0 .. 10 parameters (10 is what the bridge dispatches) -----------------------------------------
    # 0: pure / process-independent results; the request then carries no argument bytes at all
    for fn, ret in (("getpagesize", "int"), ("getuid", "int"), ("getegid", "int"), ("vm_getcwd", "string")):
        calls.append(Call(fn, "n0", [decl(fn, [], ret)], [], ret))
    body = [b"        (println (rand))", b"        (println (rand))"]
    calls.append(Call("rand", "n0", [decl("srand", ["int"], "void"), decl("rand", [], "int")], [], "int", custom=body, n_ext=2))
    add("nl_cstr_concat", ["string", "string"], "string",
        [("%s,%s" % (x.label, y.label), [x, y]) for x in S[:10] for y in (S[0], S[2], S[6])], res=lambda a: a[0].size + a[1].size)
    # 4: memmem(hay, |hay|, needle, |needle|) - every parameter decides the result
    def mm(h):
        n = needle_tail(h)
        return ("%s,len,tail,len" % h.label, [h, V("hl", "int", str(len(h.val)).encode(), 9), n, V("nl", "int", str(len(n.val)).encode(), 9)])
    add("memmem", ["string", "int", "string", "int"], "string", [mm(h) for h in S if len(h.val) > 0], res=lambda a: a[0].size)
    # 3..10 ints: snprintf(NULL, 0, fmt, v1..vk) returns the rendered length, which every vi contributes to
    for k in range(0, 8):
        for variant, vals in (("digits", [str(10 ** (j + 1) - 1) for j in range(k)]),
                              ("neg", [str(-(7 ** (j + 2))) for j in range(k)]),
                              ("min-last", [str(j) for j in range(k - 1)] + ["IMIN"] if k else None)):
            if vals is None or (k == 0 and variant != "digits"):
                continue
            fmt = "<" + "|".join(["%ld"] * k) + ">"
            args = [V("buf", "int", b"0", 9), V("size", "int", b"0", 9), s_lit("fmt", fmt.encode())] + [V("v", "int", x.encode(), 9) for x in vals]
            calls.append(Call("snprintf", "n%d.%s" % (3 + k, variant), [decl("snprintf", ["int", "int", "string"] + ["int"] * k, "int")], args, "int"))
    # 4..10 floats: fma with surplus arguments (the C ABI ignores them; the request still has to carry and frame them)
    for n in range(4, 11):
        fs = [F[(i * 5 + n) % len(F)] for i in range(n)]
        calls.append(Call("fma", "n%d.surplus:%s" % (n, ",".join(f.label for f in fs[:3])), [decl("fma", ["float"] * n, "float")], fs, "float"))

    vd = [decl("srand", ["int"], "void"), decl("rand", [], "int")]
    for label, seed in (("v.seed42", b"42"), ("v.seed-neg", b"-7"), ("v.seed-max", b"IMAX")):
        body = [b"        (srand " + seed + b")", b"        (println (rand))", b"        (println (rand))"]
        calls.append(Call("srand/rand", label, vd, [V("s", "int", seed, 9)], "void", custom=body, n_ext=3))
    return calls


def file_calls():
    """results of chosen sizes from small requests: vm_file_read (the builtin file_read) of files the harness writes"""
    d = [decl("vm_file_read", ["string"], "string")]
    out, files = [], {}
    for label, n in (("r.0", 0), ("r.1", 1), ("r.4091", 4091), ("r.4092", 4092), ("r.8187", 8187), ("r.8188", 8188),
                     ("r.64K", 65536), ("r.1M-fit", REPLY_BIG - 5), ("r.1M-fit+1", REPLY_BIG - 4), ("r.2M", 2 * REPLY_BIG)):
        name = "f_%d.dat" % n
        files[name] = bytes(1 + (i * 37 + i // 251) % 255 for i in range(min(n, 65536))) * (n // 65536 + 1)
        files[name] = files[name][:n]
        a = s_lit("path", name.encode())
        out.append(Call("vm_file_read", label, d, [a], "string", res=5 + n))
    return out, files


# ------------------------------------------------------------------------------------------------------------
# programs
# ------------------------------------------------------------------------------------------------------------
class Program:
    def __init__(self, idx, calls):
        self.idx, self.calls = idx, calls
        decls = []
        for c in calls:
            for d in c.decls:
                if d not in decls:
                    decls.append(d)
        body = []
        for k, c in enumerate(calls):
            body += c.emit(k)
        self.source = b"\n".join(decls) + b"\n" + PRELUDE + MAIN_HEAD + b"\n".join(body) + b"\n" + MAIN_TAIL


def symbols(c):
    return dict((d.split(b"(")[0], d) for d in c.decls)


def deal(calls, nprog, per, rng):
    """Distribute calls over programs: one declaration per C symbol and program, at most one call whose request or
    reply exceeds a fixed buffer (placed last, because the VM stops at the failing call - known finding), at most
    two heavy calls."""
    progs = [dict(calls=[], syms={}, over=None, heavy=0) for _ in range(nprog)]
    left = []
    for c in calls:
        order = list(range(nprog))
        rng.shuffle(order)
        order.sort(key=lambda i: len(progs[i]["calls"]) + (1 if progs[i]["over"] else 0))
        for i in order[:max(8, nprog // 4)]:
            p = progs[i]
            if len(p["calls"]) + (1 if p["over"] else 0) >= per:
                continue
            if any(p["syms"].get(s, d) != d for s, d in symbols(c).items()):
                continue
            if c.oversize():
                if p["over"]:
                    continue
                p["over"] = c
            else:
                if c.heavy and p["heavy"] >= 2:
                    continue
                p["heavy"] += 1 if c.heavy else 0
                p["calls"].append(c)
            p["syms"].update(symbols(c))
            break
        else:
            left.append(c)
    out = []
    for p in progs:
        cs = p["calls"] + ([p["over"]] if p["over"] else [])
        if cs:
            out.append(cs)
    return out, left


def select(ctx, calls, want):
    """quick: every extern once and every first-argument class once, then a seeded sample; thorough: everything"""
    rng = ctx.rng("select")
    if len(calls) <= want:
        sel = list(calls)
        rng.shuffle(sel)
        return sel
    pool = list(calls)
    rng.shuffle(pool)
    sel, seen_fn, seen_cls = [], set(), set()
    for c in pool:
        cls = c.label.split(",")[0]
        if c.name not in seen_fn or cls not in seen_cls:
            sel.append(c)
            seen_fn.add(c.name)
            seen_cls.add(cls)
    chosen = set(id(c) for c in sel)
    for c in pool:
        if len(sel) >= want:
            break
        if id(c) not in chosen:
            sel.append(c)
    rng.shuffle(sel)
    return sel


# ------------------------------------------------------------------------------------------------------------
# running and comparing
# ------------------------------------------------------------------------------------------------------------
def cop_env(fl):
    path = fl.bin + ":/usr/bin:/bin"
    return {"PATH": path}, shutil.which("nano_cop", path=path)


def blocks(out):
    """split stdout into per-call blocks {k: bytes}; returns (blocks, order, ended)"""
    res, order, cur = {}, [], None
    for line in out.split(b"\n"):
        m = re.match(rb"@(\d+) ", line)
        if m:
            cur = int(m.group(1))
            res[cur] = [line]
            order.append(cur)
        elif cur is not None:
            res[cur].append(line)
    done = set(k for k, ls in res.items() if (b"=%d" % k) in ls)
    return res, done


def obs(r):
    return (r.out, r.status)


def call_extern_opcode():
    txt = open(os.path.join(build.REPO, "src", "nanoisa", "isa.h")).read()
    m = re.search(r"OP_CALL_EXTERN\s*=\s*0x([0-9A-Fa-f]+)", txt)
    return int(m.group(1), 16) if m else None


class Outcome:
    def __init__(self):
        self.pairs_both = set()
        self.pairs_inproc_only = set()
        self.programs = 0
        self.unobservable = 0
        self.inproc_fail = 0
        self.compile_fail = 0
        self.calls_both = 0
        self.extern_ops = 0
        self.oversize_ok = 0
        self.hist = {}

    def bump(self, k):
        self.hist[k] = self.hist.get(k, 0) + 1


def run_program(fl, env, wd, prog, opcode, sanit):
    """compile + three executions; returns dict of observations"""
    os.makedirs(wd, exist_ok=True)
    src = os.path.join(wd, "p.nano")
    with open(src, "wb") as f:
        f.write(prog.source)
    for name, data in getattr(prog, "files", {}).items():
        with open(os.path.join(wd, name), "wb") as f:
            f.write(data)
    nvm = os.path.join(wd, "p.nvm")
    c = sh([fl.nano_virt, src, "--emit-nvm", "-o", nvm], cpu=60, san=sanit, cwd=wd, env=env)
    if c.rc != 0 or not os.path.exists(nvm):
        return dict(compile=c, vanished=not os.path.exists(fl.nano_virt))
    ops = os.path.join(wd, "ops.txt")
    e2 = dict(env)
    e2["NLVERIF_OPSTATS"] = ops
    cpu = 240 if sanit else 120
    a1 = sh([fl.nano_vm, nvm], cpu=cpu, san=sanit, cwd=wd, env=env, max_out=64 << 20)
    a2 = sh([fl.nano_vm, nvm], cpu=cpu, san=sanit, cwd=wd, env=e2, max_out=64 << 20)
    b = sh([fl.nano_vm, "--isolate-ffi", nvm], cpu=cpu, san=sanit, cwd=wd, env=env, max_out=64 << 20)
    if b.timeout or (obs(a1) != obs(b) and not a1.timeout):
        # a watchdog is never a verdict, and a difference is confirmed once before it is believed
        b2 = sh([fl.nano_vm, "--isolate-ffi", nvm], cpu=cpu, san=sanit, cwd=wd, env=env, max_out=64 << 20)
        if obs(b2) == obs(a1):
            b = b2
            flaky = True
        else:
            flaky = False
    else:
        flaky = False
    n_ext = None
    try:
        m = re.search(r"\b%d:(\d+)" % opcode, open(ops).read()) if opcode is not None else None
        n_ext = int(m.group(1)) if m else 0
    except OSError:
        pass
    imp = sh([fl.probe("cop_codec_probe"), "imports", nvm], cpu=20, san=sanit)
    imports = set(re.findall(r"^IMPORT \d+ (\S+)", imp.text(), re.M))
    return dict(a1=a1, a2=a2, b=b, n_ext=n_ext, imports=imports, flaky=flaky, src=src, nvm=nvm)


def judge(ctx, oc, fl, prog, res, tag):
    files = {"program.nano": prog.source,
             "cmd.txt": "flavor %s\nPATH=<flavor>/bin:/usr/bin:/bin\nnano_virt program.nano --emit-nvm -o p.nvm\n"
                        "nano_vm p.nvm            > inproc.out\nnano_vm --isolate-ffi p.nvm > isolated.out\n"
                        "./check C15 --replay <this directory>\n" % fl.name}
    for name, data in getattr(prog, "files", {}).items():
        if len(data) <= 70000:
            files[name] = data
    if "compile" in res:
        ctx.require(not res.get("vanished"), "the %s build disappeared from the cache while in use (pruned by a concurrent build)" % fl.name)
        oc.compile_fail += 1
        oc.bump("compile-failed")
        return
    a1, a2, b = res["a1"], res["a2"], res["b"]
    if a1.timeout or a2.timeout or b.timeout:
        oc.bump("watchdog")
        oc.unobservable += 1
        return
    oc.programs += 1
    if obs(a1) != obs(a2):
        oc.unobservable += 1
        oc.bump("inproc-not-reproducible")
        return
    ablk, adone = blocks(a1.out)
    bblk, bdone = blocks(b.out)
    calls = prog.calls
    if a1.status != 0 or len(adone) != len(calls) or not a1.out.endswith(b"END\n"):
        oc.inproc_fail += 1
        oc.bump("inproc-incomplete")
    # controls: the calls are real extern calls
    for c in calls:
        for d in c.decls:
            sym = d.split(b"(")[0].split()[-1].decode()
            if sym not in res["imports"] and c.name.split("/")[0] == sym:
                ctx.require(False, "extern %s is not in the import table of its module (program %d): the call is not an FFI call" % (sym, prog.idx))
    if res["n_ext"] is not None:
        oc.extern_ops += res["n_ext"]
        want = sum(c.n_ext for k, c in enumerate(calls) if k in adone)
        ctx.require(res["n_ext"] == want or len(adone) != len(calls),
                    "program %d executed %d OP_CALL_EXTERN in-process, %d expected (%s): some call is not an FFI call"
                    % (prog.idx, res["n_ext"], want, sorted(set(c.name for c in calls))))
    files["inproc.out"] = a1.out[:4 << 20]
    files["isolated.out"] = b.out[:4 << 20]
    files["inproc.err"] = a1.err[-20000:]
    files["isolated.err"] = b.err[-20000:]
    # sanitizer reports that only isolation provokes
    if tag == "asan":
        ra, rb_ = a1.sanitizer_report(), b.sanitizer_report()
        if rb_ and not ra:
            frames = re.findall(r"#\d+ 0x[0-9a-f]+ in (\S+)", rb_)
            sig = ">".join([f for f in frames if not f.startswith("__")][:3])
            ctx.violation("isolate-sanitizer|" + sig, "sanitizer report only under --isolate-ffi (program %d, calls %s)\n%s"
                          % (prog.idx, [c.pair() for c in calls][:6], rb_[:3000]), files)
            oc.bump("sanitizer-only-isolated")
            return
        san_inproc = ra is not None
        if ra:
            # the callee itself is memory-unsafe on this input, in-process already: not a statement about isolation
            # (the sanitizer then kills nano_cop, which changes how the VM ends).  Blocks before the report still count.
            oc.bump("sanitizer-in-process-too")
            fr = [f for f in re.findall(r"#\d+ 0x[0-9a-f]+ in (\S+)", ra) if not f.startswith("__")][:1]
            oc.bump("callee report: " + (fr[0] if fr else "?"))
    else:
        san_inproc = False
    for k, c in enumerate(calls):
        if k in adone and k in bdone and ablk[k] == bblk[k]:
            oc.pairs_both.add(c.pair())
            oc.calls_both += 1
            if c.oversize():
                oc.oversize_ok += 1
    if san_inproc:
        return
    if res["flaky"]:
        oc.bump("isolated-differs-once-then-equal")
        ctx.note("program %d (%s): the isolated run differed once and was equal when repeated" % (prog.idx, tag))
    if obs(a1) == obs(b):
        oc.bump("equal")
        return
    # ---- classify the first diverging call -------------------------------------------------------------
    first = None
    for k, c in enumerate(calls):
        if ablk.get(k) != bblk.get(k):
            first = k
            break
    berr = b.errtext()
    if first is None:
        key = "isolate-diff|status-or-trailer"
        what = "same call blocks but status/trailer differ: in-process status %s, isolated status %s" % (a1.status, b.status)
    else:
        c = calls[first]
        prefix_ok = all(ablk.get(j) == bblk.get(j) for j in range(first))
        stopped = first not in bdone and all(j not in bblk for j in range(first + 1, len(calls)))
        if (c.req > REQ_BUF and prefix_ok and stopped and first in adone and b.status == 1
                and re.search(r"COP: failed to serialize arg \d+", berr)):
            key = "isolate-diff|arg>8K"
        elif (c.res > REPLY_BIG and c.req <= REQ_BUF and prefix_ok and first in adone):
            key = "isolate-diff|result>1M"
        else:
            key = "isolate-diff|%s|%s" % (c.name, c.label)
        da = b"\n".join(ablk.get(first, [b"<absent>"]))[:600]
        db = b"\n".join(bblk.get(first, [b"<absent>"]))[:600]
        what = ("call %d %s(%s): request %d bytes, result %s bytes\n in-process (status %s): %r\n isolated   (status %s): %r\n isolated stderr: %s"
                % (first, c.name, c.label, c.req, c.res or "small", a1.status, da, b.status, db, berr[-400:]))
    for c in calls:
        if c.pair() not in oc.pairs_both:
            oc.pairs_inproc_only.add(c.pair())
    oc.bump("DIFF " + key)
    ctx.violation(key, "%s flavor, program %d: %s" % (tag, prog.idx, what), files)


# ------------------------------------------------------------------------------------------------------------
# codec probe
# ------------------------------------------------------------------------------------------------------------
def codec(ctx, asan):
    total = ctx.n(20000, 1000000)
    chunk = ctx.n(1250, 12500)
    jobs = [(i, min(chunk, total - i)) for i in range(0, total, chunk)]
    probe = asan.probe("cop_codec_probe")
    pseed = ctx.rng("codec").randrange(1, 2 ** 40)

    def one(job):
        first, cnt = job
        r = sh([probe, "run", str(pseed), str(first), str(cnt)], cpu=3000, wall=7200, san=True, max_out=32 << 20)
        if r.timeout:
            r = sh([probe, "run", str(pseed), str(first), str(cnt)], cpu=3000, wall=7200, san=True, max_out=32 << 20)
        return job, r

    tot = {}
    shapes = {}
    fails = []
    for (first, cnt), r in pmap(one, jobs):
        rep = r.sanitizer_report()
        if rep:
            m = re.search(r"COP_CODEC_PROBE_CASE (-?\d+) phase=(\S+)", r.errtext())
            frames = [f for f in re.findall(r"#\d+ 0x[0-9a-f]+ in (\S+)", rep) if not f.startswith("__")][:3]
            case = m.group(1) if m else "?"
            ctx.violation("codec-sanitizer|%s|%s" % (m.group(2) if m else "?", ">".join(frames)),
                          "sanitizer report in the codec probe, case %s of seed %d\n%s" % (case, pseed, rep[:3000]),
                          {"cmd.txt": "cop_codec_probe run %d %s 1    # asan flavor\n" % (pseed, case)})
            continue
        ctx.require(not r.timeout, "codec probe hit the watchdog twice (cases %d..%d)" % (first, first + cnt))
        m = re.search(r"^SUMMARY (.*)$", r.text(), re.M)
        if not m or r.status != 0:
            ctx.violation("codec-abnormal|rc=%s sig=%s" % (r.rc, r.sig), "cop_codec_probe ended abnormally on cases %d..%d: %s"
                          % (first, first + cnt, r.brief()), {"cmd.txt": "cop_codec_probe run %d %d %d\n" % (pseed, first, cnt)})
            continue
        for kv in m.group(1).split():
            k, v = kv.split("=")
            if k == "maxneed":
                tot[k] = max(tot.get(k, 0), int(v))
            elif k == "asan":
                tot[k] = min(tot.get(k, 1), int(v))
            else:
                tot[k] = tot.get(k, 0) + int(v)
        for line in r.text().splitlines():
            if line.startswith("SHAPE "):
                s, n = line[6:].rsplit(" ", 1)
                shapes[s] = shapes.get(s, 0) + int(n)
            elif line.startswith("FAIL "):
                fails.append(line)
    for line in fails:
        m = re.match(r"FAIL (\S+) case=(-?\d+) shape=(\S*) (.*)", line)
        cls, case, shape, detail = m.groups() if m else ("?", "?", "?", line)
        ctx.violation("codec|%s|%s" % (cls, re.sub(r"[\[:].*", "", shape)),
                      "codec expectation failed: %s (case %s of seed %d, value shape %s)\n%s" % (cls, case, pseed, shape, detail),
                      {"cmd.txt": "cop_codec_probe run %d %s 1    # asan flavor; prints the FAIL line again\n" % (pseed, case)})
    return tot, shapes, pseed


# ------------------------------------------------------------------------------------------------------------
def controls(ctx, fl, sc, tag):
    """the isolated run must really execute the extern calls in a child of the VM, served by this flavor's nano_cop"""
    env, found = cop_env(fl)
    ctx.require(found is not None and os.path.realpath(found) == os.path.realpath(fl.nano_cop),
                "nano_cop resolved through PATH is %s, expected %s" % (found, fl.nano_cop))
    wd = sc.sub("control-" + tag)
    src = os.path.join(wd, "c.nano")
    with open(src, "wb") as f:
        f.write(b'extern fn getppid() -> int\nfn main() -> int {\n    unsafe {\n        (println (getppid))\n    }\n    return 0\n}\nshadow main { assert true }\n')
    nvm = os.path.join(wd, "c.nvm")
    c = sh([fl.nano_virt, src, "--emit-nvm", "-o", nvm], cpu=30, cwd=wd, env=env, san=(tag == "asan"))
    ctx.require(c.rc == 0 and os.path.exists(nvm), "control program does not compile: %s" % c.brief())
    a = sh([fl.nano_vm, nvm], cpu=30, cwd=wd, env=env, san=(tag == "asan"))
    b = sh([fl.nano_vm, "--isolate-ffi", nvm], cpu=30, cwd=wd, env=env, san=(tag == "asan"))
    me = str(os.getpid()).encode()
    cfiles = {"program.nano": open(src, "rb").read(), "inproc.out": a.out, "inproc.err": a.err, "isolated.out": b.out,
              "isolated.err": b.err, "cmd.txt": "flavor %s; PATH=<flavor>/bin:/usr/bin:/bin\nnano_vm c.nvm  vs  nano_vm --isolate-ffi c.nvm\n" % fl.name}
    if a.timeout or b.timeout:
        ctx.require(False, "control program hit the watchdog: %s / %s" % (a.brief(), b.brief()))
    inproc_ok = a.status == 0 and a.out.strip() == me
    iso_ran = b.status == 0 and b.out.strip().isdigit()
    if not inproc_ok:
        # fails (or is unobservable) without isolation too: nothing to compare against
        ctx.require(False, "control: in-process getppid() did not return the harness pid: %s / isolated: %s" % (a.brief(), b.brief()))
    if not iso_ran:
        # the same program succeeded in-process and ends differently under --isolate-ffi: that is the property, not a harness problem
        what = "status" if b.status != a.status else "output"
        ctx.violation("isolate-diff|control|getppid-" + what,
                      "%s flavor: a program that only calls the zero-argument extern getppid() prints the pid and exits 0 in-process, "
                      "but under --isolate-ffi: status %s, stdout %r, stderr %s" % (tag, b.status, b.out[:200], b.errtext()[-400:]), cfiles)
        return env
    ctx.require(b.out.strip() != me, "control: under --isolate-ffi getppid() was not executed in a child of the VM "
                "(the co-process was not used, isolation cannot be observed): %s" % b.brief())
    return env


def run(ctx):
    plain = build.get("plain")
    asan = build.get("asan")
    opcode = call_extern_opcode()
    ctx.require(opcode is not None, "OP_CALL_EXTERN not found in isa.h")
    thorough = not ctx.quick()
    with Scratch("c15") as sc:
        env_p = controls(ctx, plain, sc, "plain")
        env_a = controls(ctx, asan, sc, "asan")

        # ---- oracle 2: CLI differential ---------------------------------------------------------------------
        cat = catalogue(thorough)
        all_pairs = set(c.pair() for c in cat)
        nprog = ctx.n(56, 592)
        per = 9
        sel = select(ctx, cat, nprog * (per - 1))
        if thorough and len(sel) < nprog * (per - 2):
            # fill the budget with a second, differently dealt pass over the catalogue
            extra = list(cat)
            ctx.rng("second-pass").shuffle(extra)
            sel += extra[: nprog * (per - 2) - len(sel)]
        dealt, left = deal(sel, nprog, per, ctx.rng("deal"))
        progs = []
        # program 0: the committed witness of the open finding (request > 8 KiB)
        wit = os.path.join(FIND_DIR, "arg_gt_8k.nano")
        # programs 1..3: reply-size boundaries through vm_file_read
        fcalls, ffiles = file_calls()
        small = [c for c in fcalls if not c.oversize()]
        groups = [small] + [small[:3] + [c] for c in fcalls if c.oversize()]
        for g in groups + dealt:
            p = Program(len(progs), g)
            if g and g[0].name == "vm_file_read":
                p.files = dict((c.args[0].val.decode(), ffiles[c.args[0].val.decode()]) for c in g)
            progs.append(p)

        oc_p, oc_a = Outcome(), Outcome()

        def job(item):
            tag, p = item
            fl, env = (plain, env_p) if tag == "plain" else (asan, env_a)
            return item, run_program(fl, env, os.path.join(sc.path, "%s-%04d" % (tag, p.idx)), p, opcode, tag == "asan")

        items = [("plain", p) for p in progs]
        # a third of the programs (all heavy ones excluded in quick) also run on the ASan+UBSan flavor
        for p in progs:
            if p.idx % 3 == 0 and not (ctx.quick() and any(c.req > 200000 or c.res > 200000 for c in p.calls)):
                items.append(("asan", p))
        results = pmap(job, items)
        for (tag, p), res in results:
            judge(ctx, oc_p if tag == "plain" else oc_a, plain if tag == "plain" else asan, p, res, tag)
            shutil.rmtree(os.path.join(sc.path, "%s-%04d" % (tag, p.idx)), ignore_errors=True)

        # witness replay (kept separate so that its verdict does not depend on the generator)
        wit_state = None
        if os.path.exists(wit):
            wd = sc.sub("witness")
            nvm = os.path.join(wd, "w.nvm")
            c = sh([plain.nano_virt, wit, "--emit-nvm", "-o", nvm], cpu=30, cwd=wd, env=env_p)
            ctx.require(c.rc == 0, "witness findings/C15/arg_gt_8k.nano does not compile: %s" % c.brief())
            a = sh([plain.nano_vm, nvm], cpu=30, cwd=wd, env=env_p)
            b = sh([plain.nano_vm, "--isolate-ffi", nvm], cpu=30, cwd=wd, env=env_p)
            ctx.require(a.status == 0 and a.out == b"8181\n8182\n65536\ndone\n", "witness: unexpected in-process behaviour: %s" % a.brief())
            if obs(a) != obs(b):
                wit_state = "fails"
                if b.out == b"8181\n" and b.status == 1 and "COP: failed to serialize arg 0" in b.errtext():
                    ctx.violation("isolate-diff|arg>8K", "witness arg_gt_8k.nano: strlen of an 8182-byte string fails only under --isolate-ffi",
                                  {"program.nano": open(wit, "rb").read(), "isolated.err": b.err})
                else:
                    ctx.violation("isolate-diff|witness-arg_gt_8k", "witness arg_gt_8k.nano differs in an unexpected way: in-process %s / isolated %s"
                                  % (a.brief(), b.brief()), {"program.nano": open(wit, "rb").read()})
            else:
                wit_state = "passes"
                if "isolate-diff|arg>8K" in ctx.open:
                    ctx.note("open finding isolate-diff|arg>8K no longer reproduces on its witness: move the entry to 'fixed'")
        for key in ("isolate-diff|result>1M",):
            if key in ctx.open and key not in ctx.known_hit:
                ctx.note("open finding %s did not reproduce in this run" % key)

        # ---- oracle 1: codec probe (after the differential; the cache entry is refreshed so that it is not pruned) ----
        asan = build.get("asan")
        tot, shapes, pseed = codec(ctx, asan)

        # ---- sufficiency (a run that saw too little is inconclusive - unless it already found a violation, which stands) ----
        n_plain = oc_p.programs
        externs = sorted(set(p[0] for p in oc_p.pairs_both))
        if not ctx.violations:
            ctx.require(tot.get("cases", 0) >= ctx.n(20000, 1000000) * 0.9, "codec probe evaluated only %s cases" % tot.get("cases", 0))
            ctx.require(tot.get("asan") == 1, "codec probe was not built with ASan")
            for t in ("int", "float", "bool", "string", "array", "opaque", "void"):
                ctx.require(tot.get(t, 0) > 100, "codec probe generated too few %s values" % t)
            ctx.require(oc_p.compile_fail == 0 and oc_a.compile_fail == 0, "%d generated programs did not compile" % (oc_p.compile_fail + oc_a.compile_fail))
            ctx.require(n_plain >= ctx.n(50, 500), "only %d programs ran" % n_plain)
            ctx.require(oc_p.unobservable + oc_a.unobservable <= max(2, n_plain // 50),
                        "%d programs were not reproducible in-process or hit the watchdog" % (oc_p.unobservable + oc_a.unobservable))
            ctx.require(oc_p.inproc_fail <= max(2, n_plain // 25), "%d programs did not complete in-process" % oc_p.inproc_fail)
            ctx.require(len(oc_p.pairs_both) >= ctx.n(150, 600) and len(externs) >= 40,
                        "too few (extern, class) pairs executed in both modes: %d pairs, %d externs" % (len(oc_p.pairs_both), len(externs)))
        classes = {}
        for _, lab in oc_p.pairs_both:
            k = lab.split(",")[0]
            classes[k] = classes.get(k, 0) + 1
        blocked = sorted(set(oc_p.pairs_inproc_only) - oc_p.pairs_both)
        samples = []
        for p in progs[4:7]:
            samples.append({"program": p.idx, "calls": ["%s(%s) req=%dB" % (c.name, c.label, c.req) for c in p.calls]})
        samples.append({"codec_shapes": sorted(shapes.items(), key=lambda kv: -kv[1])[:8]})
        return ctx.finish({
            "evaluations": n_plain + oc_a.programs + tot.get("cases", 0),
            "distinct_nontrivial": len(oc_p.pairs_both) + len(shapes),
            "rule": "distinct (extern function, argument class) pairs whose call block completed with identical bytes in the in-process and "
                    "the isolated run of the plain flavor (%d) + distinct value shapes generated by the codec probe (%d; shape = type, "
                    "value/length/content class, array element type, count class, nesting, first element)" % (len(oc_p.pairs_both), len(shapes)),
            "programs_plain": n_plain, "programs_asan": oc_a.programs,
            "calls_equal_in_both_modes": oc_p.calls_both, "calls_equal_in_both_modes_asan": oc_a.calls_both,
            "op_call_extern_executed_inproc": oc_p.extern_ops,
            "externs_exercised": externs,
            "argument_classes": dict(sorted(classes.items())),
            "pairs_in_catalogue": len(all_pairs), "pairs_generated": len(set(c.pair() for p in progs for c in p.calls)),
            "pairs_not_dealt": len(left),
            "pairs_compared_in_both_modes": len(oc_p.pairs_both),
            "pairs_stopped_by_known_finding": len(blocked), "pairs_stopped_sample": ["%s(%s)" % p for p in blocked[:12]],
            "oversize_calls_equal": oc_p.oversize_ok,
            "outcomes_plain": oc_p.hist, "outcomes_asan": oc_a.hist,
            "witness_arg_gt_8k": wit_state,
            "codec": {"seed": pseed, "cases": tot.get("cases", 0), "roundtrips": tot.get("roundtrips", 0),
                      "values_by_type": dict((t, tot.get(t, 0)) for t in ("int", "float", "bool", "string", "array", "opaque", "void")),
                      "short_buffer_sizes_probed": tot.get("shortbufs", 0), "prefixes_probed": tot.get("prefixes", 0),
                      "cases_all_sizes_enumerated": tot.get("full", 0), "cases_sizes_sampled": tot.get("sampled", 0),
                      "largest_encoding": tot.get("maxneed", 0), "bytes_encoded": tot.get("bytes", 0),
                      "encodings_not_matching_documented_size": tot.get("sizediff", 0), "distinct_shapes": len(shapes),
                      "expectation_failures": tot.get("fails", 0)},
            "samples": samples,
        }, assumptions=[
            "observation = stdout bytes and exit status of nano_vm; stderr is not part of the comparison",
            "extern set: libc string/char/stdlib, libm all-float signatures, exported runtime helpers (dyn_array_*, vm_*): every one resolves in "
            "nano_vm and nano_cop on the unchanged tree; functions with process-dependent results (getpid, time, pointers printed) are excluded, "
            "and a program whose two in-process runs differ is set aside, not judged",
            "ctype functions are called inside their domain (-1..255); mixed int/float signatures are not used (the bridge does not support them in either mode)",
            "the codec probe links the repository's cop_protocol.o and heap.o (asan flavor); decoded values live in a second VmHeap",
            "strings longer than 2 MiB and payloads beyond COP_MAX_PAYLOAD (16 MiB) are not explored",
        ])


def replay(ctx, rdir):
    src = os.path.join(rdir, "program.nano")
    if not os.path.exists(src):
        print(open(os.path.join(rdir, "cmd.txt")).read() if os.path.exists(os.path.join(rdir, "cmd.txt")) else "nothing to replay")
        return 2
    fl = build.get("plain")
    env, _ = cop_env(fl)
    with Scratch("c15r") as sc:
        for f in os.listdir(rdir):
            if f.endswith(".dat"):
                shutil.copy(os.path.join(rdir, f), sc.path)
        nvm = os.path.join(sc.path, "p.nvm")
        c = sh([fl.nano_virt, src, "--emit-nvm", "-o", nvm], cpu=60, cwd=sc.path, env=env)
        if c.rc != 0:
            print("does not compile", c.brief())
            return 2
        a = sh([fl.nano_vm, nvm], cpu=120, cwd=sc.path, env=env, max_out=64 << 20)
        b = sh([fl.nano_vm, "--isolate-ffi", nvm], cpu=120, cwd=sc.path, env=env, max_out=64 << 20)
        print("in-process: status %s, %d bytes; isolated: status %s, %d bytes" % (a.status, len(a.out), b.status, len(b.out)))
        if obs(a) == obs(b):
            print("no difference")
            return 0
        al, bl = a.out.split(b"\n"), b.out.split(b"\n")
        for i in range(max(len(al), len(bl))):
            x = al[i] if i < len(al) else b"<eof>"
            y = bl[i] if i < len(bl) else b"<eof>"
            if x != y:
                print("first differing line %d:\n  in-process: %r\n  isolated:   %r" % (i + 1, x[:200], y[:200]))
                break
        print("isolated stderr:", b.errtext()[-400:])
        print("VIOLATION property=C15 replay=%s" % rdir)
        return 1
