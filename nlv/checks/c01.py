"""C01 - native (C-transpiled) and NanoVM backends are observationally equivalent (DESIGN §4 C01).

E: one program, two runs (`nanoc p -o p && ./p`, `nano_virt p --run`) whose stdout bytes or exit status differ.
O: byte comparison of stdout and of the exit status.  stderr is not compared.
W: (1) census cells (one tiny program per language feature) - the unit of known findings;
   (2) seeded sweep of generated programs, all accepted by the independent reference model first
       (no partial operation, no int64 overflow, inside the limits); constructs bound to an open census cell are
       switched off in the sweep so the rest of the language keeps being explored.
"""
import os
import re

from .. import build, engines, sweep, census
from ..gen import gen
from ..run import pmap, Scratch, run as sh

LEVEL = "exploration"


def _seg(t):
    m = re.search(r"<<S\n(.*?)>>E\n", t, re.S)
    return m.group(1) if m else None


def outcome(o):
    """(kind, detail): equal / differ / skip-native-build / vm-hang ..."""
    if o.nanoc is not None and not o.built:
        return "skip:native-build-failed:" + engines.classify_nanoc_failure(o.nanoc), None
    n, v = o.native, o.vm
    if v.timeout or n.timeout:
        return "inconclusive:watchdog", None
    if n.out == v.out and n.status == v.status:
        return "equal", None
    if n.out != v.out:
        d = engines.first_diff(n.text(), v.text())
        return "differ", "stdout line %d: native=%r vm=%r (native exit %s, vm exit %s)%s" % (
            d[0], d[1], d[2], n.status, v.status, " vm stderr: " + v.errtext().strip()[-200:] if v.errtext().strip() else "")
    return "differ", "exit status: native=%s vm=%s; vm stderr: %s" % (n.status, v.status, v.errtext().strip()[-200:])


def run(ctx):
    plain = build.get("plain")
    with Scratch("c01") as sc:
        # ---- 1. census ----------------------------------------------------------
        cells = list(sweep.census_cells())

        def do_cell(c):
            name, text, exp = c
            return c, engines.observe(plain, sc.sub("census/" + name), census.files(name))

        census_out = {}
        for (name, text, exp), o in pmap(do_cell, cells):
            kind, detail = outcome(o)
            census_out[name] = kind
            if kind == "differ":
                ctx.violation("census|" + name, "census feature '%s': native and VM disagree: %s" % (name, detail),
                              {"main.nano": text, "native.stdout": o.native.out, "vm.stdout": o.vm.out,
                               "cmd.txt": "nanoc main.nano -o main.bin && ./main.bin ; nano_virt main.nano --run\n"})
        # ---- 1b. hostile string family: hash-colliding strings alive at the same time -----------
        hostile = sweep.collision_string_programs(plain, ctx.rng("collide"), want=ctx.n(6, 40))
        ctx.require(len(hostile) >= 3, "could not find hash-colliding string pairs (%d)" % len(hostile))

        def do_h(c):
            name, text, exp = c
            return c, engines.observe(plain, sc.sub("hostile/" + name), {"main.nano": text})

        hostile_equal = 0
        for (name, text, exp), o in pmap(do_h, hostile):
            kind, detail = outcome(o)
            if kind == "equal":
                hostile_equal += 1
            elif kind == "differ":
                ctx.violation("hostile|hash-colliding-strings", "two different strings with equal VM hash (%s): native and VM disagree: %s" % (name, detail),
                              {"main.nano": text, "native.stdout": o.native.out, "vm.stdout": o.vm.out, "expected.stdout": exp})
        # ---- 1c. builtin boundary tables (nlv/tables.py): native vs VM, cell by cell -------------
        from .. import tables
        bt_cells = 0

        def do_bt(c):
            return c, engines.observe(plain, sc.sub("btable/" + c[0]), {"main.nano": c[1]})

        for (name, text, exp, ncell, labels), o in pmap(do_bt, tables.builtin_tables()):
            if not o.built or o.native is None or o.vm is None or "SENTINEL" not in o.native.text() or "SENTINEL" not in o.vm.text():
                ctx.violation("btable|%s|incomplete" % name, "builtin table %s: %s" % (
                    name, "native build failed: " + engines.classify_nanoc_failure(o.nanoc) if not o.built else
                    "a run ended early (native status %s, vm status %s)" % (o.native.status if o.native else None, o.vm.status if o.vm else None)),
                    {"main.nano": text, "native.stdout": o.native.out if o.native else "", "vm.stdout": o.vm.out if o.vm else ""})
                continue
            bad = tables.judge_lines(o.native.text(), o.vm.text()) or []
            bt_cells += ncell
            for k, lab, w, g in bad[:40]:
                ctx.violation("btable|%s" % lab, "builtin table: %s%s: native printed '%s', VM printed '%s'" % (lab, tuple(labels[k][1]), w, g),
                              {"main.nano": text, "native.stdout": o.native.out, "vm.stdout": o.vm.out})
            if o.native.status != o.vm.status:
                ctx.violation("btable|%s|exit-status" % name, "builtin table %s: exit status native %s, VM %s" % (name, o.native.status, o.vm.status), {"main.nano": text})
        ctx.require(bt_cells > 2500, "builtin tables incomplete (%d cells)" % bt_cells)
        hm_sizes = 0
        for (name, text, exp, ncell, labels), o in pmap(do_bt, tables.hashmap_tables()):
            if not o.built or o.native is None or o.vm is None or "SENTINEL" not in o.native.text() or "SENTINEL" not in o.vm.text():
                ctx.violation("hashmap|%s|incomplete" % name, "hashmap table %s: %s" % (
                    name, "native build failed: " + engines.classify_nanoc_failure(o.nanoc) if not o.built else
                    "a run ended early (native status %s, vm status %s): %s" % (o.native.status if o.native else None, o.vm.status if o.vm else None,
                                                                               (o.vm.errtext() if o.vm else "")[-200:])),
                    {"main.nano": text, "native.stdout": o.native.out if o.native else "", "vm.stdout": o.vm.out if o.vm else ""})
                continue
            bad = tables.hashmap_first_bad(o.native.text(), o.vm.text())
            hm_sizes += len(labels)
            if bad:
                ctx.violation("hashmap|%s|%s" % (name, bad[0]), "hashmap table %s, map size %s: native printed '%s', VM printed '%s' (output line %d)" % (
                    name, bad[0], bad[2], bad[3], bad[1]), {"main.nano": text, "native.stdout": o.native.out, "vm.stdout": o.vm.out})
        ctx.require(hm_sizes >= 40, "hashmap tables incomplete (%d sizes)" % hm_sizes)
        bt_cells += hm_sizes * 8
        n_cells_equal = sum(1 for k in census_out.values() if k == "equal")
        ctx.require(n_cells_equal >= 20, "census: only %d cells comparable" % n_cells_equal)

        # ---- 2. sweep -----------------------------------------------------------
        n = ctx.n(240, 6000)
        batch = sweep.gen_batch(ctx, n, neutral_fraction=0.4)
        ctx.require(len(batch) >= n * 0.6, "generator produced too few in-zone programs (%d of %d)" % (len(batch), n))

        def do_prog(item):
            i, prog, exp = item
            return item, engines.observe(plain, sc.sub("p%05d" % i), prog.files())

        hist = {}
        compared_lines = 0
        feature_sets = set()
        samples = []
        for (i, prog, exp), o in pmap(do_prog, batch):
            kind, detail = outcome(o)
            hist[kind] = hist.get(kind, 0) + 1
            if kind == "equal":
                nlines = o.native.out.count(b"\n")
                compared_lines += nlines
                if nlines >= 10:
                    feature_sets.add(frozenset(prog.tags))
                if len(samples) < 3:
                    samples.append({"index": i, "features": sorted(prog.tags), "lines_compared": nlines,
                                    "exit": o.native.status, "source_head": prog.files()["main.nano"][:600]})
            elif kind == "differ":
                def still(p, e, _i=i):
                    o2 = engines.observe(plain, sc.sub("red%05d" % _i), p.files())
                    return outcome(o2)[0] == "differ"
                sig, small = sweep.reduced_key(prog, still)
                files = {"original/" + k: v for k, v in prog.files().items()}
                files.update({"reduced/" + k: v for k, v in small.files().items()})
                files["native.stdout"] = o.native.out
                files["vm.stdout"] = o.vm.out
                files["reference.stdout"] = exp["stdout"]
                files["cmd.txt"] = "cd original && nanoc main.nano -o main.bin && ./main.bin ; nano_virt main.nano --run\n"
                ctx.violation("sweep|native!=vm|" + sig, "generated program %d: %s\nconstructs of the reduced program: %s" % (i, detail, sig), files)
            # thin the scratch directory as we go
        n_equal = hist.get("equal", 0)
        ctx.require(n_equal >= len(batch) * 0.5, "too few programs comparable on both engines: %s" % hist)
        # opcode coverage on the VM side (hook H1) from a sample
        ops = set()
        statf = os.path.join(sc.path, "opstats.txt")
        for i, prog, exp in batch[:40]:
            d = os.path.join(sc.path, "p%05d" % i)
            engines.run_vm(plain, d, env={"NLVERIF_OPSTATS": statf})
        if os.path.exists(statf):
            for line in open(statf):
                for tok in line.split()[1:]:
                    ops.add(int(tok.split(":")[0]))
        return ctx.finish({
            "evaluations": len(batch) + len(cells) + bt_cells,
            "distinct_nontrivial": len(feature_sets) + n_cells_equal + bt_cells,
            "rule": "a program is non-trivial when both engines ran it and >= 10 output lines were compared; distinct = distinct "
                    "feature-tag sets among those, plus census cells compared equal, plus builtin-table cells (distinct by construction: "
                    "one (builtin, argument tuple) each)",
            "builtin_table_cells_compared": bt_cells,
            "programs": len(batch),
            "programs_compared_equal": n_equal,
            "outcomes": hist,
            "compared_output_lines": compared_lines,
            "census": census_out,
            "hostile_colliding_string_programs": {"run": len(hostile), "equal": hostile_equal},
            "feature_histogram": sweep.feature_histogram(batch),
            "vm_opcodes_reached_in_sample": len(ops),
            "switches_off": sorted(k for k, v in gen.DEFAULT_FEATURES.items() if not v),
            "samples": samples,
        }, assumptions=[
            "generated programs are well-typed by the generator's discipline and accepted by the reference evaluator (nlv/gen/ref.py)",
            "constructs bound to open census cells are switched off in the sweep (see switches_off); each is still run as a census cell",
            "native build failures are not C01 violations (C04 decides them); they are counted under outcomes",
            "fastcc links pre-compiled objects of the repository's own runtime sources instead of recompiling them per program",
        ])


def replay(ctx, path):
    """re-run the stored program on both backends and report whether they still disagree"""
    plain = build.get("plain")
    files = sweep.replay_files(path)
    with Scratch("c01r") as sc:
        o = engines.observe(plain, sc.sub("p"), files)
        kind, detail = outcome(o)
        print("replay %s: %s %s" % (path, kind, detail or ""))
        if kind == "differ":
            print("VIOLATION property=C01 replay=%s" % path)
            return 1
        return 0 if kind == "equal" else 2
