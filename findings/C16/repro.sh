#!/bin/bash
# usage: findings/C16/repro.sh <step>:<kind>:<k> [plain|asan] [healthy|same]
# Runs nano_vm --isolate-ffi (built from /repo's current tree, or $NLVERIF_REPO) on findings/C16/prog.nano against
# the scripted stand-in tools/fake_nano_cop.py injecting the given fault; prints the exit status, stdout, stderr and
# the stand-in's event log.   Healthy outcome: exit 0 + expected_stdout.txt, or exit 1 + "FFI call failed".
set -u
here="$(cd "$(dirname "$0")" && pwd)"; verif="$(cd "$here/../.." && pwd)"
fault="${1:-none}"; flavor="${2:-plain}"; second="${3:-healthy}"
root=$(cd "$verif" && /usr/bin/python3 -c "from nlv import build; print(build.get('$flavor').root)") || exit 2
d=$(mktemp -d /var/tmp/nlv-c16-XXXXXX); trap 'rm -rf "$d"' EXIT
mkdir "$d/bin" && ln -s "$verif/tools/fake_nano_cop.py" "$d/bin/nano_cop"
ASAN_OPTIONS=detect_leaks=0 "$root/bin/nano_virt" "$here/prog.nano" --emit-nvm -o "$d/prog.nvm" >/dev/null || exit 2
cd "$d"
env -i PATH="$d/bin:/usr/bin:/bin" NLVERIF_COP_FAULT="$fault" NLVERIF_COP_SECOND="$second" NLVERIF_COP_TABLE="$here/table.json" \
    NLVERIF_COP_LOG="$d/cop.log" ASAN_OPTIONS=detect_leaks=0:exitcode=97:allocator_may_return_null=1 UBSAN_OPTIONS=print_stacktrace=1:halt_on_error=1:exitcode=97 \
    "$root/bin/nano_vm" --isolate-ffi "$d/prog.nvm" >"$d/out" 2>"$d/err"
rc=$?
echo "exit status: $rc $( [ $rc -gt 128 ] && echo "(signal $((rc-128)): $(kill -l $((rc-128))))")"
echo "--- stdout"; cat "$d/out"; echo "--- stderr"; cat "$d/err"; echo "--- stand-in log"; cat "$d/cop.log" 2>/dev/null
if cmp -s "$d/out" "$here/expected_stdout.txt"; then echo "--- stdout is the complete expected output"; else echo "--- stdout differs from expected_stdout.txt"; fi
