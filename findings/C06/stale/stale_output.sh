#!/bin/sh
# Witness for C06 key stale-executable-left-at-output-path.
# usage: stale_output.sh <path to nanoc>     (run from any directory; works in a scratch copy)
# 1. good.nano (assertion true) is compiled to out.bin; 2. bad.nano (same program, assertion false) is compiled
# to the SAME -o path: nanoc exits 1 ("Shadow test 'twice' FAILED") but out.bin - the earlier build - is still
# there and runs.  The property says a refused compile "leaves no executable at the output path".
NANOC=${1:-nanoc}
here=$(cd "$(dirname "$0")" && pwd)
w=$(mktemp -d) || exit 2
trap 'rm -rf "$w"' EXIT
cp "$here/good.nano" "$here/bad.nano" "$w" && cd "$w" || exit 2
"$NANOC" good.nano -o out.bin >/dev/null 2>&1 || { echo "setup: good.nano did not build"; exit 2; }
"$NANOC" bad.nano -o out.bin >/dev/null 2>&1
rc=$?
echo "nanoc bad.nano -o out.bin: exit $rc"
if [ $rc -ne 0 ] && [ -f out.bin ] && [ -x out.bin ]; then
    echo "DEFECT: an executable is at the -o path after the refused compile; running it prints: $(./out.bin)"
    exit 1
fi
echo "ok: no executable at the -o path"
exit 0
