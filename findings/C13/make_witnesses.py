#!/usr/bin/python3
"""Regenerates the minimal witness files of findings/C13 and prints what the probe observes on each.

    /usr/bin/python3 findings/C13/make_witnesses.py [--write]

Each witness is a hand-made module of 44..120 bytes (header, directory, the one hostile field, checksum
recomputed).  Opcodes are taken by name from the table dumped by `vm_probe --dump-isa`.
"""
import os
import struct
import sys

HERE = os.path.dirname(os.path.abspath(__file__))
sys.path.insert(0, os.path.dirname(os.path.dirname(HERE)))
sys.dont_write_bytecode = True
from nlv import build, nvmfuzz                                    # noqa: E402
from nlv.checks import c13                                        # noqa: E402
from nlv.run import run as sh, Scratch                            # noqa: E402
from nlv.nvmfuzz import assemble, fix_crc, pack_strings, pack_fns, T_CODE, T_STR, T_FN, T_DBG, HDR, I64_MIN  # noqa: E402


def one_section(t, off, size, body=b""):
    """header + one directory entry (t, off, size) + body"""
    h = bytearray(b"NVM\x01") + struct.pack("<IIIIIII", 1, 0, 0, 1, 0, 0, 0)
    return bytes(fix_crc(h + struct.pack("<III", t, off & 0xFFFFFFFF, size & 0xFFFFFFFF) + body))


def witnesses(isa):
    a = nvmfuzz.Asm(isa)
    w = {}
    # section directory: offset + size wraps around 2^32 and passes `sec_offset + sec_size > size`
    w["secwrap_functions.nvm"] = one_section(T_FN, 0xFFFFFFF0, 0x20)            # reads 4 GiB behind the buffer: SEGV in le_read_u32
    w["secwrap_code.nvm"] = one_section(T_CODE, 0xFFFFFFF0, 0x20)               # memcpy from there: SEGV below nvm_append_code
    w["secwrap_debug_near.nvm"] = one_section(T_DBG, 44, (1 << 32) - 44 + 8, b"\0\0\0\0")   # starts inside the file, runs off its end
    w["secwrap_code_2g.nvm"] = one_section(T_CODE, 0x80000010, 0x80000000)      # 2 GiB copy, module destroyed afterwards
    w["secwrap_functions_near.nvm"] = one_section(T_FN, 44, (1 << 32) - 44 + 8, b"\0\0\0\0")  # u32 inside the file, the u16 behind it is not
    w["secwrap_imports_near.nvm"] = one_section(8, 44, (1 << 32) - 44 + 8, b"\0" * 10)           # the return-type byte is read by nvm_deserialize itself
    # size just below 2^32: nvm_append_code doubles its capacity until it wraps to 0, realloc(p, 0) frees the buffer and
    # the dangling pointer is freed again by nvm_module_free (directly, or inside nvm_deserialize when a later entry is refused)
    w["secwrap_code_4g.nvm"] = one_section(T_CODE, 44, (1 << 32) - 44 + 1)
    h = bytearray(b"NVM\x01") + struct.pack("<IIIIIII", 1, 0, 0, 2, 0, 0, 0)
    w["secwrap_code_4g_then_refused.nvm"] = bytes(fix_crc(h + struct.pack("<IIIIII", T_CODE, 56, (1 << 32) - 56 + 1, T_DBG, 0xFFFF, 1)))
    # a second CODE section whose size makes code_size + size wrap: no reallocation, 4 GiB memcpy
    h = bytearray(b"NVM\x01") + struct.pack("<IIIIIII", 1, 0, 0, 2, 0, 0, 0)
    w["secwrap_code_second.nvm"] = bytes(fix_crc(h + struct.pack("<IIIIII", T_CODE, 56, 16, T_CODE, 56, 0xFFFFFFF0) + b"\0" * 16))
    # string pool: pos + slen wraps
    w["strlen_wrap.nvm"] = one_section(T_STR, 44, 4, struct.pack("<I", 0xFFFFFFFC))
    # function table: code_offset + code_length wraps and passes verify_structure
    code = a.code([("PUSH_I64", 0), ("RET",)])
    w["fnrange_wrap.nvm"] = bytes(assemble(1, 0, [(T_STR, pack_strings([b"main"])), (T_CODE, code),
                                                  (T_FN, pack_fns([(0, 0, 1, 0xFFFFFFFF, 0, 0)]))]))
    # INT64_MIN / -1 and INT64_MIN % -1
    w["div_int64min.nvm"] = a.module([(0, 0, 0, 0, [("PUSH_I64", I64_MIN), ("PUSH_I64", -1), ("DIV",), ("RET",)])])
    w["mod_int64min.nvm"] = a.module([(0, 0, 0, 0, [("PUSH_I64", I64_MIN), ("PUSH_I64", -1), ("MOD",), ("RET",)])])
    # STR_SUBSTR: start + len wraps in vm_string_substr
    w["substr_wrap.nvm"] = a.module([(0, 0, 0, 0, [("PUSH_STR", 0), ("PUSH_I64", 1), ("PUSH_I64", -1), ("STR_SUBSTR",), ("RET",)])])
    # an array that contains itself, printed
    w["print_selfref.nvm"] = a.module([(0, 0, 0, 0, [("ARR_NEW", 7), ("DUP",), ("DUP",), ("ARR_PUSH",), ("PRINT",), ("PUSH_I64", 0), ("RET",)])])
    # arrays nested until the fuel is gone; released recursively by vm_destroy
    w["release_deepnest.nvm"] = a.module([(0, 0, 0, 0, [("ARR_NEW", 1), ("label", "top"), ("ARR_NEW", 7), ("SWAP",), ("ARR_PUSH",), ("JMP", "@top")])])
    return w


def main():
    asan = build.get("asan")
    probe = asan.probe("vm_probe")
    isa = nvmfuzz.Isa(sh([probe, "--dump-isa"], san=True, env=c13.SAN_OPTS).text())
    with Scratch("c13w") as sc:
        for name, blob in sorted(witnesses(isa).items()):
            p = os.path.join(sc.path, "w.pack")
            c13.write_pack(p, [blob])
            rec, deaths = c13.probe_single(probe, p)
            if rec and "dead" in rec:
                d = deaths[rec["dead"]]
                s = c13.signature(d[3], d[2], d[1])
                obs = s[0] if s else "resource-limit"
            else:
                obs = c13.outcome_of(rec) if rec and "T" not in rec else str(rec)
            print("%-26s %4d bytes  %s" % (name, len(blob), obs))
            if "--write" in sys.argv:
                with open(os.path.join(HERE, name), "wb") as f:
                    f.write(blob)


if __name__ == "__main__":
    main()
